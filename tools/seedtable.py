#!/usr/bin/env python3
"""usage: seedtable.py <round>  — prints the DESIGN.md table of one seeded round from seeded/*/meta.json
(first sight = detected_at_first_sight recorded with the frozen binary; now = last tools/seedall.sh run)."""
import sys, json, glob, re, os
rnd = int(sys.argv[1])
rows = []; own = other = missed = 0
for f in sorted(glob.glob('/verif/seeded/*/meta.json')):
    m = json.load(open(f))
    if m.get('round') != rnd: continue
    sid = m['property'] + m['variant']
    title = m.get('title')
    if not title:
        notes = os.path.join(os.path.dirname(f), 'author_notes.md')
        if os.path.exists(notes):
            first = open(notes, encoding='utf-8').readline().strip().lstrip('# ').strip()
            title = re.sub(r'^C\d\d\s*[/,]?\s*(variant|seed)?\s*\w?\s*[—:-]+\s*', '', first)
    fs = m.get('detected_at_first_sight') or []
    if m['property'] in fs: own += 1; first = '**own**: ' + ' '.join(fs[:4]) + ('…' if len(fs) > 4 else '')
    elif fs: other += 1; first = 'other: ' + ' '.join(fs[:4]) + ('…' if len(fs) > 4 else '')
    else: missed += 1; first = 'missed'
    rules = sorted({r.split('|')[0] for r in m.get('first_reports', [])})
    now = ('own' if m.get('detected_by_own_property') else ('other' if m.get('detected_by_properties') else 'missed')) + ' (' + ', '.join(rules[:4]) + ')'
    rows.append(f"| {sid} | {title} | {first} | {now} |")
print("| seed | change | frozen checker | now |\n|------|--------|----------------|-----|")
print("\n".join(rows))
print(f"\nfirst sight: own={own} other={other} missed={missed} of {own+other+missed}")
