#!/bin/bash
# usage: seedcheck.sh <patch.diff>      — applies the patch to /repo, runs every property's quick
# check, prints which raise VIOLATION, and restores /repo. Used to test the checks against
# seeded changes; never leaves /repo modified.
set -u
P=$(realpath "$1")
cd /repo || exit 2
if [ -n "$(git status --porcelain)" ]; then echo "ERROR: /repo not clean"; exit 2; fi
git apply "$P" || { echo "ERROR: patch does not apply"; exit 2; }
trap 'git -C /repo checkout -- . ; git -C /repo clean -fdq' EXIT
cd /verif
hits=""
for p in $(bin/goskvet -list); do
  out=$(bin/check $p quick 2>&1); rc=$?
  if [ $rc -ne 0 ]; then
    hits="$hits $p"
    echo "== $p exit=$rc"
    echo "$out" | grep -E '^  violation:' | cut -c1-420 | head -6
  fi
done
echo "DETECTED_BY:${hits:- none}"
