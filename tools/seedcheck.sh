#!/bin/bash
# usage: seedcheck.sh <patch.diff>      — applies the patch to /repo, runs every property's quick
# check (one process, one load: `goskvet ALL`), prints which raise VIOLATION, and restores /repo.
# Used to test the checks against seeded changes; never leaves /repo modified.
set -u
P=$(realpath "$1")
cd /repo || exit 2
if [ -n "$(git status --porcelain)" ]; then echo "ERROR: /repo not clean"; exit 2; fi
git apply "$P" || { echo "ERROR: patch does not apply"; exit 2; }
trap 'git -C /repo checkout -- . ; git -C /repo clean -fdq' EXIT
cd /verif
# SEED_BIN=<frozen goskvet binary> measures what an earlier state of the rules reports ("first sight")
if [ -n "${SEED_BIN:-}" ]; then out=$("$SEED_BIN" -repo /repo -verif /verif -q ALL quick 2>&1); else out=$(bin/check -q ALL quick 2>&1); fi
echo "$out" | grep -E '^  violation:' | cut -c1-420 | sort -u | head -12
hits=$(echo "$out" | grep -E '^VIOLATION' | sed 's/.*property=\([A-Z0-9]*\).*/\1/' | sort -u | tr '\n' ' ')
echo "DETECTED_BY: ${hits:-none}"
