#!/usr/bin/env python3
"""usage: seed2variant.py <seed-id> <variant-id> <property> <expected-rule> "<note>" [hunk-numbers…]
Turns (at most two) hunks of a kept seeded change into an in-memory self-test variant
(find/replace) of checker/selftest/variants.json. The seed is not applied to /repo."""
import sys, json, re
seed, vid, prop, expect, note = sys.argv[1:6]
want = [int(x) for x in sys.argv[6:]] or None
hunks = []  # (file, find, replace)
cur = None; f = None
for line in open(f'/verif/seeded/{seed}/patch.diff', encoding='utf-8'):
    if line.startswith('+++ b/'):
        f = line[6:].rstrip('\n'); continue
    if line.startswith('--- ') or line.startswith('diff ') or line.startswith('index '):
        continue
    if line.startswith('@@'):
        cur = [f, '', '']; hunks.append(cur); continue
    if cur is None: continue
    if line.startswith('\\'): continue
    body = line[1:]
    if line[0] == ' ': cur[1] += body; cur[2] += body
    elif line[0] == '-': cur[1] += body
    elif line[0] == '+': cur[2] += body
if want: hunks = [hunks[i-1] for i in want]
assert 1 <= len(hunks) <= 2, len(hunks)
p = '/verif/checker/selftest/variants.json'
v = json.load(open(p))
v = [x for x in v if x['id'] != vid]
e = {"id": vid, "props": [prop], "file": hunks[0][0], "find": hunks[0][1], "replace": hunks[0][2], "expect": expect, "note": note + f" (seeded change {seed})"}
if len(hunks) == 2:
    e["extra"] = {"file": hunks[1][0], "find": hunks[1][1], "replace": hunks[1][2]}
v.append(e)
json.dump(v, open(p, 'w'), indent=1, ensure_ascii=False)
print("added", vid)
