#!/bin/bash
# usage: seedverify.sh <patch.diff> <demo file> <pkg dir relative to repo> <test name regexp>
# In a scratch worktree of /repo HEAD: (1) patch applies and builds, (2) the full suite matches the
# baseline, (3) the demo fails with the patch, (4) the demo passes without it. Removes the worktree.
set -u
export GOFLAGS=-mod=mod GOPROXY=off GOSUMDB=off GOTOOLCHAIN=local; unset GOWORK
P=$(realpath "$1"); D=$(realpath "$2"); PKG=$3; RUN=$4
W=$(mktemp -d /tmp/sv.XXXXXX)
git -C /repo worktree add -q --detach "$W/wt" HEAD || exit 2
cleanup(){ git -C /repo worktree remove --force "$W/wt" 2>/dev/null; rm -rf "$W"; }
trap cleanup EXIT
cd "$W/wt"
git apply "$P" || { echo "RESULT: patch does not apply"; exit 1; }
go build ./... || { echo "RESULT: does not build"; exit 1; }
go test -json -vet=off -count=1 ./... > "$W/t.json" 2>/dev/null
python3 - "$W/t.json" <<'PY'
import json,sys
want=set(json.load(open('/root/.vp/BASELINE.json'))['stable_pass']); got=set(); fail=set()
for l in open(sys.argv[1]):
    try: e=json.loads(l)
    except: continue
    if e.get('Test') and e.get('Action') in('pass','fail'):
        (got if e['Action']=='pass' else fail).add(e['Package']+'::'+e['Test'])
print('SUITE: baseline',len(want),'pass',len(got),'fail',len(fail),'missing',len(want-got))
for n in sorted(fail)[:5]: print('  FAIL',n)
PY
cp "$D" "$PKG/zz_seed_demo_test.go"
if go test -vet=off -count=1 -run "$RUN" "./$PKG/" > "$W/with.txt" 2>&1; then echo "DEMO with patch: PASS (unexpected)"; else echo "DEMO with patch: FAIL (expected)"; fi
tail -5 "$W/with.txt" | cut -c1-200
git apply -R "$P"
if go test -vet=off -count=1 -run "$RUN" "./$PKG/" > "$W/without.txt" 2>&1; then echo "DEMO without patch: PASS (expected)"; else echo "DEMO without patch: FAIL (unexpected)"; tail -5 "$W/without.txt"; fi
