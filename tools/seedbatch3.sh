#!/bin/bash
# usage: seedbatch3.sh <list file: "Cxx v TestName [pkgdir]"> [out-prefix (default out3_)]
# verify each seed, then record (a) what the frozen binary of the round's start reports (first sight,
# SEED_BIN) and (b) what the current checker reports.
PFX=${2:-out3_}
FROZEN=${SEED_BIN:-/tmp/seed/goskvet_r3}
while read p v t pkg; do
  [ -z "$p" ] && continue
  pkg=${pkg:-test}
  d=/tmp/seed/$PFX$p
  echo "######## $PFX$p$v"
  /verif/tools/seedverify.sh $d/$v.diff $d/${v}_demo_test.go $pkg "$t" 2>&1 | grep -E '^SUITE|^DEMO|RESULT' | tr '\n' ';'; echo
  SEED_BIN=$FROZEN /verif/tools/seedcheck.sh $d/$v.diff > /tmp/seed/first_$PFX$p$v.txt 2>&1
  echo "  first sight: $(grep -E 'DETECTED_BY|ERROR' /tmp/seed/first_$PFX$p$v.txt)"
  grep -E 'violation:' /tmp/seed/first_$PFX$p$v.txt | sort -u | cut -c1-260 | head -3
  SEED_BIN= /verif/tools/seedcheck.sh $d/$v.diff > /tmp/seed/check_$PFX$p$v.txt 2>&1
  echo "  now:         $(grep -E 'DETECTED_BY|ERROR' /tmp/seed/check_$PFX$p$v.txt)"
done < "$1"
