#!/usr/bin/env python3
"""One-off helper (NOT part of any check): assemble a snippet with a gosk binary built from
/repo and print the bytes, exit status and the non-debug log lines. Used only to confirm that
a statically reported violation is a genuine defect before it is entered in
known_findings.json.  usage: witness.py <gosk-binary> 'SRC line 1\\nline 2'"""
import subprocess, sys, tempfile, os
def run(binary, src):
    with tempfile.TemporaryDirectory() as d:
        s=os.path.join(d,'a.nas'); o=os.path.join(d,'a.bin')
        open(s,'w').write(src if src.endswith('\n') else src+'\n')
        p=subprocess.run([binary,s,o],capture_output=True,text=True)
        data=open(o,'rb').read() if os.path.exists(o) else b''
        logs=[l for l in (p.stderr+p.stdout).splitlines() if 'debug' not in l and 'trace' not in l and not l.startswith('source:')]
        return p.returncode,data,logs
if __name__=='__main__':
    rc,data,logs=run(sys.argv[1],sys.argv[2].replace('\\n','\n'))
    print('exit',rc,'bytes',data.hex(' '))
    for l in logs: print('  ',l)
