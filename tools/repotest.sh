#!/bin/bash
# Runs gosk's own test suite (hooks/tags off) and compares with the pinned baseline list.
export GOFLAGS=-mod=mod GOPROXY=off GOSUMDB=off GOTOOLCHAIN=local; unset GOWORK
cd /repo && go test -json -vet=off -count=1 ./... > /tmp/repotest.json 2>/tmp/repotest.err
python3 - <<'PY'
import json
want=set(json.load(open('/root/.vp/BASELINE.json'))['stable_pass'])
got=set()
fail=set()
for l in open('/tmp/repotest.json'):
    try: e=json.loads(l)
    except: continue
    if e.get('Test') and e.get('Action') in('pass','fail'):
        n=e['Package']+'::'+e['Test']
        (got if e['Action']=='pass' else fail).add(n)
print('baseline',len(want),'passing now',len(got),'failing',len(fail),'missing-from-baseline',len(want-got))
for n in sorted(want-got)[:20]: print('  MISSING',n)
for n in sorted(fail)[:20]: print('  FAIL',n)
PY
