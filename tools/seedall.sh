#!/bin/bash
# Re-runs every property's quick check against every kept seeded change and updates meta.json
# (detected_by_properties, first_reports). /repo is restored after each one.
cd /verif
for d in seeded/*/; do
  id=$(basename $d)
  tools/seedcheck.sh $d/patch.diff > /tmp/seedall_$id.txt 2>&1
  python3 - "$d" /tmp/seedall_$id.txt <<'PY'
import sys,json,re
d,chk=sys.argv[1:3]
det=[];viol=[]
for l in open(chk):
    if l.startswith('DETECTED_BY:'): det=[x for x in l.split(':',1)[1].split() if x!='none']
    m=re.match(r'\s+violation: (\S+\|.*?) at ',l)
    if m and m.group(1) not in viol: viol.append(m.group(1))
    if l.startswith('ERROR'): det=['ERROR: '+l.strip()]
meta=json.load(open(d+'/meta.json'))
meta['detected_by_properties']=det; meta['first_reports']=viol[:8]
meta['detected_by_own_property']=meta['property'] in det
json.dump(meta,open(d+'/meta.json','w'),indent=1)
print('%-6s own=%-5s %s | %s'%(meta['property']+meta['variant'],meta['detected_by_own_property'],' '.join(det) or 'none','; '.join(v[:70] for v in viol[:3])))
PY
done
