#!/bin/bash
# Parallel form of seedall.sh: N workers, each with its own scratch clone of /repo and its own
# scratch copy of /verif's inputs (so evidence written while a seed is applied never lands in
# /verif, and /repo itself is not touched). Updates seeded/*/meta.json like seedall.sh.
# Scratch lives under /tmp/seedpar and is removed at the end.
export GOFLAGS=-mod=mod GOPROXY=off GOSUMDB=off GOTOOLCHAIN=local; unset GOWORK
N=${1:-8}
S=/tmp/seedpar; rm -rf $S; mkdir -p $S/out
(cd /verif && bin/check -q C19 quick >/dev/null 2>&1)   # make sure the binary is current
for i in $(seq 1 $N); do
  git clone -q /repo $S/repo$i
  mkdir -p $S/verif$i/evidence
  cp -r /verif/known_findings.json /verif/properties.jsonl /verif/oracle /verif/checker $S/verif$i/
done
ls -d /verif/seeded/*/ | xargs -n1 basename > $S/list.txt
worker() {
  i=$1
  awk -v n=$N -v i=$i 'NR%n==i%n' $S/list.txt | while read id; do
    cd $S/repo$i
    if ! git apply /verif/seeded/$id/patch.diff 2>/dev/null; then echo "ERROR: patch does not apply" > $S/out/$id.txt; continue; fi
    out=$(/verif/bin/goskvet -repo $S/repo$i -verif $S/verif$i -q ALL quick 2>&1)
    git checkout -q -- . ; git clean -fdq
    { echo "$out" | grep -E '^  violation:' | cut -c1-420 | sort -u | head -12
      hits=$(echo "$out" | grep -E '^VIOLATION' | sed 's/.*property=\([A-Z0-9]*\).*/\1/' | sort -u | tr '\n' ' ')
      echo "DETECTED_BY: ${hits:-none}"; } > $S/out/$id.txt
  done
}
for i in $(seq 1 $N); do worker $i & done
wait
cd /verif
for d in seeded/*/; do
  id=$(basename $d)
  python3 - "$d" $S/out/$id.txt <<'PY'
import sys,json,re
d,chk=sys.argv[1:3]
det=[];viol=[]
for l in open(chk):
    if l.startswith('DETECTED_BY:'): det=[x for x in l.split(':',1)[1].split() if x!='none']
    m=re.match(r'\s+violation: (\S+\|.*?) at ',l)
    if m and m.group(1) not in viol: viol.append(m.group(1))
    if l.startswith('ERROR'): det=['ERROR: '+l.strip()]
meta=json.load(open(d+'/meta.json'))
meta['detected_by_properties']=det; meta['first_reports']=viol[:8]
meta['detected_by_own_property']=meta['property'] in det
json.dump(meta,open(d+'/meta.json','w'),indent=1)
print('%-6s own=%-5s %s | %s'%(meta['property']+meta['variant'],meta['detected_by_own_property'],' '.join(det) or 'none','; '.join(v[:70] for v in viol[:3])))
PY
done
rm -rf $S
