#!/bin/bash
# usage: benigncheck.sh <dir with a.diff b.diff …>  — for behaviour-preserving changes: verify (suite 445/445) and
# run every quick check; any VIOLATION is a false alarm of the checker.
export GOFLAGS=-mod=mod GOPROXY=off GOSUMDB=off GOTOOLCHAIN=local; unset GOWORK
for d in "$1"/*.diff; do
  id=$(basename $(dirname $d))/$(basename $d .diff)
  cd /repo || exit 2
  if [ -n "$(git status --porcelain)" ]; then echo "ERROR: /repo not clean"; exit 2; fi
  if ! git apply "$d" 2>/dev/null; then echo "$id: patch does not apply"; continue; fi
  if ! go build ./... 2>/dev/null; then echo "$id: does not build"; git checkout -- .; git clean -fdq; continue; fi
  suite=$(/verif/tools/repotest.sh 2>/dev/null | tail -1)
  out=$(cd /verif && bin/check -q ALL quick 2>&1)
  git checkout -- . ; git clean -fdq
  n=$(echo "$out" | grep -c '^VIOLATION')
  echo "$id: suite[$suite] alarms=$n $(echo "$out" | grep -E '^  violation:' | cut -c1-330 | sort -u | head -6 | tr '\n' ' ')"
done
