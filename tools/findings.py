#!/usr/bin/env python3
"""Maintenance helper for known_findings.json (never run by a check).
usage: findings.py set <key> <props,comma> <status> <what> <witness>"""
import json,sys
P='/verif/known_findings.json'
d=json.load(open(P))
if sys.argv[1]=='set':
    key,props,status,what,wit=sys.argv[2:7]
    d['findings']=[f for f in d['findings'] if f['key']!=key]
    d['findings'].append({"key":key,"properties":props.split(','),"what":what,"witness":wit,"status":status})
    d['findings'].sort(key=lambda f:f['key'])
    json.dump(d,open(P,'w'),indent=1,ensure_ascii=False)
