#!/bin/bash
# usage: seedbatch.sh <list file: "Cxx v TestName [pkgdir]" per line> [out-prefix (default out_)] — verify + check each seed
PFX=${2:-out_}
while read p v t pkg; do
  [ -z "$p" ] && continue
  pkg=${pkg:-test}
  d=/tmp/seed/$PFX$p
  echo "######## $PFX$p$v"
  /verif/tools/seedverify.sh $d/$v.diff $d/${v}_demo_test.go $pkg "$t" 2>&1 | grep -E '^SUITE|^DEMO|RESULT' | tr '\n' ';'; echo
  /verif/tools/seedcheck.sh $d/$v.diff > /tmp/seed/check_$PFX$p$v.txt 2>&1
  grep -E 'violation:' /tmp/seed/check_$PFX$p$v.txt | sort -u | cut -c1-300 | head -5
  grep -E 'DETECTED_BY|ERROR' /tmp/seed/check_$PFX$p$v.txt
done < "$1"
