#!/usr/bin/env python3
"""Regenerates the rule catalogue table of DESIGN.md §11 from evidence/*.json (run after the
checks). Replaces the text between the markers <!-- RULETABLE:BEGIN --> and <!-- RULETABLE:END -->."""
import json,glob,re
rules={}
for f in sorted(glob.glob('/verif/evidence/C*.json')):
    e=json.load(open(f)); p=e['property_id']
    for r,d in e['coverage']['rules'].items():
        if r in('load','coverage-floor'): continue
        x=rules.setdefault(r,{'props':[],'inst':0,'floor':d.get('floor',0),'doc':d.get('rule','')})
        x['props'].append(p); x['inst']=max(x['inst'],d['instances'])
lines=['| rule | properties | instances | floor | rule text |','|---|---|---|---|---|']
for r in sorted(rules):
    x=rules[r]
    lines.append('| %s | %s | %d | %s | %s |'%(r,' '.join(x['props']),x['inst'],x['floor'] or '–',x['doc'].replace('|','\\|')))
tab='\n'.join(lines)
P='/verif/DESIGN.md'
s=open(P).read()
s2=re.sub(r'(<!-- RULETABLE:BEGIN -->\n).*?(\n<!-- RULETABLE:END -->)',lambda m:m.group(1)+tab+m.group(2),s,flags=re.S)
open(P,'w').write(s2)
print(len(rules),'rules')
