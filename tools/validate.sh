#!/bin/bash
# validates MANIFEST.json and all evidence files against the harness schemas
python3-vt - <<'PY'
import json,jsonschema,glob,sys
ok=True
jsonschema.validate(json.load(open('/verif/MANIFEST.json')),json.load(open('/root/.vp/MANIFEST.schema.json')))
es=json.load(open('/root/.vp/EVIDENCE.schema.json'))
for f in sorted(glob.glob('/verif/evidence/*.json')):
    try: jsonschema.validate(json.load(open(f)),es)
    except Exception as e: ok=False; print('INVALID',f,str(e)[:300])
print('valid' if ok else 'INVALID')
PY
