#!/usr/bin/env python3
"""Regenerates /verif/MANIFEST.json from the table below (claimed properties, technique text)."""
import json
props=[json.loads(l) for l in open('/verif/properties.jsonl')]
T={
 "C01":("table extraction vs ISA oracle (register numbers, no-operand opcodes, condition codes, fallback forms) + prefix/immediate-width flow rules on go/ssa",
        "Decides: every row of the register/opcode/condition tables and of the hand-written instruction forms against the SDM; prefix discipline and immediate-width provenance in every emitter. Does not decide that form selection picks the right form for each concrete operand combination."),
 "C02":("ModR/M / SIB table extraction vs SDM tables 2-1..2-3, canonical displacement intervals, dead-field and ignored-operator checks on the operand grammar actions",
        "Decides: r/m and scale tables, disp8/disp16/32 thresholds, [BP]/[EBP] special cases present, SIB presence not inferred from its value, every parsed address component is consumed. Does not decide the path-sensitive composition of the ~40 branches."),
 "C03":("sibling-agreement rules between pass-1 size model and emitters (lockstep LOC/Emit, data-directive size = bytes appended, constant size rules vs emitter length sets)",
        "Decides structural agreement of the two size computations; not their equality on every operand value."),
 "C04":("emission-shape analysis on go/ssa of the branch emitters: condition-code table vs oracle, subtracted constant = emitted length, range test on the narrowed value, little-endian fields",
        "Decides the arithmetic shape of every branch form; not that pass-1 leaves the target where the emitter assumes it."),
 "C05":("lockstep rule (size advanced = bytes the emitter appends per element), little-endian lane order of DB/DW/DD emitters, RESB value flow, ALIGNB basis agreement",
        "Decides per-clause structure of the data directives on both sides of the text hand-off."),
 "C06":("PEG grammar extraction from the generated parser + derived attributes (precedence layering, operator sets, tuple slots read by actions); operator table, reduced-flag protocol and serialisers of the evaluator; canonical range tables",
        "Decides precedence/associativity structure and the operator→Go-operator table; not 64-bit overflow semantics."),
 "C07":("dominator analysis on go/ssa: every return of every handler is preceded by Emit, delegation or a diagnostic whose header the log backend classifies >= warning (header table read from the colog source and the CLI's AddHeader calls); Emit error discipline",
        "Decides that no handler path can finish silently; the diagnostic level is decided from colog's own table."),
 "C08":("struct layout via go/types.Sizes vs PE-COFF spec, constant fields of header/section/symbol literals, capture-then-write ordering of offsets on go/ssa",
        "Decides record layouts, constants and that each stored offset is the buffer length captured immediately before the data it points to; not acceptance by an independent reader."),
 "C09":("value-flow: both formats write ctx.MachineCode unmodified; sibling writers of the symbol lists share the membership test; stable sort with a name-blind comparator; bounded name copies are length-tested",
        "Decides the structural causes of duplicate/misordered/misvalued symbols."),
 "C10":("effect analysis on go/ssa + VTA call graph: package-level state written only during init, no map iteration / clock / random / environment / goroutine reachable from an assembly, output opened with truncate",
        "With one goroutine and no ambient reads these are the sources of run-to-run variation Go offers; third-party packages are trusted."),
 "C11":("AST/SSA flow: EQU clause stores the evaluated body under the identifier's own text and emits nothing; handlers receive only evaluated operands; lookup is re-evaluated at the use site",
        "Decides the substitution mechanism; not equivalence with textual inlining for bodies containing `$`."),
 "C12":("derived attributes of the extracted PEG: whitespace/comment alphabets, nullability, statement wrappers, separator padding, comment reachability, string-body exclusions",
        "Decides the layout attributes of the grammar; not language equivalence under re-layout."),
 "C13":("reachability of explicit crash primitives (panic, log.Fatal, os.Exit, Must helpers) from the entry points on the VTA call graph; per-site proofs on go/ssa (edge dominance with no-return blocks) for every index, slice expression, forced type assertion, integer division and allocation size of gosk's own code; recursion attributes of the evaluator (EQU table) and of the extracted grammar (bracket nesting); generated parsers keep panic recovery on",
        "Decides, for gosk's own non-generated code: explicit crash sites, every index and slice expression, forced type assertions, integer divisions, computed and input-sized make lengths, Must-style helpers, recursion through the EQU table and bracket nesting in the grammar. Nil dereferences, panics inside the generated parsers / third-party modules and the complexity clause are not decided (no sound tool in reach)."),
 "C14":("phase/effect analysis: scalar context fields read at emission are not written during traversal; no package-level writes after init; ocode list append-only, emission loop unconditional and forward",
        "Decides the channels through which one statement can influence another's bytes."),
 "C15":("backward slices of every SymTable/MacroMap key on go/ssa: no case folding, prefix/substring selection or truncation; no iteration over the tables; name-blind symbol ordering",
        "Decides that names are opaque exact-match keys."),
 "C16":("origin chain on go/ssa: ORG assigns both counters from its operand, pass 2 hands the origin over before emission, every emitter using the running length adds the origin",
        "Decides that the origin enters every address computation exactly once."),
 "C17":("phase rule (mode read at emission must not be written during traversal), default-mode constants, BITS value table",
        "Decides defaults and the scoping mechanism; the known scoping defect is reported as a known finding."),
 "C18":("comparator orientation and tie-break order of the encoding selection, sign-extendable mnemonic set vs ISA group 1, canonical signed-8 intervals, shared matchAnyImm flag between sizing and emission",
        "Decides the selection machinery's structure; not minimality for every operand combination."),
 "C19":("exit-code table extracted from guarded os.Exit sites vs the CLI contract; open flags; output creation dominates both writers; no failing exit after a successful write; single image write after pass 2; backward slice of the text and the options handed to the parser by the command (decoded on every path, not rewritten, no limiting options)",
        "Decides exit statuses and output discipline; not the Shift_JIS/UTF-8 decoding clause (third-party decoder behaviour)."),
}
import subprocess
claimed=subprocess.run(['/verif/bin/goskvet','-list'],capture_output=True,text=True).stdout.split()
claimed=[c for c in claimed if c in T]
checks=[]
for p in props:
    i=p['id']
    if i not in claimed: continue
    tech,txt=T[i]
    checks.append({
     "property_id":i,
     "quick_cmd":"bin/check %s quick"%i,
     "thorough_cmd":"bin/check %s thorough"%i,
     "evidence_file":"/verif/evidence/%s.json"%i,
     "replay_cmd_template":"bin/check --replay {path}",
     "engine":"goskvet",
     "level_claimed":{"category":"other","text":"Named structural necessary conditions of the property are decided exactly on the current source (every row, return path, call site and writer that exists, no sampling); the behaviour itself is not. "+txt,"design_ref":"DESIGN.md §6 "+i},
     "level_note":"Trusted base: go/packages, go/types, go/ssa, VTA call graph (x/tools v0.29.0); oracle tables in /verif/oracle hand-entered from Intel SDM vol. 2 and the PE-COFF specification; third-party modules are not analysed beyond call edges. Nothing in /repo is executed.",
     "technique":"static analysis: "+tech})
m={"version":1,
 "setup_cmd":"cd /verif/checker && GOFLAGS=-mod=mod GOPROXY=off GOSUMDB=off GOTOOLCHAIN=local go build -o /verif/bin/goskvet .",
 "hooks":{"guard":"verif","enable":"no hooks: nothing is instrumented or executed; the loader passes -tags verif so that a later hook file would be analysed like the rest","baseline_off_cmd":"cd /repo && GOFLAGS=-mod=mod GOPROXY=off go test -vet=off -count=1 ./...","source_commits":[],"add_only":True},
 "engines":[{"name":"goskvet","path":"/verif/checker","serves_properties":claimed,"kind_free_text":"repository-specific static analyser (go/packages + go/types + go/ssa + VTA call graph; PEG extraction from generated parsers; oracle tables); never executes gosk"}],
 "checks":checks,
 "notes":"Technique family: static analysis. Genuine defects found are in /verif/known_findings.json (known / fixed: <commit>). See DESIGN.md.",
 "not_applicable":[{"property_id":p['id'],"reason":"check under construction in this round (DESIGN.md §10); it will be claimed once its rules exist"} for p in props if p['id'] not in claimed]}
json.dump(m,open('/verif/MANIFEST.json','w'),indent=1)
print('claimed',claimed)
