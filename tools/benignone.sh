#!/bin/bash
# usage: benignone.sh <diff> [rule-regex] — apply one behaviour-preserving diff, print every violation line of the quick checks, undo.
export GOFLAGS=-mod=mod GOPROXY=off GOSUMDB=off GOTOOLCHAIN=local; unset GOWORK
cd /repo || exit 2
if [ -n "$(git status --porcelain)" ]; then echo "ERROR: /repo not clean"; exit 2; fi
git apply "$1" || exit 2
out=$(cd /verif && bin/check -q ALL quick 2>&1)
git checkout -- . ; git clean -fdq
echo "$out" | grep -E '^  violation:' | sort -u | grep -E "${2:-.}"
