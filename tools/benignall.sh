#!/bin/bash
# run all kept benign diffs
export GOFLAGS=-mod=mod GOPROXY=off GOSUMDB=off GOTOOLCHAIN=local; unset GOWORK
for d in /verif/benign/*/patch.diff; do
  id=$(basename $(dirname $d))
  cd /repo
  if ! git apply "$d" 2>/dev/null; then echo "$id: patch does not apply"; continue; fi
  out=$(cd /verif && bin/check -q ALL quick 2>&1)
  git checkout -- . ; git clean -fdq
  n=$(echo "$out" | grep -c '^VIOLATION')
  echo "$id alarms=$n $(echo "$out" | grep -E '^  violation:' | cut -c1-200 | sort -u | head -3 | tr '\n' ' ')"
done
