#!/usr/bin/env python3
"""usage: seedsave.py <Cxx> <v> <TestName>  — copies a verified seed from /tmp/seed/out_Cxx into
/verif/seeded/Cxx<v>/ with meta.json (detection status comes from the last seedcheck output)."""
import sys,os,shutil,json,re
p,v,t=sys.argv[1:4]
pfx=sys.argv[4] if len(sys.argv)>4 else "out_"
dv=sys.argv[5] if len(sys.argv)>5 else v
pkg=sys.argv[6] if len(sys.argv)>6 else "test"
src='/tmp/seed/%s%s'%(pfx,p); dst='/verif/seeded/%s%s'%(p,dv)
os.makedirs(dst,exist_ok=True)
shutil.copy(src+'/%s.diff'%v,dst+'/patch.diff')
shutil.copy(src+'/%s_demo_test.go'%v,dst+'/demo_test.go')
md=open(src+'/%s.md'%v).read()
shutil.copy(src+'/%s.md'%v,dst+'/author_notes.md')
chk='/tmp/seed/check_%s%s%s.txt'%(pfx if pfx!='out_' else '',p,v)
det=[]; viol=[]
if os.path.exists(chk):
    for l in open(chk):
        if l.startswith('DETECTED_BY:'): det=[x for x in l.split(':',1)[1].split() if x!='none']
        m=re.match(r'\s+violation: (\S+\|[^ ]*)',l)
        if m and m.group(1) not in viol: viol.append(m.group(1))
meta={"property":p,"variant":dv,"round":2 if pfx!="out_" else 1,"origin":"independent sub-agent given only the property text and a scratch worktree of /repo HEAD (with the fix: commits)",
 "demo":{"file":"demo_test.go","place":pkg+"/ (any *_test.go name)","run":"go test -vet=off -count=1 -run %s ./%s/"%(t,pkg)},
 "needs_to_manifest":"see author_notes.md",
 "verified":["patch applies to /repo HEAD and builds","full suite: 445/445 baseline tests pass with the patch","demo FAILS with the patch","demo PASSES without the patch"],
 "ran":"tools/seedverify.sh patch.diff demo_test.go %s %s ; tools/seedcheck.sh patch.diff"%(pkg,t),
 "detected_by_properties":det,"detected_at_first_sight":det,"first_reports":viol[:6]}
json.dump(meta,open(dst+'/meta.json','w'),indent=1)
print(dst,det)
