package main

import (
	"encoding/json"
	"fmt"
	"go/ast"
	"go/constant"
	"go/token"
	"go/types"
	"os"
	"path/filepath"
	"sort"
	"strings"

	"golang.org/x/tools/go/packages"
)

// ---- oracle loading ----

func (c *Ctx) oracle(name string, into any) bool {
	b, err := os.ReadFile(filepath.Join(c.Verif, "oracle", name))
	if err != nil {
		c.fail("oracle", name, "", err.Error())
		return false
	}
	if err := json.Unmarshal(b, into); err != nil {
		c.fail("oracle", name, "", err.Error())
		return false
	}
	return true
}

// ---- constant helpers ----

func constOf(info *types.Info, e ast.Expr) constant.Value {
	if tv, ok := info.Types[e]; ok && tv.Value != nil {
		return tv.Value
	}
	return nil
}

func constInt(info *types.Info, e ast.Expr) (int64, bool) {
	v := constOf(info, e)
	if v == nil {
		return 0, false
	}
	v = constant.ToInt(v)
	if v.Kind() != constant.Int {
		return 0, false
	}
	i, ok := constant.Int64Val(v)
	return i, ok
}

func constStr(info *types.Info, e ast.Expr) (string, bool) {
	v := constOf(info, e)
	if v == nil || v.Kind() != constant.String {
		return "", false
	}
	return constant.StringVal(v), true
}

// constName returns the name of the declared constant an expression refers to (OpJA for
// ocode.OpJA), or "".
func constName(info *types.Info, e ast.Expr) string {
	switch x := e.(type) {
	case *ast.Ident:
		if c, ok := info.Uses[x].(*types.Const); ok {
			return c.Name()
		}
	case *ast.SelectorExpr:
		if c, ok := info.Uses[x.Sel].(*types.Const); ok {
			return c.Name()
		}
	case *ast.ParenExpr:
		return constName(info, x.X)
	}
	return ""
}

// ---- switch tables ----

type swRow struct {
	Keys []ast.Expr
	Body []ast.Stmt
	Pos  token.Pos
	Def  bool // default clause
}

// switchesIn returns every switch statement (tagged or tagless) in node, outermost first.
func switchesIn(node ast.Node) []*ast.SwitchStmt {
	var out []*ast.SwitchStmt
	ast.Inspect(node, func(n ast.Node) bool {
		if s, ok := n.(*ast.SwitchStmt); ok {
			out = append(out, s)
		}
		return true
	})
	return out
}

func rowsOf(s *ast.SwitchStmt) []swRow {
	var rows []swRow
	for _, st := range s.Body.List {
		cc := st.(*ast.CaseClause)
		rows = append(rows, swRow{Keys: cc.List, Body: cc.Body, Pos: cc.Pos(), Def: cc.List == nil})
	}
	return rows
}

// tagType returns the type of a switch tag ("" for tagless switches).
func tagType(info *types.Info, s *ast.SwitchStmt) types.Type {
	if s.Tag == nil {
		return nil
	}
	return info.TypeOf(s.Tag)
}

func isStringType(t types.Type) bool {
	if t == nil {
		return false
	}
	b, ok := t.Underlying().(*types.Basic)
	return ok && b.Info()&types.IsString != 0
}

func namedTypeIs(t types.Type, pkgSuffix, name string) bool {
	if t == nil {
		return false
	}
	if p, ok := t.(*types.Pointer); ok {
		t = p.Elem()
	}
	n, ok := t.(*types.Named)
	if !ok {
		return false
	}
	o := n.Obj()
	return o.Name() == name && o.Pkg() != nil && strings.HasSuffix(o.Pkg().Path(), pkgSuffix)
}

// firstReturn finds the first return statement directly in body (not nested in closures).
func firstReturn(body []ast.Stmt) *ast.ReturnStmt {
	var ret *ast.ReturnStmt
	for _, st := range body {
		ast.Inspect(st, func(n ast.Node) bool {
			if ret != nil {
				return false
			}
			switch x := n.(type) {
			case *ast.FuncLit:
				return false
			case *ast.ReturnStmt:
				ret = x
				return false
			}
			return true
		})
		if ret != nil {
			break
		}
	}
	return ret
}

// assignTo finds, directly in body (top-level statements only), the expression assigned to
// the variable named v.
func assignTo(body []ast.Stmt, v string) ast.Expr {
	for _, st := range body {
		as, ok := st.(*ast.AssignStmt)
		if !ok {
			continue
		}
		for i, lhs := range as.Lhs {
			if id, ok := lhs.(*ast.Ident); ok && id.Name == v && i < len(as.Rhs) {
				return as.Rhs[i]
			}
		}
	}
	return nil
}

// ---- calls ----

// calleeOf resolves the callee of a call expression through type information.
func calleeOf(info *types.Info, call *ast.CallExpr) types.Object {
	fun := ast.Unparen(call.Fun)
	switch f := fun.(type) {
	case *ast.Ident:
		return info.Uses[f]
	case *ast.SelectorExpr:
		if sel, ok := info.Selections[f]; ok {
			return sel.Obj()
		}
		return info.Uses[f.Sel]
	case *ast.IndexExpr: // generic instantiation lo.Map[T,U](...)
		switch g := ast.Unparen(f.X).(type) {
		case *ast.Ident:
			return info.Uses[g]
		case *ast.SelectorExpr:
			return info.Uses[g.Sel]
		}
	case *ast.IndexListExpr:
		switch g := ast.Unparen(f.X).(type) {
		case *ast.Ident:
			return info.Uses[g]
		case *ast.SelectorExpr:
			return info.Uses[g.Sel]
		}
	}
	return nil
}

// isCallTo reports whether call resolves to pkgPath.name (function) or to a method named
// name whose receiver's named type is pkgPath.recv when recv != "".
func isCallTo(info *types.Info, call *ast.CallExpr, pkgPath, recv, name string) bool {
	obj := calleeOf(info, call)
	fn, ok := obj.(*types.Func)
	if !ok || fn.Name() != name {
		return false
	}
	if fn.Pkg() == nil || fn.Pkg().Path() != pkgPath {
		return false
	}
	sig := fn.Type().(*types.Signature)
	if recv == "" {
		return sig.Recv() == nil
	}
	if sig.Recv() == nil {
		return false
	}
	t := sig.Recv().Type()
	if p, ok := t.(*types.Pointer); ok {
		t = p.Elem()
	}
	if n, ok := t.(*types.Named); ok {
		return n.Obj().Name() == recv
	}
	return false
}

func funcFullName(obj types.Object) string {
	fn, ok := obj.(*types.Func)
	if !ok {
		return ""
	}
	return fn.FullName()
}

// ---- misc ----

func sortedKeys[V any](m map[string]V) []string {
	ks := make([]string, 0, len(m))
	for k := range m {
		ks = append(ks, k)
	}
	sort.Strings(ks)
	return ks
}

func exprStr(fset *token.FileSet, e ast.Expr) string {
	return types.ExprString(e)
}

func relPkg(p *packages.Package) string {
	return strings.TrimPrefix(strings.TrimPrefix(p.PkgPath, modPath), "/")
}

func hexb(b int64) string { return fmt.Sprintf("%02X", b&0xff) }

// enclosingFunc returns the FuncDecl of file f containing pos.
func enclosingFunc(f *ast.File, pos token.Pos) *ast.FuncDecl {
	for _, d := range f.Decls {
		if fd, ok := d.(*ast.FuncDecl); ok && fd.Pos() <= pos && pos <= fd.End() {
			return fd
		}
	}
	return nil
}

func fdName(fd *ast.FuncDecl) string {
	if fd.Recv != nil && len(fd.Recv.List) == 1 {
		t := fd.Recv.List[0].Type
		star := ""
		if s, ok := t.(*ast.StarExpr); ok {
			t = s.X
			star = "*"
		}
		if id, ok := t.(*ast.Ident); ok {
			return "(" + star + id.Name + ")." + fd.Name.Name
		}
	}
	return fd.Name.Name
}

// astInspectKV calls cb with the source text of the value of every `key: value` element of a
// composite literal inside fd.
func astInspectKV(fd *ast.FuncDecl, key string, cb func(val string)) {
	if fd == nil || fd.Body == nil {
		return
	}
	ast.Inspect(fd.Body, func(n ast.Node) bool {
		if kv, ok := n.(*ast.KeyValueExpr); ok {
			if id, ok := kv.Key.(*ast.Ident); ok && id.Name == key {
				cb(types.ExprString(kv.Value))
			}
		}
		return true
	})
}

func posOf(c *Ctx, n ast.Node) string {
	if n == nil {
		return ""
	}
	switch x := n.(type) {
	case *ast.FuncDecl:
		if x == nil {
			return ""
		}
	}
	return c.L.Pos(n.Pos())
}

func constantToInt64(v constant.Value) (int64, bool) {
	v = constant.ToInt(v)
	if v.Kind() != constant.Int {
		return 0, false
	}
	return constant.Int64Val(v)
}

type packagesPackage = packages.Package

func isBoolType(t types.Type) bool {
	if t == nil {
		return false
	}
	b, ok := t.Underlying().(*types.Basic)
	return ok && b.Info()&types.IsBoolean != 0
}
