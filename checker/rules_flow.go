package main

// Value-flow and phase rules: E10/F3 (C11), F6/P5 (C16), E5 + mode defaults (C17),
// emission loop (C14), F5 (C15).

import (
	"fmt"
	"go/ast"
	"go/token"
	"go/types"
	"strings"

	"golang.org/x/tools/go/ssa"
)

// typeSwitchClause returns the body of `case *ast.<typeName>:` in the type switch of fd.
func typeSwitchClause(info *types.Info, fd *ast.FuncDecl, typeName string) *ast.CaseClause {
	var out *ast.CaseClause
	ast.Inspect(fd.Body, func(n ast.Node) bool {
		ts, ok := n.(*ast.TypeSwitchStmt)
		if !ok {
			return true
		}
		for _, st := range ts.Body.List {
			cc := st.(*ast.CaseClause)
			for _, e := range cc.List {
				t := info.TypeOf(e)
				if t == nil {
					continue
				}
				if p, ok := t.(*types.Pointer); ok {
					if nn, ok := p.Elem().(*types.Named); ok && nn.Obj().Name() == typeName && out == nil {
						out = cc
					}
				}
			}
		}
		return true
	})
	return out
}

// ---------------------------------------------------------------------------------------
// E10 / F3: EQU transparency
// ---------------------------------------------------------------------------------------

func ruleE10(c *Ctx) {
	c.doc("E10", "an EQU definition evaluates its body, stores it under the identifier's own text and emits nothing; identifiers are resolved through the macro table only in the immediate-expression evaluator, which re-evaluates the stored expression (chains)")
	fd, p := c.L.FuncDecl("internal/pass1", "TraverseAST")
	if fd == nil {
		c.anchorMissing("E10", "internal/pass1.TraverseAST")
		return
	}
	info := p.TypesInfo
	cc := typeSwitchClause(info, fd, "DeclareStmt")
	if cc == nil {
		c.anchorMissing("E10", "TraverseAST: case *ast.DeclareStmt")
		return
	}
	// (a) nothing emitted, location counter untouched
	emits, locw := 0, 0
	var define *ast.CallExpr
	for _, st := range cc.Body {
		ast.Inspect(st, func(n ast.Node) bool {
			switch x := n.(type) {
			case *ast.CallExpr:
				if fn, ok := calleeOf(info, x).(*types.Func); ok {
					switch fn.Name() {
					case "Emit", "EmitAll", "emitCommand":
						emits++
					case "DefineMacro":
						define = x
					}
					if fn.Pkg() != nil && strings.HasSuffix(fn.Pkg().Path(), "internal/pass1") && strings.HasPrefix(fn.Name(), "process") {
						emits++
					}
				}
			case *ast.AssignStmt:
				for _, l := range x.Lhs {
					if sel, ok := l.(*ast.SelectorExpr); ok && sel.Sel.Name == "LOC" {
						locw++
					}
				}
			case *ast.IncDecStmt:
				if sel, ok := x.X.(*ast.SelectorExpr); ok && sel.Sel.Name == "LOC" {
					locw++
				}
			}
			return true
		})
	}
	c.check(emits == 0, "E10", "TraverseAST[DeclareStmt]|emits nothing", c.L.Pos(cc.Pos()), fmt.Sprintf("an EQU definition must not emit code (%d emitting calls in the clause)", emits))
	c.check(locw == 0, "E10", "TraverseAST[DeclareStmt]|location counter untouched", c.L.Pos(cc.Pos()), "an EQU definition must not advance the location counter")
	// (b) DefineMacro(n.Id.Value, <evaluated body>)
	if define == nil || len(define.Args) != 2 {
		c.fail("E10", "TraverseAST[DeclareStmt]|DefineMacro", c.L.Pos(cc.Pos()), "the EQU clause does not call DefineMacro(name, value)")
	} else {
		nameOK := types.ExprString(define.Args[0]) == "n.Id.Value"
		c.check(nameOK, "E10", "TraverseAST[DeclareStmt]|name", c.L.Pos(define.Pos()), "the macro is stored under the identifier's own text (n.Id.Value), found "+types.ExprString(define.Args[0]))
		// value derives from TraverseAST(n.Value, env)
		derives := false
		if id, ok := define.Args[1].(*ast.Ident); ok {
			derives = derivesFromCallAST(info, cc.Body, info.Uses[id], "TraverseAST", "n.Value", 3)
		}
		c.check(derives, "E10", "TraverseAST[DeclareStmt]|stores evaluated body", c.L.Pos(define.Pos()), "the stored value must be the *evaluated* body (result of TraverseAST(n.Value)); storing the raw tree would re-bind `$` and break precedence at use sites")
	}
	// (b2) on SSA: the stored value is the TraverseAST result itself on every path (no re-wrapping)
	if tf := c.L.SSAFunc("internal/pass1", "TraverseAST"); tf != nil {
		found := false
		callsIn(tf, func(ci ssa.CallInstruction) {
			if !strings.HasSuffix(calleeName(ci.Common()), ".DefineMacro") && !(ci.Common().IsInvoke() && ci.Common().Method.Name() == "DefineMacro") {
				return
			}
			found = true
			args := ci.Common().Args
			v := args[len(args)-1]
			c.check(fromTraverse(v, tf), "E10", "TraverseAST[DeclareStmt]|stored value is the evaluation result itself", c.L.Pos(instrPos(ci)),
				"the value handed to DefineMacro is not (on every path) the result of TraverseAST(n.Value): the definition is re-wrapped or narrowed, so a name and its inlined body can differ")
		})
		if !found {
			c.anchorMissing("E10", "TraverseAST: DefineMacro call (SSA)")
		}
	}
	// (c) DefineMacro / LookupMacro use the exact key
	for _, m := range []string{"(*Pass1).DefineMacro", "(*Pass1).LookupMacro"} {
		mfd, mp := c.L.FuncDecl("internal/pass1", m)
		if mfd == nil {
			c.anchorMissing("E10", "internal/pass1."+m)
			continue
		}
		ok := false
		ast.Inspect(mfd.Body, func(n ast.Node) bool {
			if ie, isIE := n.(*ast.IndexExpr); isIE {
				if sel, isSel := ie.X.(*ast.SelectorExpr); isSel && sel.Sel.Name == "MacroMap" {
					if id, isID := ie.Index.(*ast.Ident); isID {
						if _, isParam := paramIndexOf(mp.TypesInfo, mfd, id); isParam {
							ok = true
						}
					}
				}
			}
			return true
		})
		c.check(ok, "E10", m+"|exact key", c.L.Pos(mfd.Pos()), "MacroMap must be indexed with the name parameter itself")
	}
	// (d) LookupMacro callers
	n := 0
	for _, f := range c.L.RepoFuncs() {
		callsIn(f, func(ci ssa.CallInstruction) {
			cc := ci.Common()
			isLookup := (cc.IsInvoke() && cc.Method.Name() == "LookupMacro") || strings.HasSuffix(calleeName(cc), ".LookupMacro")
			if !isLookup {
				return
			}
			n++
			// an Env wrapper whose own LookupMacro forwards its name parameter unchanged is an
			// implementation of the lookup, not a second user of it
			if f.Name() == "LookupMacro" && len(cc.Args) >= 1 {
				if prm, isP := cc.Args[len(cc.Args)-1].(*ssa.Parameter); isP && prm.Parent() == f {
					c.ok("E10", "LookupMacro forwarder|"+shortName(f), c.L.Pos(instrPos(ci)), "forwards its own name parameter")
					return
				}
			}
			top := shortName(outermost(f))
			c.check(top == "(*internal/ast.ImmExp).Eval", "E10", "LookupMacro caller|"+top, c.L.Pos(instrPos(ci)), "macro lookup belongs to the immediate-expression evaluator only; another caller would substitute names in a different way")
		})
	}
	c.check(n >= 1, "E10", "LookupMacro|called", "", "no call of LookupMacro found")
	// (e) use site: result of lookup is re-evaluated and returned
	if efd, ep := c.L.FuncDecl("internal/ast", "(*ImmExp).Eval"); efd == nil {
		c.anchorMissing("E10", "internal/ast.(*ImmExp).Eval")
	} else {
		einfo := ep.TypesInfo
		var lookupVar types.Object
		var keyExpr ast.Expr
		ast.Inspect(efd.Body, func(n ast.Node) bool {
			as, ok := n.(*ast.AssignStmt)
			if !ok || len(as.Rhs) != 1 {
				return true
			}
			call, ok := as.Rhs[0].(*ast.CallExpr)
			if !ok {
				return true
			}
			if sel, ok := call.Fun.(*ast.SelectorExpr); ok && sel.Sel.Name == "LookupMacro" && len(as.Lhs) == 2 {
				if id, ok := as.Lhs[0].(*ast.Ident); ok {
					lookupVar = einfo.Defs[id]
				}
				keyExpr = call.Args[0]
			}
			return true
		})
		reeval := false
		ast.Inspect(efd.Body, func(n ast.Node) bool {
			call, ok := n.(*ast.CallExpr)
			if !ok {
				return true
			}
			if sel, ok := call.Fun.(*ast.SelectorExpr); ok && sel.Sel.Name == "Eval" {
				if id, ok := sel.X.(*ast.Ident); ok && einfo.Uses[id] == lookupVar && lookupVar != nil {
					reeval = true
				}
			}
			return true
		})
		c.check(reeval, "E10", "(*ImmExp).Eval|re-evaluates the definition", c.L.Pos(efd.Pos()), "the looked-up expression must be evaluated again at the use site (chained EQUs, `$`)")
		keyOK := false
		if id, ok := keyExpr.(*ast.Ident); ok {
			// identValue := f.Value
			ast.Inspect(efd.Body, func(n ast.Node) bool {
				if as, ok := n.(*ast.AssignStmt); ok && len(as.Lhs) == 1 && len(as.Rhs) == 1 {
					if l, ok := as.Lhs[0].(*ast.Ident); ok && einfo.Defs[l] == einfo.Uses[id] {
						if sel, ok := as.Rhs[0].(*ast.SelectorExpr); ok && sel.Sel.Name == "Value" {
							keyOK = true
						}
					}
				}
				return true
			})
		}
		c.check(keyOK, "E10", "(*ImmExp).Eval|lookup key", c.L.Pos(efd.Pos()), "the lookup key must be the identifier's own text")
	}
	c.floor("E10", 9)
}

// derivesFromCallAST: within stmts, does obj get its value (through at most depth
// assignments / type assertions) from a call fnName(argText, …)?
func derivesFromCallAST(info *types.Info, stmts []ast.Stmt, obj types.Object, fnName, argText string, depth int) bool {
	if obj == nil || depth == 0 {
		return false
	}
	found := false
	for _, st := range stmts {
		ast.Inspect(st, func(n ast.Node) bool {
			as, ok := n.(*ast.AssignStmt)
			if !ok || len(as.Rhs) != 1 {
				return true
			}
			hit := false
			for _, l := range as.Lhs {
				if id, ok := l.(*ast.Ident); ok && (info.Defs[id] == obj || info.Uses[id] == obj) {
					hit = true
				}
			}
			if !hit {
				return true
			}
			rhs := ast.Unparen(as.Rhs[0])
			if ta, ok := rhs.(*ast.TypeAssertExpr); ok {
				rhs = ast.Unparen(ta.X)
			}
			switch r := rhs.(type) {
			case *ast.CallExpr:
				if fn, ok := calleeOf(info, r).(*types.Func); ok && fn.Name() == fnName && len(r.Args) > 0 && (argText == "" || types.ExprString(r.Args[0]) == argText) {
					found = true
				}
			case *ast.Ident:
				if derivesFromCallAST(info, stmts, info.Uses[r], fnName, argText, depth-1) {
					found = true
				}
			}
			return true
		})
	}
	return found
}

func ruleF3(c *Ctx) {
	c.doc("F3", "instruction handlers receive only operands that went through evaluation (EQU substitution, constant folding): every element of the slice passed to the handler is a result of TraverseAST(operand)")
	f := c.L.SSAFunc("internal/pass1", "TraverseAST")
	if f == nil {
		c.anchorMissing("F3", "internal/pass1.TraverseAST")
		return
	}
	n := 0
	isHandlerCall := func(cc *ssa.CallCommon) bool {
		if cc.IsInvoke() || cc.StaticCallee() != nil {
			return false
		}
		// dynamic call of a handler value: func(*Pass1, []ast.Exp)
		sig, ok := cc.Value.Type().Underlying().(*types.Signature)
		return ok && sig.Params().Len() == 2 && namedTypeIs(sig.Params().At(0).Type(), "internal/pass1", "Pass1")
	}
	// a dispatcher looks the handler up and calls it with its own operand parameter, unchanged
	dispatcherParam := func(g *ssa.Function) int {
		idx := -1
		if g == nil || g.Pkg != f.Pkg || g == f {
			return -1
		}
		bad := false
		callsIn(g, func(ci ssa.CallInstruction) {
			if !isHandlerCall(ci.Common()) {
				return
			}
			p, ok := ci.Common().Args[1].(*ssa.Parameter)
			if !ok {
				bad = true
				return
			}
			for i, gp := range g.Params {
				if gp == p {
					if idx >= 0 && idx != i {
						bad = true
					}
					idx = i
				}
			}
		})
		if bad {
			return -1
		}
		return idx
	}
	var visit func(ci ssa.CallInstruction)
	visit = func(ci ssa.CallInstruction) {
		cc := ci.Common()
		var arg ssa.Value
		if isHandlerCall(cc) {
			arg = cc.Args[1]
		} else if i := dispatcherParam(cc.StaticCallee()); i >= 0 && i < len(cc.Args) {
			arg = cc.Args[i]
		} else {
			return
		}
		n++
		key := fmt.Sprintf("TraverseAST|handler call#%d operands", n)
		// the slice built by a helper that evaluates the operands
		if rs := helperResults(arg); len(rs) == 1 {
			arg = rs[0]
		} else if len(rs) > 1 {
			same := true
			for _, r := range rs {
				if r != rs[0] {
					same = false
				}
			}
			if same {
				arg = rs[0]
			}
		}
		switch a := arg.(type) {
		case *ssa.MakeSlice:
			// all element stores come from TraverseAST results
			okAll, stores := true, 0
			for _, b := range a.Parent().Blocks {
				for _, in := range b.Instrs {
					st, ok := in.(*ssa.Store)
					if !ok {
						continue
					}
					ia, ok := st.Addr.(*ssa.IndexAddr)
					if !ok || ia.X != a {
						continue
					}
					stores++
					if !fromTraverse(st.Val, f) {
						okAll = false
					}
				}
			}
			c.check(okAll && stores > 0, "F3", key, c.L.Pos(instrPos(ci)), "operand slice handed to the handler contains values that did not come from TraverseAST(operand)")
		case *ssa.Slice:
			// []ast.Exp{} literal (no operands)
			c.ok("F3", key, c.L.Pos(instrPos(ci)), "empty operand list")
		default:
			c.fail("F3", key, c.L.Pos(instrPos(ci)), "handler is called with something other than the freshly built slice of evaluated operands (e.g. the raw n.Operands)")
		}
	}
	for _, uf := range unitOf(f, 2) {
		if uf != f && dispatcherParam(uf) >= 0 {
			continue // the dispatcher itself: its own handler call passes its parameter on
		}
		callsIn(uf, func(ci ssa.CallInstruction) { visit(ci) })
	}
	c.check(n >= 2, "F3", "TraverseAST|handler call sites", c.L.Pos(f.Pos()), fmt.Sprintf("found %d dynamic handler calls (MnemonicStmt and OpcodeStmt expected)", n))
	c.floor("F3", 3)
}

func fromTraverse(v ssa.Value, self *ssa.Function) bool {
	for i := 0; i < 6; i++ {
		switch x := v.(type) {
		case *ssa.Extract:
			v = x.Tuple
		case *ssa.TypeAssert:
			v = x.X
		case *ssa.ChangeInterface:
			v = x.X
		case *ssa.MakeInterface:
			v = x.X
		case *ssa.Call:
			return x.Call.StaticCallee() == self
		default:
			return false
		}
	}
	return false
}

// ---------------------------------------------------------------------------------------
// F6 / P5: origin chain
// ---------------------------------------------------------------------------------------

func storesToField(f *ssa.Function, typePkg, typeName, fld string) []*ssa.Store {
	var out []*ssa.Store
	for _, b := range f.Blocks {
		for _, in := range b.Instrs {
			st, ok := in.(*ssa.Store)
			if !ok {
				continue
			}
			fa, ok := st.Addr.(*ssa.FieldAddr)
			if ok && fieldName(fa) == fld && namedTypeIs(fa.X.Type(), typePkg, typeName) {
				out = append(out, st)
			}
		}
	}
	return out
}

func dependsOnFieldLoad(v ssa.Value, fld string) bool {
	seen := map[ssa.Value]bool{}
	var walk func(ssa.Value) bool
	walk = func(x ssa.Value) bool {
		if seen[x] {
			return false
		}
		seen[x] = true
		if isFieldLoad(x, fld) {
			return true
		}
		if in, ok := x.(ssa.Instruction); ok {
			if call, isCall := x.(*ssa.Call); isCall {
				if _, isBuiltin := call.Call.Value.(*ssa.Builtin); !isBuiltin {
					return false
				}
			}
			for _, op := range in.Operands(nil) {
				if op != nil && *op != nil && walk(*op) {
					return true
				}
			}
		}
		return false
	}
	return walk(v)
}

func ruleF6(c *Ctx) {
	c.doc("F6", "the origin set by ORG reaches the location counter and the emitters unchanged: ORG assigns (not accumulates) both counters from its operand, pass 2 hands Pass1.DollarPosition over, and every emitter that needs the current address computes DollarPosition + bytes emitted so far")
	// (a) ORG handler
	org := c.L.SSAFunc("internal/pass1", "processORG")
	if org == nil {
		c.anchorMissing("F6", "internal/pass1.processORG")
	} else {
		for _, fld := range []string{"LOC", "DollarPosition"} {
			sts := storesToField(org, "internal/pass1", "Pass1", fld)
			if len(sts) == 0 {
				c.fail("F6", "processORG|sets "+fld, c.L.Pos(org.Pos()), "ORG does not set "+fld)
				continue
			}
			for _, st := range sts {
				acc := dependsOnFieldLoad(st.Val, fld)
				c.check(!acc, "F6", "processORG|"+fld+" assigned from operand", c.L.Pos(instrPos(st)), fmt.Sprintf("ORG must set %s to its operand; the stored value depends on the previous %s (a second ORG, or re-assembly, adds origins up)", fld, fld))
			}
		}
		// no Emit in ORG
		em := 0
		callsIn(org, func(ci ssa.CallInstruction) {
			if ci.Common().IsInvoke() && ci.Common().Method.Name() == "Emit" {
				em++
			}
		})
		c.check(em == 0, "F6", "processORG|emits nothing", c.L.Pos(org.Pos()), "ORG emits no code")
	}
	// (b) Exec: Pass2.DollarPos initialised from pass1.DollarPosition; Pass1 starts at LOC 0 / origin 0
	if fd, p := c.L.FuncDecl("internal/frontend", "Exec"); fd == nil {
		c.anchorMissing("F6", "internal/frontend.Exec")
	} else {
		info := p.TypesInfo
		for _, l := range structLits(info, fd.Body, "Pass2") {
			e := field(l, "DollarPos")
			ok := e != nil && strings.HasSuffix(types.ExprString(e), ".DollarPosition")
			c.check(ok, "F6", "Exec|Pass2.DollarPos", c.L.Pos(l.Pos()), "pass 2 must receive the origin recorded by pass 1 (pass1.DollarPosition)")
			e2 := field(l, "SymTable")
			c.check(e2 != nil && strings.HasSuffix(types.ExprString(e2), ".SymTable"), "F6", "Exec|Pass2.SymTable", c.L.Pos(l.Pos()), "pass 2 must receive pass 1's symbol table")
		}
		for _, l := range structLits(info, fd.Body, "Pass1") {
			if e := field(l, "LOC"); e != nil {
				v, ok := constInt(info, e)
				c.check(ok && v == 0, "F6", "Exec|initial LOC", c.L.Pos(l.Pos()), "without ORG the location counter starts at 0")
			}
			if e := field(l, "DollarPosition"); e != nil {
				v, ok := constInt(info, e)
				c.check(ok && v == 0, "F6", "Exec|initial origin", c.L.Pos(l.Pos()), "without ORG the origin is 0")
			} else {
				c.ok("F6", "Exec|initial origin", c.L.Pos(l.Pos()), "DollarPosition omitted: zero")
			}
		}
	}
	// (c) client setters store their parameter
	for _, s := range []struct{ m, fld string }{{"SetDollarPosition", "DollarPosition"}, {"SetSymbolTable", "SymTable"}} {
		f := c.L.SSAFunc("internal/ocode_client", "(*ocodeClient)."+s.m)
		if f == nil {
			c.anchorMissing("F6", "ocode_client.(*ocodeClient)."+s.m)
			continue
		}
		sts := storesToField(f, "internal/codegen", "CodeGenContext", s.fld)
		ok := len(sts) == 1
		if ok {
			v := sts[0].Val
			if cv, isCv := v.(*ssa.Convert); isCv {
				v = cv.X
			}
			_, isParam := v.(*ssa.Parameter)
			ok = isParam
		}
		c.check(ok, "F6", s.m+"|stores its argument", c.L.Pos(f.Pos()), s.m+" must store exactly its argument into ctx."+s.fld)
	}
	// (d) emitters: current address = DollarPosition + MachineCodeLen
	n := 0
	for _, f := range c.L.RepoFuncs() {
		if pkgRel(f) != "internal/codegen" || c.isGeneratedFn(f) {
			continue
		}
		usesLen := false
		var firstUse ssa.Instruction
		for _, b := range f.Blocks {
			for _, in := range b.Instrs {
				if fl, ok := in.(*ssa.Field); ok {
					if st, ok := fl.X.Type().Underlying().(*types.Struct); ok && st.Field(fl.Field).Name() == "MachineCodeLen" {
						usesLen = true
						if firstUse == nil {
							firstUse = in
						}
					}
				}
				if fa, ok := in.(*ssa.FieldAddr); ok && fieldName(fa) == "MachineCodeLen" {
					// reads only (stores happen in processOcode's literal)
					isStoreOnly := true
					if fa.Referrers() != nil {
						for _, r := range *fa.Referrers() {
							if _, ok := r.(*ssa.Store); !ok {
								isStoreOnly = false
							}
						}
					}
					if !isStoreOnly {
						usesLen = true
						if firstUse == nil {
							firstUse = in
						}
					}
				}
			}
		}
		if !usesLen {
			continue
		}
		n++
		// some ADD combines (a conversion of) the DollarPosition load with the length
		okAdd := false
		for _, b := range f.Blocks {
			for _, in := range b.Instrs {
				bo, ok := in.(*ssa.BinOp)
				if !ok || bo.Op != token.ADD {
					continue
				}
				if (dependsOnFieldLoad(bo.X, "DollarPosition") && dependsOnMachineCodeLen(bo.Y)) || (dependsOnFieldLoad(bo.Y, "DollarPosition") && dependsOnMachineCodeLen(bo.X)) {
					okAdd = true
				}
			}
		}
		c.check(okAdd, "F6", shortName(f)+"|current address includes origin", c.L.Pos(instrPos(firstUse)), "an emitter that uses the number of bytes emitted so far as an address must add the origin (ctx.DollarPosition); without it the result changes with ORG")
	}
	c.check(n >= 3, "F6", "emitters using the running length", "", fmt.Sprintf("found %d emitters reading MachineCodeLen (jump, call, alignment expected)", n))
	c.floor("F6", 12)
}

func dependsOnMachineCodeLen(v ssa.Value) bool {
	seen := map[ssa.Value]bool{}
	var walk func(ssa.Value) bool
	walk = func(x ssa.Value) bool {
		if seen[x] {
			return false
		}
		seen[x] = true
		if fl, ok := x.(*ssa.Field); ok {
			if st, ok := fl.X.Type().Underlying().(*types.Struct); ok && st.Field(fl.Field).Name() == "MachineCodeLen" {
				return true
			}
		}
		if isFieldLoad(x, "MachineCodeLen") {
			return true
		}
		if in, ok := x.(ssa.Instruction); ok {
			if _, isCall := x.(*ssa.Call); isCall {
				return false
			}
			for _, op := range in.Operands(nil) {
				if op != nil && *op != nil && walk(*op) {
					return true
				}
			}
		}
		return false
	}
	return walk(v)
}

func ruleP5(c *Ctx) {
	c.doc("P5", "pass 2 installs the origin and the symbol table in the code generator on every path before it runs it")
	f := c.L.SSAFunc("internal/pass2", "(*Pass2).Eval")
	if f == nil {
		c.anchorMissing("P5", "internal/pass2.(*Pass2).Eval")
		return
	}
	var exec ssa.CallInstruction
	setters := map[string]ssa.CallInstruction{}
	callsIn(f, func(ci ssa.CallInstruction) {
		cc := ci.Common()
		if !cc.IsInvoke() {
			return
		}
		switch cc.Method.Name() {
		case "Exec":
			exec = ci
		case "SetDollarPosition", "SetSymbolTable":
			setters[cc.Method.Name()] = ci
		}
	})
	if exec == nil {
		c.anchorMissing("P5", "Pass2.Eval: Client.Exec()")
		return
	}
	for _, s := range []struct{ m, fld string }{{"SetDollarPosition", "DollarPos"}, {"SetSymbolTable", "SymTable"}} {
		ci := setters[s.m]
		if ci == nil {
			c.fail("P5", "Pass2.Eval|"+s.m, c.L.Pos(f.Pos()), s.m+" is never called: the emitters would run with origin 0 / an empty symbol table")
			continue
		}
		dom := ci.Block().Dominates(exec.Block())
		c.check(dom, "P5", "Pass2.Eval|"+s.m+" before Exec", c.L.Pos(instrPos(ci)), s.m+" must be called on every path before Client.Exec()")
		c.check(isFieldLoad(ci.Common().Args[0], s.fld), "P5", "Pass2.Eval|"+s.m+" argument", c.L.Pos(instrPos(ci)), s.m+" must receive p."+s.fld)
	}
	c.floor("P5", 4)
}

// ---------------------------------------------------------------------------------------
// E5: emission-time context vs. traversal-time writers; mode defaults
// ---------------------------------------------------------------------------------------

func ruleE5(c *Ctx) {
	c.doc("E5", "a scalar field of the code-generation context that the per-ocode emitters read is not written by code reachable from the statement traversal (all statements are traversed before the first is emitted, so the last writer would win for every statement); emitters do not write the context")
	proc := c.L.SSAFunc("internal/codegen", "processOcode")
	trav := c.L.SSAFunc("internal/pass1", "TraverseAST")
	if proc == nil || trav == nil {
		c.anchorMissing("E5", "codegen.processOcode / pass1.TraverseAST")
		return
	}
	g := c.L.CallGraph(true)
	emitters := Reachable(g, proc)
	traversal := Reachable(g, trav)
	// fields read by emitters
	reads := map[string]ssa.Instruction{}
	for f := range emitters {
		if !inRepo(f) {
			continue
		}
		for _, b := range f.Blocks {
			for _, in := range b.Instrs {
				fa, ok := in.(*ssa.FieldAddr)
				if !ok || !namedTypeIs(fa.X.Type(), "internal/codegen", "CodeGenContext") {
					continue
				}
				isRead := false
				if fa.Referrers() != nil {
					for _, r := range *fa.Referrers() {
						if u, ok := r.(*ssa.UnOp); ok && u.Op == token.MUL {
							isRead = true
						}
						if st, ok := r.(*ssa.Store); ok && st.Addr == fa {
							c.fail("E5", shortName(f)+"|writes ctx."+fieldName(fa), c.L.Pos(instrPos(st)), "a per-ocode emitter writes the shared context: later statements would see the change")
						}
					}
				}
				if isRead {
					if _, ok := reads[fieldName(fa)]; !ok {
						reads[fieldName(fa)] = in
					}
				}
			}
		}
	}
	ctxT := c.L.Pkg("internal/codegen").Types.Scope().Lookup("CodeGenContext")
	if ctxT == nil {
		c.anchorMissing("E5", "codegen.CodeGenContext")
		return
	}
	st := ctxT.Type().Underlying().(*types.Struct)
	for i := 0; i < st.NumFields(); i++ {
		fld := st.Field(i)
		if _, ok := reads[fld.Name()]; !ok {
			continue
		}
		scalar := false
		switch fld.Type().Underlying().(type) {
		case *types.Basic:
			scalar = true
		}
		// writers
		var bad []string
		var badPos ssa.Instruction
		for _, f := range c.L.RepoFuncs() {
			for _, s := range storesToField(f, "internal/codegen", "CodeGenContext", fld.Name()) {
				if isFreshAlloc(s.Addr.(*ssa.FieldAddr).X) {
					continue
				}
				if _, ok := traversal[f]; ok && scalar {
					bad = append(bad, shortName(f))
					badPos = s
				}
			}
		}
		key := "ctx." + fld.Name() + "|read at emission, written during traversal"
		if len(bad) > 0 {
			c.fail("E5", key, c.L.Pos(instrPos(badPos)), fmt.Sprintf("ctx.%s is read by the emitters but written by %v, reachable from TraverseAST (%s): every statement is emitted with the value the last directive left", fld.Name(), bad, pathTo(traversal, badPos.Parent())))
		} else {
			c.ok("E5", key, "", "no traversal-time writer")
		}
	}
	c.analysed["E5_ctx_fields_read_by_emitters"] = len(reads)
	c.floor("E5", 3)
}

func ruleModeDefaults(c *Ctx) {
	c.doc("M17", "without a BITS directive both the sizing pass and the emitters start in 16-bit mode; BITS n maps 16→16-bit and 32→32-bit only and sets the sizing mode of the following statements")
	fd, p := c.L.FuncDecl("internal/frontend", "Exec")
	if fd == nil {
		c.anchorMissing("M17", "internal/frontend.Exec")
		return
	}
	info := p.TypesInfo
	for _, tn := range []string{"CodeGenContext", "Pass1"} {
		ls := structLits(info, fd.Body, tn)
		if len(ls) == 0 {
			c.anchorMissing("M17", "Exec: "+tn+" literal")
			continue
		}
		for _, l := range ls {
			e := field(l, "BitMode")
			v, ok := int64(0), false
			if e != nil {
				v, ok = constInt(info, e)
			}
			c.check(ok && v == 16, "M17", "Exec|"+tn+".BitMode default", c.L.Pos(l.Pos()), fmt.Sprintf("default mode of %s must be the 16-bit constant; found %v", tn, types.ExprString(e)))
		}
	}
	// cpu constants and the int -> mode table
	cp := c.L.Pkg("pkg/cpu")
	if cp == nil {
		c.anchorMissing("M17", "pkg/cpu")
		return
	}
	for name, want := range map[string]int64{"MODE_16BIT": 16, "MODE_32BIT": 32} {
		k, ok := cp.Types.Scope().Lookup(name).(*types.Const)
		if !ok {
			c.anchorMissing("M17", "cpu."+name)
			continue
		}
		v, _ := constantInt(k)
		c.check(v == want, "M17", "cpu."+name, c.L.Pos(k.Pos()), fmt.Sprintf("%s = %d", name, v))
	}
	rows := 0
	for _, f := range cp.Syntax {
		ast.Inspect(f, func(n ast.Node) bool {
			cl, ok := n.(*ast.CompositeLit)
			if !ok {
				return true
			}
			m, ok := cp.TypesInfo.TypeOf(cl).Underlying().(*types.Map)
			if !ok || !namedTypeIs(m.Elem(), "pkg/cpu", "BitMode") {
				return true
			}
			for _, e := range cl.Elts {
				kv := e.(*ast.KeyValueExpr)
				k, ok1 := constInt(cp.TypesInfo, kv.Key)
				v, ok2 := constInt(cp.TypesInfo, kv.Value)
				rows++
				c.check(ok1 && ok2 && k == v && (k == 16 || k == 32), "M17", fmt.Sprintf("cpu.intToBitMode[%d]", k), c.L.Pos(kv.Pos()), fmt.Sprintf("BITS %d must select the %d-bit mode, selects %d", k, k, v))
			}
			return true
		})
	}
	c.check(rows == 2, "M17", "cpu.intToBitMode|rows", "", fmt.Sprintf("%d rows", rows))
	// BITS clause: env.BitMode = result of cpu.NewBitMode(int(value))
	tfd, tp := c.L.FuncDecl("internal/pass1", "TraverseAST")
	if tfd == nil {
		c.anchorMissing("M17", "pass1.TraverseAST")
		return
	}
	set := false
	ast.Inspect(tfd.Body, func(n ast.Node) bool {
		as, ok := n.(*ast.AssignStmt)
		if !ok || len(as.Lhs) != 1 || len(as.Rhs) != 1 {
			return true
		}
		if sel, ok := as.Lhs[0].(*ast.SelectorExpr); ok && sel.Sel.Name == "BitMode" {
			if id, ok := as.Rhs[0].(*ast.Ident); ok {
				// id defined by cpu.NewBitMode(...)
				if derivesFromCallAST(tp.TypesInfo, tfd.Body.List, tp.TypesInfo.Uses[id], "NewBitMode", "", 2) {
					set = true
				}
			}
		}
		return true
	})
	c.check(set, "M17", "TraverseAST[BITS]|sets sizing mode", c.L.Pos(tfd.Pos()), "the BITS clause must set env.BitMode from cpu.NewBitMode(value)")
	c.floor("M17", 8)
}

// ---------------------------------------------------------------------------------------
// C14: emission loop, ocode list
// ---------------------------------------------------------------------------------------

func ruleEmitLoop(c *Ctx) {
	c.doc("L14", "ocodes are only appended to the list, and the emission loop walks the list forward appending each ocode's bytes unconditionally")
	// (a) writers of ocodeClient.Ocodes
	for _, f := range c.L.RepoFuncs() {
		for _, st := range storesToField(f, "internal/ocode_client", "ocodeClient", "Ocodes") {
			key := shortName(f) + "|store Ocodes"
			switch {
			case isFreshAlloc(st.Addr.(*ssa.FieldAddr).X):
				c.ok("L14", key, c.L.Pos(instrPos(st)), "constructor")
			case strings.HasSuffix(shortName(f), ".Emit"):
				// must be append(c.Ocodes, x)
				call, ok := st.Val.(*ssa.Call)
				okApp := false
				if ok {
					if bi, ok := call.Call.Value.(*ssa.Builtin); ok && bi.Name() == "append" && isFieldLoad(call.Call.Args[0], "Ocodes") {
						okApp = true
					}
				}
				c.check(okApp, "L14", key, c.L.Pos(instrPos(st)), "Emit must append to the ocode list")
			case strings.HasSuffix(shortName(f), ".SetOcodes"):
				_, isParam := st.Val.(*ssa.Parameter)
				c.check(isParam, "L14", key, c.L.Pos(instrPos(st)), "SetOcodes stores its argument")
			default:
				c.fail("L14", key, c.L.Pos(instrPos(st)), "unexpected writer of the ocode list")
			}
		}
	}
	// (b) emission loop
	fd, p := c.L.FuncDecl("internal/codegen", "GenerateX86")
	if fd == nil {
		c.anchorMissing("L14", "codegen.GenerateX86")
		return
	}
	info := p.TypesInfo
	var loop *ast.RangeStmt
	ast.Inspect(fd.Body, func(n ast.Node) bool {
		if rs, ok := n.(*ast.RangeStmt); ok && loop == nil {
			if id, ok := rs.X.(*ast.Ident); ok {
				if _, isParam := paramIndexOf(info, fd, id); isParam {
					loop = rs
				}
			}
		}
		return true
	})
	if loop == nil {
		c.fail("L14", "GenerateX86|forward range over the ocode list", c.L.Pos(fd.Pos()), "emission must be a forward range over the ocodes parameter")
		return
	}
	c.ok("L14", "GenerateX86|forward range over the ocode list", c.L.Pos(loop.Pos()), "")
	// top-level statement of the loop body: x = append(x, code...)
	okAppend := false
	for _, st := range loop.Body.List {
		as, ok := st.(*ast.AssignStmt)
		if !ok || len(as.Rhs) != 1 {
			continue
		}
		call, ok := as.Rhs[0].(*ast.CallExpr)
		if !ok {
			continue
		}
		if id, ok := call.Fun.(*ast.Ident); ok && id.Name == "append" && call.Ellipsis.IsValid() && len(call.Args) == 2 {
			if types.ExprString(call.Args[0]) == types.ExprString(as.Lhs[0]) {
				okAppend = true
			}
		}
	}
	c.check(okAppend, "L14", "GenerateX86|unconditional append", c.L.Pos(loop.Pos()), "each ocode's bytes must be appended to the image at the top level of the loop body (not under a condition, not prepended)")
	// no continue/break in the loop
	jumps := 0
	ast.Inspect(loop.Body, func(n ast.Node) bool {
		if b, ok := n.(*ast.BranchStmt); ok && (b.Tok == token.BREAK || b.Tok == token.CONTINUE || b.Tok == token.GOTO) {
			jumps++
		}
		return true
	})
	c.check(jumps == 0, "L14", "GenerateX86|no early exit", c.L.Pos(loop.Pos()), "the emission loop must visit every ocode (no break/continue)")
	// processOcode receives the running image (for the current length)
	c.floor("L14", 6)
}

// ---------------------------------------------------------------------------------------
// F5: symbol-table keys
// ---------------------------------------------------------------------------------------

var keyTransformBad = map[string]bool{
	"strings.ToUpper": true, "strings.ToLower": true, "strings.Title": true, "strings.ToTitle": true, "strings.EqualFold": true,
	"strings.TrimLeft": true, "strings.TrimRight": true, "strings.Trim": true, "strings.TrimPrefix": true, "strings.TrimFunc": true,
	"strings.Replace": true, "strings.ReplaceAll": true, "strings.Map": true, "strings.Fields": true, "strings.Split": true, "strings.SplitN": true,
	"strings.Cut": true, "strings.CutPrefix": true, "strings.CutSuffix": true, "strings.Repeat": true,
}

func ruleF5(c *Ctx) {
	c.doc("F5", "keys used to store and look up labels / EQU names derive from the identifier text without case folding, prefix/suffix selection or truncation (allowed: trimming blanks, the definition's trailing ':' and the enclosing [ ] of LGDT)")
	n := 0
	for _, f := range c.L.RepoFuncs() {
		if c.isGeneratedFn(f) {
			continue
		}
		per := 0
		for _, b := range f.Blocks {
			for _, in := range b.Instrs {
				var m, key ssa.Value
				switch x := in.(type) {
				case *ssa.MapUpdate:
					m, key = x.Map, x.Key
				case *ssa.Lookup:
					m, key = x.X, x.Index
				default:
					continue
				}
				fld := ""
				if u, ok := m.(*ssa.UnOp); ok && u.Op == token.MUL {
					if fa, ok := u.X.(*ssa.FieldAddr); ok {
						fld = fieldName(fa)
					}
				}
				if fl, ok := m.(*ssa.Field); ok {
					if st, ok := fl.X.Type().Underlying().(*types.Struct); ok {
						fld = st.Field(fl.Field).Name()
					}
				}
				if fld != "SymTable" && fld != "MacroMap" {
					continue
				}
				n++
				per++
				bad := keyTransforms(key)
				k := fmt.Sprintf("%s|%s key#%d", shortName(f), fld, per)
				c.check(len(bad) == 0, "F5", k, c.L.Pos(instrPos(in)), fmt.Sprintf("symbol key is transformed by %v: distinct names could collide or a name could miss its own definition", bad))
			}
		}
	}
	// the template receives the whole operand and the whole table
	if f := c.L.SSAFunc("internal/pass2", "(*Pass2).Eval"); f == nil {
		c.anchorMissing("F5", "pass2.(*Pass2).Eval")
	} else {
		okParse, okExec := false, false
		// Eval together with the helpers of its package it calls (an extracted method is the same code)
		for _, g := range unitOf(f, 3) {
			callsIn(g, func(ci ssa.CallInstruction) {
				switch calleeName(ci.Common()) {
				case "(*text/template.Template).Parse":
					// argument is the operand element itself (or the helper's parameter, which the
					// caller binds to the operand element unmodified)
					a := ci.Common().Args[1]
					if len(keyTransforms(a)) == 0 && paramBoundUnmodified(f, g, a) {
						okParse = true
					}
				case "(*text/template.Template).Execute":
					a := ci.Common().Args[2]
					if mi, ok := a.(*ssa.MakeInterface); ok {
						if isFieldLoad(mi.X, "SymTable") {
							okExec = true
						}
						// the helper's parameter, bound at every call in the unit to the SymTable field
						if prm, isP := mi.X.(*ssa.Parameter); isP && g != f {
							idx, sites, all := -1, 0, true
							for i, pp := range g.Params {
								if pp == prm {
									idx = i
								}
							}
							for _, h := range unitOf(f, 3) {
								callsIn(h, func(cj ssa.CallInstruction) {
									if cj.Common().StaticCallee() == g && idx >= 0 && idx < len(cj.Common().Args) {
										sites++
										if !isFieldLoad(cj.Common().Args[idx], "SymTable") {
											all = false
										}
									}
								})
							}
							if sites > 0 && all {
								okExec = true
							}
						}
					}
				}
			})
		}
		c.check(okParse, "F5", "Pass2.Eval|template text", c.L.Pos(f.Pos()), "the placeholder text must be the operand unmodified")
		c.check(okExec, "F5", "Pass2.Eval|template data", c.L.Pos(f.Pos()), "placeholders must be resolved against the symbol table itself (exact-key lookup)")
	}
	c.analysed["F5_key_sites"] = n
	c.floor("F5", 10)
}

// keyTransforms lists the disallowed string operations in the backward slice of v
// (within one function; parameters, field loads and unknown calls are leaves).
func keyTransforms(v ssa.Value) []string {
	var bad []string
	seen := map[ssa.Value]bool{}
	var walk func(ssa.Value)
	walk = func(x ssa.Value) {
		if x == nil || seen[x] {
			return
		}
		seen[x] = true
		switch y := x.(type) {
		case *ssa.Call:
			n := calleeName(&y.Call)
			if keyTransformBad[n] {
				bad = append(bad, n)
			}
			if n == "strings.TrimSpace" || n == "strings.TrimSuffix" {
				if n == "strings.TrimSuffix" {
					if k, ok := y.Call.Args[1].(*ssa.Const); !ok || k.Value == nil || k.Value.ExactString() != "\":\"" {
						bad = append(bad, "strings.TrimSuffix(non-colon)")
					}
				}
				walk(y.Call.Args[0])
			}
			if n == "fmt.Sprintf" || strings.HasPrefix(n, "strings.") && !keyTransformBad[n] && n != "strings.TrimSpace" && n != "strings.TrimSuffix" {
				bad = append(bad, n)
			}
		case *ssa.Slice:
			// s[1:len(s)-1] (brackets) is allowed; anything else is truncation
			okBr := false
			if lo, ok := y.Low.(*ssa.Const); ok && lo.Int64() == 1 {
				if hi, ok := y.High.(*ssa.BinOp); ok && hi.Op == token.SUB {
					if k, ok := hi.Y.(*ssa.Const); ok && k.Int64() == 1 {
						okBr = true
					}
				}
			}
			if !okBr && isStringType(y.Type()) {
				bad = append(bad, "substring")
			}
			walk(y.X)
		case *ssa.BinOp:
			if y.Op == token.ADD && isStringType(y.Type()) {
				bad = append(bad, "concatenation")
			}
		case *ssa.Phi:
			for _, e := range y.Edges {
				walk(e)
			}
		case *ssa.Convert:
			walk(y.X)
		case *ssa.ChangeType:
			walk(y.X)
		case *ssa.Extract:
			walk(y.Tuple)
		}
	}
	walk(v)
	return bad
}

// unitOf: f and the functions of its own package it calls statically, to the given depth
// (extracting a helper must not change a verdict).
func unitOf(f *ssa.Function, depth int) []*ssa.Function {
	seen := map[*ssa.Function]bool{}
	var out []*ssa.Function
	var walk func(g *ssa.Function, d int)
	walk = func(g *ssa.Function, d int) {
		if g == nil || seen[g] || d < 0 || len(g.Blocks) == 0 {
			return
		}
		seen[g] = true
		out = append(out, g)
		for _, an := range g.AnonFuncs {
			walk(an, d)
		}
		callsIn(g, func(ci ssa.CallInstruction) {
			if callee := ci.Common().StaticCallee(); callee != nil && callee.Pkg != nil && f.Pkg != nil && callee.Pkg == f.Pkg {
				walk(callee, d-1)
			}
		})
	}
	walk(f, depth)
	return out
}

// paramBoundUnmodified: a is not a parameter of a helper g ≠ f, or every call of g from the
// unit of f passes, for that parameter, a value that is itself untransformed.
func paramBoundUnmodified(f, g *ssa.Function, a ssa.Value) bool {
	prm, ok := a.(*ssa.Parameter)
	if !ok || g == f {
		return true
	}
	idx := -1
	for i, pp := range g.Params {
		if pp == prm {
			idx = i
		}
	}
	if idx < 0 {
		return true
	}
	okAll := true
	for _, h := range unitOf(f, 3) {
		callsIn(h, func(ci ssa.CallInstruction) {
			if ci.Common().StaticCallee() == g && idx < len(ci.Common().Args) {
				if len(keyTransforms(ci.Common().Args[idx])) != 0 {
					okAll = false
				}
			}
		})
	}
	return okAll
}
