package main

// Fifth strengthening round (after seeded round 3). General rules first; see DESIGN §13.

import (
	"fmt"
	"go/ast"
	"go/token"
	"go/types"
	"sort"
	"strings"

	"golang.org/x/tools/go/ssa"
)

// ---------------------------------------------------------------------------------------
// R6: the evaluator's (node, reduced) protocol
// ---------------------------------------------------------------------------------------

func ruleR6(c *Ctx) {
	c.doc("R6", "an Eval method of the expression tree that reports reduced=false returns its own receiver (callers keep the original text when nothing was reduced, so a fresh node returned with false is thrown away), and a node it rebuilds is given the evaluated children, not the receiver's own unevaluated child slice")
	p := c.L.Pkg("internal/ast")
	if p == nil {
		c.anchorMissing("R6", "internal/ast")
		return
	}
	n := 0
	for _, f := range c.L.RepoFuncs() {
		if pkgRel(f) != "internal/ast" || f.Name() != "Eval" || f.Signature.Recv() == nil || len(f.Params) < 1 {
			continue
		}
		if f.Signature.Results().Len() != 2 {
			continue
		}
		recv := f.Params[0]
		per := 0
		for _, b := range f.Blocks {
			for _, in := range b.Instrs {
				switch x := in.(type) {
				case *ssa.Return:
					if len(x.Results) != 2 {
						continue
					}
					k, isK := x.Results[1].(*ssa.Const)
					if !isK || k.Value == nil || k.Value.String() != "false" {
						continue
					}
					n++
					per++
					node := x.Results[0]
					if mi, ok := node.(*ssa.MakeInterface); ok {
						node = mi.X
					}
					isRecv := node == recv
					if u, ok := node.(*ssa.UnOp); ok && u.Op == token.MUL {
						// value receiver spilled: *alloc(recv)
						if a, ok := u.X.(*ssa.Alloc); ok {
							for _, r := range *a.Referrers() {
								if st, ok := r.(*ssa.Store); ok && st.Addr == a && st.Val == recv {
									isRecv = true
								}
							}
						}
					}
					c.check(isRecv, "R6", fmt.Sprintf("%s|return …, false#%d", shortName(f), per), c.L.Pos(instrPos(in)),
						"returns "+valName(x.Results[0])+" with reduced=false: callers discard a node returned with false and keep the unreduced original")
				case *ssa.Call:
					callee := x.Call.StaticCallee()
					if callee == nil || callee.Pkg == nil || pkgRel(callee) != "internal/ast" || !strings.HasPrefix(callee.Name(), "New") {
						continue
					}
					for ai, a := range x.Call.Args {
						sl, ok := a.Type().Underlying().(*types.Slice)
						if !ok {
							continue
						}
						if bt, ok := sl.Elem().Underlying().(*types.Basic); ok && bt.Kind() == types.String {
							continue // operator strings
						}
						n++
						fromRecv := false
						if u, ok := a.(*ssa.UnOp); ok && u.Op == token.MUL {
							if fa, ok := u.X.(*ssa.FieldAddr); ok && rootOf(fa.X) == ssa.Value(recv) {
								fromRecv = true
							}
						}
						c.check(!fromRecv, "R6", fmt.Sprintf("%s|%s argument %d", shortName(f), callee.Name(), ai), c.L.Pos(instrPos(in)),
							"the rebuilt node is given the receiver's own child slice: names inside it stay unexpanded although the result is reported as reduced")
					}
				}
			}
		}
	}
	c.floor("R6", 6)
	c.analysed["R6_sites"] = n
}

// ---------------------------------------------------------------------------------------
// E6m: Must-style helpers on run-time data
// ---------------------------------------------------------------------------------------

func ruleE6m(c *Ctx) {
	c.doc("E6m", "no Must-style helper (template.Must, regexp.MustCompile, …: panic on error) is applied to a value that is not a compile-time constant in code reachable from an assembly")
	reach := c.reach()
	n := 0
	for _, f := range c.L.RepoFuncs() {
		if _, ok := reach[f]; !ok || c.isGeneratedFn(f) {
			continue
		}
		per := 0
		callsIn(f, func(ci ssa.CallInstruction) {
			callee := ci.Common().StaticCallee()
			if callee == nil || !strings.HasPrefix(callee.Name(), "Must") || callee.Pkg == nil || strings.HasPrefix(callee.Pkg.Pkg.Path(), modPath) {
				return
			}
			n++
			per++
			allConst := true
			for _, a := range ci.Common().Args {
				if _, ok := a.(*ssa.Const); !ok {
					allConst = false
				}
			}
			if isInitFunc(f) {
				allConst = true // package initialisation: fails at start-up for every input alike
			}
			c.check(allConst, "E6m", fmt.Sprintf("%s|%s#%d", shortName(f), calleeName(ci.Common()), per), c.L.Pos(instrPos(ci)),
				calleeName(ci.Common())+" panics when its argument is rejected, and the argument is computed from the input")
		})
	}
	c.ok("E6m", "Must helpers scanned", "", fmt.Sprintf("%d calls", n))
}

// ---------------------------------------------------------------------------------------
// N8: narrowing conversions in the COFF writer
// ---------------------------------------------------------------------------------------

func ruleN8(c *Ctx) {
	c.doc("N8", "in the object-file writer no size, offset or count passes through a conversion to an integer type of 16 bits or less unless it is a constant or was compared with that type's range first: a value cut to 16 bits and stored in a 32-bit field disagrees with the layout it describes")
	n := 0
	for _, f := range c.L.RepoFuncs() {
		if pkgRel(f) != "internal/filefmt" || c.isGeneratedFn(f) {
			continue
		}
		per := 0
		for _, b := range f.Blocks {
			for _, in := range b.Instrs {
				cv, ok := in.(*ssa.Convert)
				if !ok {
					continue
				}
				to, ok1 := cv.Type().Underlying().(*types.Basic)
				from, ok2 := cv.X.Type().Underlying().(*types.Basic)
				if !ok1 || !ok2 || to.Info()&types.IsInteger == 0 || from.Info()&types.IsInteger == 0 {
					continue
				}
				if intBits(to) > 16 || intBits(from) <= intBits(to) {
					continue
				}
				if _, isK := cv.X.(*ssa.Const); isK {
					continue
				}
				n++
				per++
				key := fmt.Sprintf("%s|%s(%s)#%d", shortName(f), to.Name(), from.Name(), per)
				limit := int64(1)<<uint(intBits(to)) - 1
				c.check(upperBounded(f, cv.X, limit, b), "N8", key, c.L.Pos(instrPos(in)),
					fmt.Sprintf("%s narrows a %s to %s without a range test: sizes of 2^%d and above are recorded modulo 2^%d", shortName(f), from.Name(), to.Name(), intBits(to), intBits(to)))
			}
		}
	}
	c.ok("N8", "narrowing conversions scanned", "", fmt.Sprintf("%d non-constant conversions to ≤16-bit integers in internal/filefmt", n))
}

func intBits(b *types.Basic) int {
	switch b.Kind() {
	case types.Int8, types.Uint8:
		return 8
	case types.Int16, types.Uint16:
		return 16
	case types.Int32, types.Uint32:
		return 32
	}
	return 64
}

// upperBounded: a dominating test v <= k / v < k with k within limit, or v is len() of a fixed array / masked with a constant.
func upperBounded(f *ssa.Function, v ssa.Value, limit int64, blk *ssa.BasicBlock) bool {
	// counter of a loop over a slice of static length, plus a constant
	add := int64(0)
	cv := v
	if bo, ok := v.(*ssa.BinOp); ok && bo.Op == token.ADD {
		if k, ok := bo.Y.(*ssa.Const); ok && isIntConst(k) {
			if inner, ok := bo.X.(*ssa.BinOp); ok && inner.Op == token.ADD {
				add, cv = k.Int64(), inner
			}
		}
	}
	for _, b := range f.Blocks {
		iff, ok := b.Instrs[len(b.Instrs)-1].(*ssa.If)
		if !ok {
			continue
		}
		bo, ok := iff.Cond.(*ssa.BinOp)
		if !ok || bo.Op != token.LSS || bo.X != cv {
			continue
		}
		if l, ok := lenOperand(bo.Y); ok {
			if n, ok := staticLen(l); ok && n-1+add <= limit && edgesDominate(f, []cfgEdge{{b, 0}}, blk) {
				return true
			}
		}
	}
	if bo, ok := v.(*ssa.BinOp); ok && bo.Op == token.AND {
		if k, ok := bo.Y.(*ssa.Const); ok && isIntConst(k) && k.Int64() <= limit {
			return true
		}
	}
	for _, b := range f.Blocks {
		iff, ok := b.Instrs[len(b.Instrs)-1].(*ssa.If)
		if !ok {
			continue
		}
		bo, ok := iff.Cond.(*ssa.BinOp)
		if !ok || bo.X != v {
			continue
		}
		k, ok := bo.Y.(*ssa.Const)
		if !ok || !isIntConst(k) {
			continue
		}
		edge := -1
		switch bo.Op {
		case token.GTR: // v > k → exit; false edge: v <= k
			if k.Int64() <= limit {
				edge = 1
			}
		case token.GEQ:
			if k.Int64()-1 <= limit {
				edge = 1
			}
		case token.LEQ:
			if k.Int64() <= limit {
				edge = 0
			}
		case token.LSS:
			if k.Int64()-1 <= limit {
				edge = 0
			}
		}
		if edge >= 0 && edgesDominate(f, []cfgEdge{{b, edge}}, blk) {
			return true
		}
	}
	return false
}

// ---------------------------------------------------------------------------------------
// T3k: kind-to-kind maps keep the condition
// ---------------------------------------------------------------------------------------

func ruleT3k(c *Ctx) {
	c.doc("T3k", "a table that maps one conditional-jump kind or mnemonic to another (synonym folding) maps each entry to a kind with the same condition code")
	o := loadX86(c)
	if o == nil {
		return
	}
	cond := map[string]int{}
	for name, v := range o.Jcc {
		cond[strings.ToUpper(name)] = v
	}
	n := 0
	for _, p := range c.L.Pkgs {
		if !strings.HasPrefix(p.PkgPath, modPath) || relPkg(p) == "test" {
			continue
		}
		for _, f := range p.Syntax {
			if c.L.isGeneratedFile(f) {
				continue
			}
			ast.Inspect(f, func(x ast.Node) bool {
				cl, ok := x.(*ast.CompositeLit)
				if !ok {
					return true
				}
				t := p.TypesInfo.TypeOf(cl)
				if t == nil {
					return true
				}
				if _, isMap := t.Underlying().(*types.Map); !isMap {
					return true
				}
				for _, e := range cl.Elts {
					kv, ok := e.(*ast.KeyValueExpr)
					if !ok {
						continue
					}
					k, okk := jccNameOf(p, kv.Key)
					v, okv := jccNameOf(p, kv.Value)
					if !okk || !okv {
						continue
					}
					ck, ok1 := cond[k]
					cvv, ok2 := cond[v]
					if !ok1 || !ok2 {
						continue
					}
					n++
					c.check(ck == cvv, "T3k", fmt.Sprintf("%s|%s -> %s", relPkg(p), k, v), c.L.Pos(kv.Pos()),
						fmt.Sprintf("%s (condition %X) is mapped to %s (condition %X): the branch tests a different condition", k, ck, v, cvv))
				}
				return true
			})
		}
	}
	c.ok("T3k", "kind-to-kind rows scanned", "", fmt.Sprintf("%d rows", n))
}

// jccNameOf: "JNL" from a string constant "JNL" or from an identifier/selector OpJNL.
func jccNameOf(p *packagesPackage, e ast.Expr) (string, bool) {
	if s, ok := constStr(p.TypesInfo, e); ok {
		return strings.ToUpper(s), strings.HasPrefix(strings.ToUpper(s), "J")
	}
	var id *ast.Ident
	switch x := e.(type) {
	case *ast.Ident:
		id = x
	case *ast.SelectorExpr:
		id = x.Sel
	}
	if id != nil && strings.HasPrefix(id.Name, "OpJ") {
		return strings.ToUpper(strings.TrimPrefix(id.Name, "Op")), true
	}
	return "", false
}

// ---------------------------------------------------------------------------------------
// T10k: keywords are matched case-sensitively
// ---------------------------------------------------------------------------------------

func ruleT10k(c *Ctx) {
	c.doc("T10k", "no literal of the source grammar is matched case-insensitively: identifiers are case-sensitive and the reserved-word test has no word boundary, so a case-insensitive keyword swallows every identifier that begins with its letters in any case")
	g := mainGrammar(c)
	if len(g.Errs) > 0 {
		c.anchorMissing("T10k", fmt.Sprintf("source grammar (%v)", g.Errs))
		return
	}
	n := 0
	bad := map[string]bool{}
	var walk func(r string, e *pegNode)
	walk = func(r string, e *pegNode) {
		if e == nil {
			return
		}
		if e.Kind == "lit" {
			n++
			if e.ICase {
				bad[r+`:"`+e.Val+`"i`] = true
			}
		}
		for _, k := range e.Kids {
			walk(r, k)
		}
	}
	for _, r := range g.Order {
		walk(r, g.Rules[r])
	}
	var bl []string
	for k := range bad {
		bl = append(bl, k)
	}
	sort.Strings(bl)
	for _, k := range bl {
		c.fail("T10k", "case-insensitive literal|"+k, "", "literal "+k+" ignores case")
	}
	c.check(n > 50, "T10k", "literals scanned", "", fmt.Sprintf("%d literals", n))
}

// ---------------------------------------------------------------------------------------
// M7: fixed-register forms accept a register class only where the name is re-checked
// ---------------------------------------------------------------------------------------

var fixedRegForms = map[string]bool{"al": true, "ax": true, "eax": true, "rax": true, "cl": true, "dx": true}
var regClassTypes = map[string]bool{"r8": true, "r16": true, "r32": true, "r64": true}

func ruleM7(c *Ctx) {
	c.doc("M7", "in the strict and relaxed form matchers (and the helpers they call) a form operand that names one register (al, ax, eax, cl, dx) accepts a register-class query (r8/r16/r32) only under a test that the mnemonic is IN or OUT, whose emitters check the register name again; anywhere else the name is never looked at and e.g. SHL AX,BL would be emitted as SHL AX,CL")
	n := 0
	p := c.L.Pkg("pkg/asmdb")
	if p == nil {
		c.anchorMissing("M7", "pkg/asmdb")
		return
	}
	info := p.TypesInfo
	// single := definitions of locals, package-wide (objects are unique)
	defs := map[types.Object]ast.Expr{}
	for _, file := range p.Syntax {
		ast.Inspect(file, func(x ast.Node) bool {
			if as, ok := x.(*ast.AssignStmt); ok && as.Tok == token.DEFINE && len(as.Lhs) == len(as.Rhs) {
				for i, l := range as.Lhs {
					if id, ok := l.(*ast.Ident); ok && info.Defs[id] != nil {
						defs[info.Defs[id]] = as.Rhs[i]
					}
				}
			}
			return true
		})
	}
	// ioOnly: the expression can only be true when some string equals "IN" or "OUT"
	var ioOnly func(e ast.Expr, depth int) bool
	ioOnly = func(e ast.Expr, depth int) bool {
		if depth > 6 {
			return false
		}
		switch x := ast.Unparen(e).(type) {
		case *ast.BinaryExpr:
			switch x.Op {
			case token.EQL:
				for _, side := range []ast.Expr{x.X, x.Y} {
					if s, ok := constStr(info, side); ok && (s == "IN" || s == "OUT") {
						return true
					}
				}
			case token.LOR:
				return ioOnly(x.X, depth+1) && ioOnly(x.Y, depth+1)
			case token.LAND:
				return ioOnly(x.X, depth+1) || ioOnly(x.Y, depth+1)
			}
		case *ast.Ident:
			if d, ok := defs[info.Uses[x]]; ok {
				return ioOnly(d, depth+1)
			}
		}
		return false
	}
	// guardedAt: the node at the top of the stack is evaluated only under an IN/OUT test: inside the
	// body of an if / the clause of a tagless switch with such a condition, or to the right of
	// such a conjunct in an && chain
	guardedAt := func(stack []ast.Node) bool {
		for i := len(stack) - 2; i >= 0; i-- {
			child := stack[i+1]
			switch anc := stack[i].(type) {
			case *ast.IfStmt:
				if child == ast.Node(anc.Body) && ioOnly(anc.Cond, 0) {
					return true
				}
			case *ast.CaseClause:
				inBody := false
				for _, st := range anc.Body {
					if ast.Node(st) == child {
						inBody = true
					}
				}
				if inBody && len(anc.List) > 0 {
					all := true
					for _, e := range anc.List {
						if !ioOnly(e, 0) {
							all = false
						}
					}
					// only for tagless switches (conditions); a tagged switch lists values
					if all && i >= 2 {
						if sw, ok := stack[i-2].(*ast.SwitchStmt); ok && sw.Tag == nil {
							return true
						}
					}
				}
			case *ast.BinaryExpr:
				if anc.Op == token.LAND && child == ast.Node(anc.Y) && ioOnly(anc.X, 0) {
					return true
				}
			}
		}
		return false
	}
	type unitFn struct {
		fd     *ast.FuncDecl
		helper bool
	}
	var unit []unitFn
	seenFn := map[*ast.FuncDecl]bool{}
	for _, fn := range []string{"matchOperandsStrict", "matchOperandsRelaxed"} {
		fd, _ := c.L.FuncDecl("pkg/asmdb", fn)
		if fd == nil {
			c.anchorMissing("M7", "pkg/asmdb."+fn)
			continue
		}
		if !seenFn[fd] {
			seenFn[fd] = true
			unit = append(unit, unitFn{fd, false})
		}
		// helpers of the same package the matcher calls (one level)
		ast.Inspect(fd.Body, func(x ast.Node) bool {
			if call, ok := x.(*ast.CallExpr); ok {
				if f, ok := calleeOf(info, call).(*types.Func); ok && f.Pkg() == p.Types {
					if hd := funcDeclOf(p, f); hd != nil && hd.Body != nil && hd.Recv == nil && !seenFn[hd] && !strings.HasPrefix(hd.Name.Name, "matchOperands") {
						seenFn[hd] = true
						unit = append(unit, unitFn{hd, true})
					}
				}
			}
			return true
		})
	}
	for _, u := range unit {
		fd := u.fd
		var stack []ast.Node
		ast.Inspect(fd.Body, func(x ast.Node) bool {
			if x == nil {
				stack = stack[:len(stack)-1]
				return true
			}
			stack = append(stack, x)
			// the same pairs kept as a read-only table: TABLE[formType] compared with the query type
			if ix, ok := x.(*ast.IndexExpr); ok {
				if id, ok := ix.X.(*ast.Ident); ok {
					if v, ok := info.Uses[id].(*types.Var); ok && v.Parent() == p.Types.Scope() {
						for _, kv := range readOnlyRowsOf(p, v) {
							fl, ok1 := constStr(info, kv.Key)
							ql, ok2 := constStr(info, kv.Value)
							if !ok1 || !ok2 || !fixedRegForms[fl] || !regClassTypes[ql] {
								continue
							}
							n++
							c.check(guardedAt(stack), "M7", fmt.Sprintf("%s|%s accepts %s", fd.Name.Name, fl, ql), c.L.Pos(ix.Pos()),
								fmt.Sprintf("form type %q accepts any %s register for every mnemonic (table %s): the register actually written is never compared with %s", fl, ql, id.Name, strings.ToUpper(fl)))
						}
					}
				}
				return true
			}
			be, ok := x.(*ast.BinaryExpr)
			if !ok || be.Op != token.LAND {
				return true
			}
			l, okl := ast.Unparen(be.X).(*ast.BinaryExpr)
			r, okr := ast.Unparen(be.Y).(*ast.BinaryExpr)
			if !okl || !okr || l.Op != token.EQL || r.Op != token.EQL {
				return true
			}
			var formLit, queryLit string
			for _, cmp := range []*ast.BinaryExpr{l, r} {
				for _, side := range []ast.Expr{cmp.X, cmp.Y} {
					if s, isK := constStr(info, side); isK {
						if fixedRegForms[s] {
							formLit = s
						}
						if regClassTypes[s] {
							queryLit = s
						}
					}
				}
			}
			if formLit == "" || queryLit == "" {
				return true
			}
			n++
			guarded := guardedAt(stack)
			if !guarded && u.helper {
				// a helper: every use of it is a call made under an IN/OUT test
				fnObj := info.Defs[fd.Name]
				uses, okAll := 0, true
				for _, file := range p.Syntax {
					var st2 []ast.Node
					ast.Inspect(file, func(y ast.Node) bool {
						if y == nil {
							st2 = st2[:len(st2)-1]
							return true
						}
						st2 = append(st2, y)
						id, ok := y.(*ast.Ident)
						if !ok || info.Uses[id] != fnObj {
							return true
						}
						// only the uses made by the strict / relaxed matchers are this rule's business
						// (the accumulator matcher applies the same pairs legitimately, under hasAccumulator)
						inMatcher := false
						for _, anc := range st2 {
							if afd, ok := anc.(*ast.FuncDecl); ok && (afd.Name.Name == "matchOperandsStrict" || afd.Name.Name == "matchOperandsRelaxed") {
								inMatcher = true
							}
						}
						if !inMatcher {
							return true
						}
						uses++
						// the identifier is the Fun of a call: judge the call expression
						if len(st2) >= 2 {
							if call, ok := st2[len(st2)-2].(*ast.CallExpr); ok && call.Fun == ast.Expr(id) {
								if !guardedAt(st2[:len(st2)-1]) {
									okAll = false
								}
								return true
							}
						}
						okAll = false // used as a value
						return true
					})
				}
				guarded = uses > 0 && okAll
			}
			c.check(guarded, "M7", fmt.Sprintf("%s|%s accepts %s", fd.Name.Name, formLit, queryLit), c.L.Pos(be.Pos()),
				fmt.Sprintf("form type %q accepts any %s register for every mnemonic: the register actually written is never compared with %s", formLit, queryLit, strings.ToUpper(formLit)))
			return true
		})
	}
	c.floor("M7", 4)
	c.analysed["M7_pairs"] = n
}

// ---------------------------------------------------------------------------------------
// T18acc: what counts as the accumulator
// ---------------------------------------------------------------------------------------

func ruleT18acc(c *Ctx) {
	c.doc("T18acc", "the register names hasAccumulator recognises are exactly AL, AX, EAX (and RAX): the short accumulator forms (04+, A0-A3) encode register number 0 implicitly, so any other name in the set is silently encoded as the accumulator")
	fd, p := c.L.FuncDecl("pkg/asmdb", "hasAccumulator")
	o := loadX86(c)
	if fd == nil || o == nil {
		c.anchorMissing("T18acc", "pkg/asmdb.hasAccumulator")
		return
	}
	found := map[string]bool{}
	// the body, and the initialisers of the package-level variables and constants it names
	// (a pattern compiled once outside the function is the same set)
	srcs := []ast.Node{fd.Body}
	ast.Inspect(fd.Body, func(x ast.Node) bool {
		id, ok := x.(*ast.Ident)
		if !ok {
			return true
		}
		obj := p.TypesInfo.Uses[id]
		if obj == nil || obj.Pkg() != p.Types || obj.Parent() != p.Types.Scope() {
			return true
		}
		if _, isFn := obj.(*types.Func); isFn {
			return true
		}
		for _, file := range p.Syntax {
			for _, d := range file.Decls {
				gd, ok := d.(*ast.GenDecl)
				if !ok {
					continue
				}
				for _, sp := range gd.Specs {
					vs, ok := sp.(*ast.ValueSpec)
					if !ok {
						continue
					}
					for i, nm := range vs.Names {
						if p.TypesInfo.Defs[nm] == obj && i < len(vs.Values) {
							srcs = append(srcs, vs.Values[i])
						}
					}
				}
			}
		}
		return true
	})
	for _, src := range srcs {
		ast.Inspect(src, func(x ast.Node) bool {
			bl, ok := x.(*ast.BasicLit)
			if !ok || bl.Kind != token.STRING {
				return true
			}
			s, _ := constStr(p.TypesInfo, bl)
			for _, w := range splitWords(s) {
				if _, isReg := o.Registers[strings.ToUpper(w)]; isReg {
					found[strings.ToUpper(w)] = true
				}
			}
			return true
		})
	}
	var names []string
	for k := range found {
		names = append(names, k)
	}
	sort.Strings(names)
	for _, k := range names {
		r := o.Registers[k]
		isAcc := r.Num == 0 && (r.Class == "r8" || r.Class == "r16" || r.Class == "r32" || r.Class == "r64") && k != "ES"
		c.check(isAcc, "T18acc", "hasAccumulator|"+k, c.L.Pos(fd.Pos()), k+" is not an accumulator (register number 0 of a general class): it would be encoded as one")
	}
	for _, k := range []string{"AL", "AX", "EAX"} {
		c.check(found[k], "T18acc", "hasAccumulator|recognises "+k, c.L.Pos(fd.Pos()), k+" must be recognised")
	}
}

func splitWords(s string) []string {
	return strings.FieldsFunc(s, func(r rune) bool {
		return !(r >= 'A' && r <= 'Z' || r >= 'a' && r <= 'z' || r >= '0' && r <= '9')
	})
}

// ---------------------------------------------------------------------------------------
// S66: which operand kinds carry an operand size
// ---------------------------------------------------------------------------------------

func ruleS66(c *Ctx) {
	c.doc("S66", "in Require66h only general registers, sized memory operands and control registers contribute an inherent operand size; a segment register has none (PUSH DS in 32-bit code must not get a 66h prefix), nor does a label (that immediates contribute a size here is known finding F7 and is not repeated by this rule)")
	fd, p := c.L.FuncDecl("pkg/ng_operand", "(*OperandPegImpl).Require66h")
	if fd == nil {
		c.anchorMissing("S66", "pkg/ng_operand.(*OperandPegImpl).Require66h")
		return
	}
	// the size variable, whatever it is called: the local that is assigned operand widths (8/16/32/64)
	// in the most case clauses
	widthAssigns := map[types.Object]int{}
	isWidth := func(e ast.Expr) bool {
		v, ok := constInt(p.TypesInfo, e)
		return ok && (v == 8 || v == 16 || v == 32 || v == 64)
	}
	ast.Inspect(fd.Body, func(x ast.Node) bool {
		cc, ok := x.(*ast.CaseClause)
		if !ok {
			return true
		}
		for _, st := range cc.Body {
			if as, ok := st.(*ast.AssignStmt); ok && len(as.Lhs) == 1 && len(as.Rhs) == 1 && isWidth(as.Rhs[0]) {
				if id, ok := as.Lhs[0].(*ast.Ident); ok {
					if obj := p.TypesInfo.Uses[id]; obj != nil {
						widthAssigns[obj]++
					}
				}
			}
		}
		return true
	})
	var sizeVar types.Object
	for obj, k := range widthAssigns {
		if sizeVar == nil || k > widthAssigns[sizeVar] || (k == widthAssigns[sizeVar] && obj.Pos() < sizeVar.Pos()) {
			sizeVar = obj
		}
	}
	// every assignment `size = k` sits in a clause; collect the type constants / predicates of that clause
	n := 0
	ast.Inspect(fd.Body, func(x ast.Node) bool {
		cc, ok := x.(*ast.CaseClause)
		if !ok {
			return true
		}
		assigns := false
		for _, st := range cc.Body {
			if as, ok := st.(*ast.AssignStmt); ok && len(as.Lhs) == 1 {
				if id, ok := as.Lhs[0].(*ast.Ident); ok && sizeVar != nil && p.TypesInfo.Uses[id] == sizeVar {
					assigns = true
				}
			}
		}
		if !assigns {
			return true
		}
		n++
		var bad []string
		for _, e := range cc.List {
			ast.Inspect(e, func(y ast.Node) bool {
				id, ok := y.(*ast.Ident)
				if !ok {
					return true
				}
				if k, ok := p.TypesInfo.Uses[id].(*types.Const); ok && strings.HasPrefix(k.Name(), "Code") {
					up := strings.ToUpper(k.Name())
					if strings.Contains(up, "SREG") || strings.Contains(up, "LABEL") || strings.Contains(up, "REL") {
						bad = append(bad, k.Name())
					}
				}
				if fn, ok := p.TypesInfo.Uses[id].(*types.Func); ok {
					up := strings.ToUpper(fn.Name())
					if strings.Contains(up, "SREG") {
						bad = append(bad, fn.Name())
					}
				}
				return true
			})
		}
		key := "Require66h|size clause " + types.ExprString(firstExpr(cc.List))
		c.check(len(bad) == 0, "S66", key, c.L.Pos(cc.Pos()), fmt.Sprintf("an operand kind without an operand size (%s) sets the inherent size: its instructions get a 66h prefix in the other mode", strings.Join(bad, ", ")))
		return true
	})
	c.check(n >= 3, "S66", "Require66h|size clauses found", c.L.Pos(fd.Pos()), fmt.Sprintf("%d clauses assign the inherent operand size", n))
}

func firstExpr(l []ast.Expr) ast.Expr {
	if len(l) == 0 {
		return &ast.Ident{Name: "default"}
	}
	return l[0]
}

// ---------------------------------------------------------------------------------------
// T5u: the hand-written forms are all installed
// ---------------------------------------------------------------------------------------

func ruleT5u(c *Ctx) {
	c.doc("T5u", "the hand-written fallback forms are appended to the instruction table as written: the value stored back into Forms is append(existing, literal forms…) with no filtering call in between (a filter that drops forms whose opcode the JSON table already lists removes the only forms gosk's operand classifier can match)")
	n := 0
	for _, f := range c.L.RepoFuncs() {
		if pkgRel(f) != "pkg/asmdb" || !strings.Contains(strings.ToLower(f.Name()), "fallback") {
			continue
		}
		per := 0
		for _, b := range f.Blocks {
			for _, in := range b.Instrs {
				st, ok := in.(*ssa.Store)
				if !ok {
					continue
				}
				fa, ok := st.Addr.(*ssa.FieldAddr)
				if !ok || fieldName(fa) != "Forms" {
					continue
				}
				n++
				per++
				key := fmt.Sprintf("%s|store Forms#%d", shortName(f), per)
				call, ok := st.Val.(*ssa.Call)
				isAppend := false
				if sl, isSl := st.Val.(*ssa.Slice); isSl {
					if _, isAlloc := sl.X.(*ssa.Alloc); isAlloc {
						isAppend = true // a slice literal stored as written
					}
				}
				if ok {
					if bi, ok := call.Call.Value.(*ssa.Builtin); ok && bi.Name() == "append" {
						isAppend = true
						if bad := rewrittenBy(call.Call.Args[1], map[ssa.Value]bool{}, 0); bad != "" && !strings.Contains(bad, ".Bool") && !strings.Contains(bad, "pkg/asmdb.Bool") {
							isAppend = false
						}
					}
				}
				c.check(isAppend, "T5u", key, c.L.Pos(instrPos(in)), "the forms stored back are not append(existing, the literal forms…): some hand-written forms can be left out")
			}
		}
		// also: MapUpdate of Instructions[...] = struct with Forms
	}
	c.check(n >= 1, "T5u", "fallback installers found", "", fmt.Sprintf("%d stores into Forms in fallback functions", n))
}

// ---------------------------------------------------------------------------------------
// E7d: parse errors are not dropped by emitters
// ---------------------------------------------------------------------------------------

var e7dConfirmed = map[string]string{
	"internal/codegen.handleDB|strconv.Atoi": "pass 1 emits DB arguments as decimal numerals only (rule P7) and label placeholders are replaced by decimal numerals in pass 2 (rule U7)",
	"internal/codegen.handleDW|strconv.Atoi": "as handleDB",
	"internal/codegen.handleDD|strconv.Atoi": "as handleDB",
}

// e7dOnlyConfirmedCallers: every call site of f is in a confirmed emitter (same parse
// function) and hands f one of that emitter's own parameters; "" when that is not so.
func e7dOnlyConfirmedCallers(c *Ctx, f *ssa.Function, parse string) string {
	var via []string
	sites := 0
	for _, g := range c.L.RepoFuncs() {
		if pkgRel(g) == "test" {
			continue
		}
		for _, b := range g.Blocks {
			for _, in := range b.Instrs {
				for _, op := range in.Operands(nil) {
					if *op != ssa.Value(f) {
						continue
					}
					call, isCall := in.(*ssa.Call)
					if !isCall || call.Call.StaticCallee() != f {
						return "" // address taken
					}
					sites++
					if _, ok := e7dConfirmed[shortName(g)+"|"+parse]; !ok {
						return ""
					}
					fromParam := false
					for _, a := range call.Call.Args {
						if _, isP := a.(*ssa.Parameter); isP && isStringSliceType(a.Type()) {
							fromParam = true
						}
					}
					if !fromParam {
						return ""
					}
					via = append(via, shortName(g))
				}
			}
		}
	}
	if sites == 0 {
		return ""
	}
	sort.Strings(via)
	return strings.Join(via, ", ")
}

func isStringSliceType(t types.Type) bool {
	sl, ok := t.Underlying().(*types.Slice)
	if !ok {
		return false
	}
	b, ok := sl.Elem().Underlying().(*types.Basic)
	return ok && b.Kind() == types.String
}

func ruleE7d(c *Ctx) {
	c.doc("E7d", "an emitter that converts operand text with strconv (Atoi, ParseInt, ParseUint) looks at the error: a dropped error turns an undefined name or a malformed operand into the value 0 without a diagnostic. Sites where pass 1 provably hands over decimal text are listed with that reason")
	n := 0
	for _, f := range c.L.RepoFuncs() {
		if pkgRel(f) != "internal/codegen" || c.isGeneratedFn(f) {
			continue
		}
		per := map[string]int{}
		for _, b := range f.Blocks {
			for _, in := range b.Instrs {
				call, ok := in.(*ssa.Call)
				if !ok {
					continue
				}
				name := calleeName(call.Common())
				if name != "strconv.Atoi" && name != "strconv.ParseInt" && name != "strconv.ParseUint" {
					continue
				}
				n++
				per[name]++
				used := false
				for _, r := range *call.Referrers() {
					if ex, ok := r.(*ssa.Extract); ok && ex.Index == 1 && len(*ex.Referrers()) > 0 {
						used = true
					}
				}
				key := fmt.Sprintf("%s|%s#%d", shortName(f), name, per[name])
				if !used {
					if reason, ok := e7dConfirmed[strings.SplitN(key, "#", 2)[0]]; ok {
						c.ok("E7d", key, c.L.Pos(instrPos(in)), "confirmed by reading: "+reason)
						continue
					}
					// a helper called only by confirmed emitters inherits their reason
					if via := e7dOnlyConfirmedCallers(c, f, name); via != "" {
						c.ok("E7d", key, c.L.Pos(instrPos(in)), "called only from "+via+", confirmed by reading: "+e7dConfirmed["internal/codegen.handleDB|strconv.Atoi"])
						continue
					}
				}
				c.check(used, "E7d", key, c.L.Pos(instrPos(in)), shortName(f)+" ignores the error of "+name+": text that is not a number is emitted as 0 with no diagnostic")
			}
		}
	}
	c.floor("E7d", 8)
	c.analysed["E7d_parses"] = n
}

// ---------------------------------------------------------------------------------------
// N15: the symbol table is consulted whatever the name looks like
// ---------------------------------------------------------------------------------------

func ruleN15(c *Ctx) {
	c.doc("N15", "a symbol-table lookup is not made conditional on the spelling of the name (no regexp / prefix / character-class test of the key decides whether the table is consulted): every name the grammar accepts as a label is looked up the same way")
	n := 0
	for _, f := range c.L.RepoFuncs() {
		if c.isGeneratedFn(f) || pkgRel(f) == "test" {
			continue
		}
		per := 0
		for _, b := range f.Blocks {
			for _, in := range b.Instrs {
				lk, ok := in.(*ssa.Lookup)
				if !ok {
					continue
				}
				u, ok := lk.X.(*ssa.UnOp)
				if !ok || u.Op != token.MUL {
					continue
				}
				fa, ok := u.X.(*ssa.FieldAddr)
				if !ok || fieldName(fa) != "SymTable" {
					continue
				}
				n++
				per++
				key := fmt.Sprintf("%s|SymTable lookup#%d not filtered by spelling", shortName(f), per)
				bad := ""
				for _, ob := range f.Blocks {
					iff, ok := ob.Instrs[len(ob.Instrs)-1].(*ssa.If)
					if !ok {
						continue
					}
					if !decidesReach(ob, b) {
						continue
					}
					if s := spellingTest(iff.Cond, lk.Index, map[ssa.Value]bool{}, 0); s != "" {
						bad = s
					}
				}
				c.check(bad == "", "N15", key, c.L.Pos(instrPos(in)), "the lookup is reached only when "+bad+" accepts the name: labels spelled otherwise are never found")
			}
		}
	}
	c.floor("N15", 3)
	c.analysed["N15_lookups"] = n
}

// spellingTest: the condition is computed by a regexp/strings/unicode predicate applied to key
// (or to the string key was derived from).
func spellingTest(cond, key ssa.Value, seen map[ssa.Value]bool, depth int) string {
	if cond == nil || seen[cond] || depth > 8 {
		return ""
	}
	seen[cond] = true
	if call, ok := cond.(*ssa.Call); ok {
		name := calleeName(call.Common())
		isPred := strings.HasPrefix(name, "regexp.") || strings.HasPrefix(name, "(*regexp.Regexp).") || strings.HasPrefix(name, "unicode.") ||
			name == "strings.HasPrefix" || name == "strings.HasSuffix" || name == "strings.Contains" || name == "strings.ContainsAny" || name == "strings.ContainsRune" || name == "strings.IndexByte" || name == "strings.IndexAny"
		if isPred {
			for _, a := range call.Call.Args {
				if sameString(a, key) {
					return name
				}
			}
		}
		return ""
	}
	if in, ok := cond.(ssa.Instruction); ok {
		for _, op := range in.Operands(nil) {
			if op != nil && *op != nil {
				if s := spellingTest(*op, key, seen, depth+1); s != "" {
					return s
				}
			}
		}
	}
	return ""
}

// decidesReach: the If ending block ob decides whether block b runs — b is reachable from one
// of its successors and not from another.
func decidesReach(ob, b *ssa.BasicBlock) bool {
	if len(ob.Succs) != 2 {
		return false
	}
	reach := func(from *ssa.BasicBlock) bool {
		seen := map[*ssa.BasicBlock]bool{}
		st := []*ssa.BasicBlock{from}
		for len(st) > 0 {
			x := st[len(st)-1]
			st = st[:len(st)-1]
			if seen[x] {
				continue
			}
			seen[x] = true
			if x == b {
				return true
			}
			if noReturnBlock(x) {
				continue
			}
			st = append(st, x.Succs...)
		}
		return false
	}
	r0, r1 := reach(ob.Succs[0]), reach(ob.Succs[1])
	return r0 != r1
}

func sameString(a, b ssa.Value) bool {
	strip := func(v ssa.Value) ssa.Value {
		for {
			switch x := v.(type) {
			case *ssa.Call:
				n := calleeName(x.Common())
				if (n == "strings.TrimSpace" || n == "strings.ToUpper" || n == "strings.ToLower") && len(x.Call.Args) == 1 {
					v = x.Call.Args[0]
					continue
				}
			case *ssa.Convert:
				v = x.X
				continue
			case *ssa.Lookup:
				if bt, ok := x.X.Type().Underlying().(*types.Basic); ok && bt.Info()&types.IsString != 0 {
					v = x.X // s[i]
					continue
				}
			case *ssa.Index:
				v = x.X
				continue
			case *ssa.Slice:
				if bt, ok := x.X.Type().Underlying().(*types.Basic); ok && bt.Info()&types.IsString != 0 {
					// a prefix/suffix of the key is still about the key's spelling, but the
					// bracket stripping `[ name ]` → name of LGDT is syntax, not spelling: keep
					// slices distinct
					return v
				}
			}
			return v
		}
	}
	return strip(a) == strip(b)
}

// ---------------------------------------------------------------------------------------
// C9cfg: each bracket directive writes its own setting
// ---------------------------------------------------------------------------------------

func ruleC9cfg(c *Ctx) {
	c.doc("C9cfg", "in the directive switch of TraverseAST each directive writes the one setting that belongs to it — FORMAT → OutputFormat, FILE → SourceFileName, SECTION → CurrentSection, BITS → BitMode — directly or through a helper that is given the address of that field")
	fd, p := c.L.FuncDecl("internal/pass1", "TraverseAST")
	if fd == nil {
		c.anchorMissing("C9cfg", "pass1.TraverseAST")
		return
	}
	want := map[string]string{"Format": "OutputFormat", "File": "SourceFileName", "Section": "CurrentSection", "Bits": "BitMode"}
	settings := map[string]bool{"OutputFormat": true, "SourceFileName": true, "CurrentSection": true, "BitMode": true}
	found := 0
	for _, cc := range directiveClauses(p, fd) {
		sel := cc.Sel
		field, isDirective := want[sel.Sel.Name]
		if !isDirective || len(cc.Names) != 1 {
			continue
		}
		found++
		written := map[string]bool{}
		for _, st := range cc.Body {
			ast.Inspect(st, func(y ast.Node) bool {
				switch s := y.(type) {
				case *ast.AssignStmt:
					for _, l := range s.Lhs {
						if ls, ok := l.(*ast.SelectorExpr); ok && settings[ls.Sel.Name] {
							if tn, _ := namedOf(p.TypesInfo.TypeOf(ls.X)); tn == "Pass1" {
								written[ls.Sel.Name] = true
							}
						}
					}
				case *ast.UnaryExpr:
					if s.Op == token.AND {
						if ls, ok := s.X.(*ast.SelectorExpr); ok && settings[ls.Sel.Name] {
							if tn, _ := namedOf(p.TypesInfo.TypeOf(ls.X)); tn == "Pass1" {
								written[ls.Sel.Name] = true
							}
						}
					}
				}
				return true
			})
		}
		var others []string
		for w := range written {
			if w != field {
				others = append(others, w)
			}
		}
		sort.Strings(others)
		key := "TraverseAST[" + sel.Sel.Name + "]"
		c.check(written[field], "C9cfg", key+"|writes "+field, c.L.Pos(cc.Pos()), "the "+strings.ToUpper(sel.Sel.Name)+" clause does not set "+field)
		c.check(len(others) == 0, "C9cfg", key+"|writes nothing else", c.L.Pos(cc.Pos()), "the "+strings.ToUpper(sel.Sel.Name)+" clause also writes "+strings.Join(others, ", ")+" (another directive's setting)")
	}
	c.check(found == 4, "C9cfg", "directive clauses found", c.L.Pos(fd.Pos()), fmt.Sprintf("%d of 4 (BITS, FORMAT, FILE, SECTION)", found))
}

// ---------------------------------------------------------------------------------------
// I1t: tables of value ranges
// ---------------------------------------------------------------------------------------

func ruleI1t(c *Ctx) {
	c.doc("I1t", "a table literal that gives a {min,max} pair per operand width (1, 2, 4 bytes) lists, for each width n, a minimum of −2^(8n−1) or 0 and a maximum of 2^(8n−1)−1 or 2^(8n)−1 consistently (all rows signed, all unsigned, or all signed-minimum/unsigned-maximum): one row with the other kind of bound rejects or mis-sizes exactly the values at that boundary")
	n := 0
	for _, p := range c.L.Pkgs {
		if !strings.HasPrefix(p.PkgPath, modPath) || relPkg(p) == "test" {
			continue
		}
		for _, f := range p.Syntax {
			if c.L.isGeneratedFile(f) {
				continue
			}
			ast.Inspect(f, func(x ast.Node) bool {
				cl, ok := x.(*ast.CompositeLit)
				if !ok || len(cl.Elts) < 2 {
					return true
				}
				type row struct {
					w, lo, hi int64
					pos       token.Pos
				}
				var rows []row
				for _, e := range cl.Elts {
					kv, ok := e.(*ast.KeyValueExpr)
					if !ok {
						return true
					}
					w, okw := constInt(p.TypesInfo, kv.Key)
					vl, okv := kv.Value.(*ast.CompositeLit)
					if !okw || !okv || len(vl.Elts) != 2 || (w != 1 && w != 2 && w != 4) {
						return true
					}
					lo, ok1 := constInt(p.TypesInfo, valueOf(vl.Elts[0]))
					hi, ok2 := constInt(p.TypesInfo, valueOf(vl.Elts[1]))
					if !ok1 || !ok2 {
						return true
					}
					rows = append(rows, row{w, lo, hi, kv.Pos()})
				}
				if len(rows) < 2 {
					return true
				}
				kinds := map[string]bool{}
				for _, r := range rows {
					n++
					bits := uint(8 * r.w)
					smin, smax, umax := -(int64(1) << (bits - 1)), int64(1)<<(bits-1)-1, int64(1)<<bits-1
					kind := ""
					switch {
					case r.lo == smin && r.hi == smax:
						kind = "signed"
					case r.lo == 0 && r.hi == umax:
						kind = "unsigned"
					case r.lo == smin && r.hi == umax:
						kind = "either"
					}
					where := ""
					if fd := enclosingFunc(f, cl.Pos()); fd != nil {
						where = fdName(fd)
					}
					key := fmt.Sprintf("%s.%s|range row for %d byte(s)", relPkg(p), where, r.w)
					if kind == "" {
						c.fail("I1t", key, c.L.Pos(r.pos), fmt.Sprintf("[%d, %d] is not a canonical range of a %d-byte value", r.lo, r.hi, r.w))
						continue
					}
					kinds[kind] = true
					c.ok("I1t", key, c.L.Pos(r.pos), kind)
				}
				if len(kinds) > 1 {
					var ks []string
					for k := range kinds {
						ks = append(ks, k)
					}
					sort.Strings(ks)
					c.fail("I1t", fmt.Sprintf("%s|range table mixes %s", relPkg(p), strings.Join(ks, "/")), c.L.Pos(cl.Pos()), "rows of one range table use different kinds of bounds: "+strings.Join(ks, ", "))
				}
				return true
			})
		}
	}
	c.ok("I1t", "range tables scanned", "", fmt.Sprintf("%d rows", n))
}

func valueOf(e ast.Expr) ast.Expr {
	if kv, ok := e.(*ast.KeyValueExpr); ok {
		return kv.Value
	}
	return e
}

// ---------------------------------------------------------------------------------------
// D2: moffs offsets follow the address size
// ---------------------------------------------------------------------------------------

func ruleD2(c *Ctx) {
	c.doc("D2", "DisplacementBytes (the offset that follows the A0–A3 accumulator MOV opcodes) chooses its width from the bit mode alone: moffs16/moffs32 name the data width, the offset has the address size; no test of the operand's type takes part in the choice")
	f := c.L.SSAFunc("pkg/ng_operand", "(*OperandPegImpl).DisplacementBytes")
	if f == nil {
		c.anchorMissing("D2", "pkg/ng_operand.(*OperandPegImpl).DisplacementBytes")
		return
	}
	n := 0
	for _, b := range f.Blocks {
		iff, ok := b.Instrs[len(b.Instrs)-1].(*ssa.If)
		if !ok {
			continue
		}
		n++
		src := condSource(iff.Cond, map[ssa.Value]bool{}, 0)
		ok2 := true
		for _, s := range src {
			if !(strings.HasSuffix(s, "GetBitMode") || strings.HasSuffix(s, "GetMemoryInfo") || s == "field:bitMode") {
				ok2 = false
			}
		}
		c.check(ok2, "D2", fmt.Sprintf("DisplacementBytes|branch#%d", n), c.L.Pos(instrPos(iff)), fmt.Sprintf("the width of the offset depends on %v, not only on the bit mode", src))
	}
	c.check(n >= 2, "D2", "DisplacementBytes|branches found", c.L.Pos(f.Pos()), fmt.Sprintf("%d branches", n))
}

// condSource: the calls and receiver fields a condition is computed from.
func condSource(v ssa.Value, seen map[ssa.Value]bool, depth int) []string {
	if v == nil || seen[v] || depth > 10 {
		return nil
	}
	seen[v] = true
	switch x := v.(type) {
	case *ssa.Const, *ssa.Parameter:
		return nil
	case *ssa.Call:
		return []string{calleeOrDyn(x.Common())}
	case *ssa.FieldAddr:
		return []string{"field:" + fieldName(x)}
	case ssa.Instruction:
		var out []string
		for _, op := range x.Operands(nil) {
			if op != nil && *op != nil {
				out = append(out, condSource(*op, seen, depth+1)...)
			}
		}
		return out
	}
	return nil
}

// ---------------------------------------------------------------------------------------
// F8o: the size of an encoding is the sum of its parts, each once
// ---------------------------------------------------------------------------------------

func ruleF8o(c *Ctx) {
	c.doc("F8o", "Encoding.GetOutputSize (the table part of every pass-1 size) adds the size of each component of the encoding that is present exactly once — REX, VEX, opcode bytes, ModR/M, immediate (table width, or the width pass 1 supplies), data offset, code offset — and no constant; ModR/M counts 1")
	f := c.L.SSAFunc("pkg/asmdb", "(*Encoding).GetOutputSize")
	if f == nil {
		c.anchorMissing("F8o", "pkg/asmdb.(*Encoding).GetOutputSize")
		return
	}
	terms := map[string]int{}
	var unknown []string
	for _, b := range f.Blocks {
		for _, in := range b.Instrs {
			bo, ok := in.(*ssa.BinOp)
			if !ok || bo.Op != token.ADD || !isIntType(bo.Type()) {
				continue
			}
			// accumulator + term: the accumulator is a phi / earlier sum / const 0
			t := componentOf(bo.Y, 0)
			if t == "" {
				t = componentOf(bo.X, 0)
			}
			if t == "" {
				unknown = append(unknown, valName(bo.Y))
				continue
			}
			terms[t]++
		}
	}
	// the same accumulation through a local closure `add := func(…, size int) { total += size }`:
	// every call of the closure adds its size argument
	for _, anon := range f.AnonFuncs {
		pi := -1
		for _, b := range anon.Blocks {
			for _, in := range b.Instrs {
				bo, ok := in.(*ssa.BinOp)
				if !ok || bo.Op != token.ADD || !isIntType(bo.Type()) {
					continue
				}
				for _, pair := range [][2]ssa.Value{{bo.X, bo.Y}, {bo.Y, bo.X}} {
					prm, isP := pair[0].(*ssa.Parameter)
					ld, isL := pair[1].(*ssa.UnOp)
					if !isP || !isL || ld.Op != token.MUL {
						continue
					}
					if _, isFV := ld.X.(*ssa.FreeVar); !isFV {
						continue
					}
					for i, ap := range anon.Params {
						if ap == prm {
							pi = i
						}
					}
				}
			}
		}
		if pi < 0 {
			continue
		}
		callsIn(f, func(ci ssa.CallInstruction) {
			mc, ok := ci.Common().Value.(*ssa.MakeClosure)
			if !ok || mc.Fn != ssa.Value(anon) || pi >= len(ci.Common().Args) {
				return
			}
			if t := componentOf(ci.Common().Args[pi], 0); t != "" {
				terms[t]++
			} else {
				unknown = append(unknown, valName(ci.Common().Args[pi]))
			}
		})
	}
	want := []string{"Rex", "Vex", "Opcode", "Modrm", "Immediate", "DataOffset", "CodeOffset"}
	for _, w := range want {
		c.check(terms[w] == 1, "F8o", "GetOutputSize|adds "+w+" once", c.L.Pos(f.Pos()), fmt.Sprintf("the size of the %s component is added %d time(s)", w, terms[w]))
		delete(terms, w)
	}
	var extra []string
	for k := range terms {
		extra = append(extra, k)
	}
	sort.Strings(extra)
	c.check(len(extra) == 0 && len(unknown) == 0, "F8o", "GetOutputSize|nothing else added", c.L.Pos(f.Pos()), fmt.Sprintf("other terms: %v %v", extra, unknown))
	if m := c.L.SSAFunc("pkg/asmdb", "(*Modrm).getSize"); m == nil {
		c.anchorMissing("F8o", "pkg/asmdb.(*Modrm).getSize")
	} else {
		one := true
		for _, b := range m.Blocks {
			for _, in := range b.Instrs {
				if r, ok := in.(*ssa.Return); ok {
					k, isK := r.Results[0].(*ssa.Const)
					if !isK || !isIntConst(k) || k.Int64() != 1 {
						one = false
					}
				}
			}
		}
		c.check(one, "F8o", "(*Modrm).getSize|is 1", c.L.Pos(m.Pos()), "a ModR/M byte is one byte")
	}
}

// componentOf: which component of the encoding a size term comes from ("" if none): a call of
// T.getSize, a load of T.Size, or a phi of such loads and the ImmSize option.
func componentOf(v ssa.Value, depth int) string {
	if depth > 5 {
		return ""
	}
	switch x := v.(type) {
	case *ssa.Call:
		if callee := x.Call.StaticCallee(); callee != nil && callee.Name() == "getSize" && callee.Signature.Recv() != nil {
			n, _ := namedOf(callee.Signature.Recv().Type())
			return n
		}
		// a helper that hands one of its arguments back unchanged (e.g. one that also logs it)
		if callee := x.Call.StaticCallee(); callee != nil && callee.Pkg != nil && strings.HasPrefix(callee.Pkg.Pkg.Path(), modPath) {
			if k := passThroughParam(callee); k >= 0 && k < len(x.Call.Args) {
				return componentOf(x.Call.Args[k], depth+1)
			}
		}
	case *ssa.UnOp:
		if x.Op == token.MUL {
			if fa, ok := x.X.(*ssa.FieldAddr); ok {
				if fieldName(fa) == "Size" {
					n, _ := namedOf(fa.X.Type())
					return n
				}
				if fieldName(fa) == "ImmSize" {
					return "Immediate"
				}
			}
		}
	case *ssa.Phi:
		out := ""
		for _, e := range x.Edges {
			t := componentOf(e, depth+1)
			if t == "" || (out != "" && t != out) {
				return ""
			}
			out = t
		}
		return out
	}
	return ""
}

// ---------------------------------------------------------------------------------------
// K6: expressions are written back as they were evaluated
// ---------------------------------------------------------------------------------------

func ruleK6(c *Ctx) {
	c.doc("K6", "the text pass 1 hands on for an evaluated expression is head, then for every i the i-th operator followed by the i-th tail, separated by blanks, and numbers in base 10: the operand parser and the data emitters read exactly that text, so a dropped operator, a tail paired with another operator or another base changes the value after it was computed")
	p := c.L.Pkg("internal/ast")
	if p == nil {
		c.anchorMissing("K6", "internal/ast")
		return
	}
	loops := 0
	for _, file := range p.Syntax {
		if c.L.isGeneratedFile(file) {
			continue
		}
		for _, d := range file.Decls {
			fd, ok := d.(*ast.FuncDecl)
			if !ok || fd.Body == nil {
				continue
			}
			serialiser := fd.Name.Name == "TokenLiteral" || fd.Name.Name == "ExpToString"
			ord := 0
			ast.Inspect(fd.Body, func(x ast.Node) bool {
				rs, ok := x.(*ast.RangeStmt)
				if !ok {
					return true
				}
				// the loop runs over X.Operators in a serialiser, or over a parameter that every
				// call site binds to Y.Operators (with another parameter bound to Y.TailExps)
				weight, opsText, tailsText := 0, "", ""
				if sel, ok := rs.X.(*ast.SelectorExpr); ok && sel.Sel.Name == "Operators" && serialiser {
					weight, opsText, tailsText = 1, types.ExprString(sel.X)+".Operators", types.ExprString(sel.X)+".TailExps"
				} else if io := paramIndex(p, fd, rs.X); io >= 0 {
					sites, tailIdx, okAll := 0, -1, true
					forCallsOf(p, fd, func(call *ast.CallExpr) {
						if io >= len(call.Args) {
							okAll = false
							return
						}
						osel, ok := call.Args[io].(*ast.SelectorExpr)
						if !ok || osel.Sel.Name != "Operators" {
							okAll = false
							return
						}
						sites++
						found := -1
						for j, a := range call.Args {
							if tsel, ok := a.(*ast.SelectorExpr); ok && tsel.Sel.Name == "TailExps" && types.ExprString(tsel.X) == types.ExprString(osel.X) {
								found = j
							}
						}
						if found < 0 || (tailIdx >= 0 && tailIdx != found) {
							okAll = false
						}
						tailIdx = found
					})
					if sites > 0 && okAll && tailIdx >= 0 {
						i := 0
						for _, fld := range fd.Type.Params.List {
							for _, nm := range fld.Names {
								if i == tailIdx && paramIndex(p, fd, nm) == tailIdx {
									tailsText = nm.Name
								}
								i++
							}
						}
						if tailsText != "" {
							weight, opsText = sites, types.ExprString(rs.X)
						}
					}
				}
				if weight == 0 {
					return true
				}
				ki, ok1 := rs.Key.(*ast.Ident)
				vi, ok2 := rs.Value.(*ast.Ident)
				if !ok1 || !ok2 {
					c.fail("K6", fmt.Sprintf("%s|operator loop#%d", fdName(fd), ord+1), c.L.Pos(rs.Pos()), "undecided: the loop over the operators does not bind index and operator")
					return true
				}
				loops += weight
				ord++
				key := fmt.Sprintf("%s|operator loop#%d over %s", fdName(fd), ord, opsText)
				// sequence of writes in the body
				var seq []string
				tailVar := map[string]string{}
				for _, st := range rs.Body.List {
					switch s := st.(type) {
					case *ast.AssignStmt:
						if s.Tok == token.ADD_ASSIGN && len(s.Lhs) == 1 && len(s.Rhs) == 1 {
							// str += " " + op + " " + tail: the parts of the concatenation in order
							var parts []ast.Expr
							var flat func(e ast.Expr)
							flat = func(e ast.Expr) {
								if be, ok := ast.Unparen(e).(*ast.BinaryExpr); ok && be.Op == token.ADD {
									flat(be.X)
									flat(be.Y)
									return
								}
								parts = append(parts, ast.Unparen(e))
							}
							flat(s.Rhs[0])
							for _, pe := range parts {
								arg := types.ExprString(pe)
								if v, ok := tailVar[arg]; ok {
									arg = v
								}
								if bl, ok := pe.(*ast.BasicLit); ok && bl.Kind == token.STRING && bl.Value == `" "` {
									seq = append(seq, "sep:' '")
								} else {
									seq = append(seq, "str:"+arg)
								}
							}
							continue
						}
						if len(s.Lhs) == 1 && len(s.Rhs) == 1 {
							if id, ok := s.Lhs[0].(*ast.Ident); ok {
								tailVar[id.Name] = types.ExprString(s.Rhs[0])
							}
						}
					case *ast.ExprStmt:
						call, ok := s.X.(*ast.CallExpr)
						if !ok || len(call.Args) != 1 {
							seq = append(seq, "?")
							continue
						}
						fsel, ok := call.Fun.(*ast.SelectorExpr)
						if !ok {
							seq = append(seq, "?")
							continue
						}
						arg := types.ExprString(call.Args[0])
						if v, ok := tailVar[arg]; ok {
							arg = v
						}
						switch fsel.Sel.Name {
						case "WriteByte", "WriteRune":
							seq = append(seq, "sep:"+arg)
						case "WriteString":
							seq = append(seq, "str:"+arg)
						default:
							seq = append(seq, "?")
						}
					default:
						seq = append(seq, "?")
					}
				}
				tailA := fmt.Sprintf("ExpToString(%s[%s])", tailsText, ki.Name)
				tailB := fmt.Sprintf("%s[%s].TokenLiteral()", tailsText, ki.Name)
				good := len(seq) == 4 && seq[0] == "sep:' '" && seq[1] == "str:"+vi.Name && seq[2] == "sep:' '" && (seq[3] == "str:"+tailA || seq[3] == "str:"+tailB)
				c.check(good, "K6", key, c.L.Pos(rs.Pos()), fmt.Sprintf("each round must write ' ', the operator, ' ', the tail of the same index; writes: %v", seq))
				return true
			})
		}
	}
	c.check(loops >= 2, "K6", "serialiser loops found", "", fmt.Sprintf("%d", loops))
	// numbers in base 10
	if fd, fp := c.L.FuncDecl("internal/ast", "ExpToString"); fd != nil {
		n := 0
		ast.Inspect(fd.Body, func(x ast.Node) bool {
			call, ok := x.(*ast.CallExpr)
			if !ok {
				return true
			}
			if fn, ok := calleeOf(fp.TypesInfo, call).(*types.Func); ok && fn.Pkg() != nil && fn.Pkg().Path() == "strconv" && strings.HasPrefix(fn.Name(), "Format") && len(call.Args) == 2 {
				n++
				b, isK := constInt(fp.TypesInfo, call.Args[1])
				c.check(isK && b == 10, "K6", fmt.Sprintf("ExpToString|number base#%d", n), c.L.Pos(call.Pos()), "numbers must be written in base 10 (the emitters parse them with Atoi)")
			}
			return true
		})
		c.check(n >= 1, "K6", "ExpToString|number formatting found", c.L.Pos(fd.Pos()), fmt.Sprintf("%d", n))
	}
}

// passThroughParam: the index of the parameter that every return of f hands back as its single
// result, or −1.
func passThroughParam(f *ssa.Function) int {
	idx := -1
	for _, b := range f.Blocks {
		for _, in := range b.Instrs {
			r, ok := in.(*ssa.Return)
			if !ok {
				continue
			}
			if len(r.Results) != 1 {
				return -1
			}
			prm, ok := r.Results[0].(*ssa.Parameter)
			if !ok {
				return -1
			}
			k := -1
			for i, pp := range f.Params {
				if pp == prm {
					k = i
				}
			}
			if k < 0 || (idx >= 0 && idx != k) {
				return -1
			}
			idx = k
		}
	}
	return idx
}

// forCallsOf visits every call of the package-level function fd inside its own package.
func forCallsOf(p *packagesPackage, fd *ast.FuncDecl, visit func(*ast.CallExpr)) {
	fn := p.TypesInfo.Defs[fd.Name]
	for _, file := range p.Syntax {
		ast.Inspect(file, func(n ast.Node) bool {
			call, ok := n.(*ast.CallExpr)
			if !ok {
				return true
			}
			fun := ast.Unparen(call.Fun)
			if ix, ok := fun.(*ast.IndexExpr); ok {
				fun = ix.X
			}
			if id, ok := fun.(*ast.Ident); ok && p.TypesInfo.Uses[id] == fn && fn != nil {
				visit(call)
			}
			return true
		})
	}
}

// directiveClause: the statements executed for one (or several) of the internal/ast configuration
// constants — a `case ast.K:` clause or the body of `if x == ast.K { … }` (an else-if chain).
type directiveClause struct {
	Sel   *ast.SelectorExpr // the first constant named
	Names []string
	Body  []ast.Stmt
	pos   token.Pos
	end   token.Pos
}

func (d directiveClause) Pos() token.Pos { return d.pos }
func (d directiveClause) End() token.Pos { return d.end }

func directiveClauses(p *packagesPackage, fd *ast.FuncDecl) []directiveClause {
	isDirConst := func(e ast.Expr) *ast.SelectorExpr {
		sel, ok := ast.Unparen(e).(*ast.SelectorExpr)
		if !ok {
			return nil
		}
		k, ok := p.TypesInfo.Uses[sel.Sel].(*types.Const)
		if !ok || k.Pkg() == nil || !strings.HasSuffix(k.Pkg().Path(), "internal/ast") {
			return nil
		}
		return sel
	}
	var out []directiveClause
	ast.Inspect(fd.Body, func(x ast.Node) bool {
		switch n := x.(type) {
		case *ast.CaseClause:
			var d directiveClause
			for _, e := range n.List {
				if sel := isDirConst(e); sel != nil {
					if d.Sel == nil {
						d.Sel = sel
					}
					d.Names = append(d.Names, sel.Sel.Name)
				}
			}
			if d.Sel != nil {
				d.Body, d.pos, d.end = n.Body, n.Pos(), n.End()
				out = append(out, d)
			}
		case *ast.IfStmt:
			if be, ok := ast.Unparen(n.Cond).(*ast.BinaryExpr); ok && be.Op == token.EQL {
				for _, side := range []ast.Expr{be.X, be.Y} {
					if sel := isDirConst(side); sel != nil {
						out = append(out, directiveClause{Sel: sel, Names: []string{sel.Sel.Name}, Body: n.Body.List, pos: n.Body.Pos(), end: n.Body.End()})
					}
				}
			}
		}
		return true
	})
	return out
}
