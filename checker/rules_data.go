package main

// C05 / C03: data directives. P7 (size advanced = bytes the emitter appends), S1d (lane
// order of DB/DW/DD), F2 (RESB value flow), N5 (non-emitting statements), B5 (number base
// of the text hand-off).

import (
	"fmt"
	"go/ast"
	"go/token"
	"go/types"
	"strings"

	"golang.org/x/tools/go/ssa"
)

// perArgShape returns the shape of what a data emitter appends for one argument: the
// variadic part of the append inside its loop over args. An emitter that only forwards to a
// same-package helper with constant extra arguments (`return emit(args, 2)`) is followed
// into the helper with those parameters bound.
func perArgShape(f *ssa.Function) (shape, ssa.Value, bool) {
	bind := map[*ssa.Parameter]*ssa.Const{}
	for hop := 0; hop < 2; hop++ {
		g, b, ok := forwardsTo(f)
		if !ok {
			break
		}
		// constants reach through a second hop only when passed on unchanged
		for p, k := range b {
			bind[p] = k
		}
		f = g
	}
	for _, b := range f.Blocks {
		for _, in := range b.Instrs {
			call, ok := in.(*ssa.Call)
			if !ok {
				continue
			}
			// acc = binary.LittleEndian.AppendUintN(acc, v)
			if base, fields, ok := appendUint(&call.Call); ok {
				if _, isPhi := base.(*ssa.Phi); isPhi {
					var src ssa.Value
					for _, e := range fields {
						src = e.V
					}
					return fields, src, true
				}
				continue
			}
			bi, ok := call.Call.Value.(*ssa.Builtin)
			if !ok || bi.Name() != "append" || len(call.Call.Args) != 2 {
				continue
			}
			// the base must be loop-carried (phi) — i.e. an accumulating append
			if _, isPhi := call.Call.Args[0].(*ssa.Phi); !isPhi {
				continue
			}
			sh := (&shaper{}).slice(call.Call.Args[1])
			if lanes, ok := countedLanes(call, sh, bind); ok {
				sh = lanes
			}
			var src ssa.Value
			for _, e := range sh {
				if e.Kind == bField {
					src = e.V
				}
			}
			return sh, src, true
		}
	}
	return nil, nil, false
}

// forwardsTo: f is `return g(p…, K…)` — one block, one static call to a function of the
// same package whose arguments are f's own parameters or constants, result returned as is.
func forwardsTo(f *ssa.Function) (*ssa.Function, map[*ssa.Parameter]*ssa.Const, bool) {
	if len(f.Blocks) != 1 {
		return nil, nil, false
	}
	var call *ssa.Call
	for _, in := range f.Blocks[0].Instrs {
		switch x := in.(type) {
		case *ssa.Call:
			if call != nil {
				return nil, nil, false
			}
			call = x
		case *ssa.Return:
			if call == nil || len(x.Results) != 1 || x.Results[0] != ssa.Value(call) {
				return nil, nil, false
			}
		case *ssa.DebugRef:
		default:
			return nil, nil, false
		}
	}
	if call == nil {
		return nil, nil, false
	}
	g := call.Call.StaticCallee()
	if g == nil || g.Pkg != f.Pkg || len(g.Blocks) == 0 || len(g.Params) != len(call.Call.Args) {
		return nil, nil, false
	}
	bind := map[*ssa.Parameter]*ssa.Const{}
	for i, a := range call.Call.Args {
		switch x := a.(type) {
		case *ssa.Parameter:
		case *ssa.Const:
			bind[g.Params[i]] = x
		default:
			return nil, nil, false
		}
	}
	return g, bind, true
}

// countedLanes recognises `for i := 0; i < W; i++ { acc = append(acc, byte(V >> (8*i))) }`
// with W a constant (or a parameter bound to one): W lanes of V, low byte first.
func countedLanes(app *ssa.Call, sh shape, bind map[*ssa.Parameter]*ssa.Const) (shape, bool) {
	if len(sh) != 1 || sh[0].Kind != bField || sh[0].Shift != 0 {
		return nil, false
	}
	shr, ok := sh[0].V.(*ssa.BinOp)
	if !ok || shr.Op != token.SHR {
		return nil, false
	}
	strip := func(v ssa.Value) ssa.Value {
		for {
			cv, ok := v.(*ssa.Convert)
			if !ok {
				return v
			}
			v = cv.X
		}
	}
	var counter ssa.Value
	switch m := strip(shr.Y).(type) {
	case *ssa.BinOp:
		kx, xIsK := m.X.(*ssa.Const)
		ky, yIsK := m.Y.(*ssa.Const)
		switch {
		case m.Op == token.MUL && xIsK && kx.Int64() == 8:
			counter = strip(m.Y)
		case m.Op == token.MUL && yIsK && ky.Int64() == 8:
			counter = strip(m.X)
		case m.Op == token.SHL && yIsK && ky.Int64() == 3:
			counter = strip(m.X)
		}
	}
	phi, ok := counter.(*ssa.Phi)
	if !ok || len(phi.Edges) != 2 {
		return nil, false
	}
	zero, step := false, false
	for _, e := range phi.Edges {
		if k, ok := e.(*ssa.Const); ok && k.Int64() == 0 {
			zero = true
		}
		if bo, ok := e.(*ssa.BinOp); ok && bo.Op == token.ADD && bo.X == ssa.Value(phi) {
			if k, ok := bo.Y.(*ssa.Const); ok && k.Int64() == 1 {
				step = true
			}
		}
	}
	if !zero || !step {
		return nil, false
	}
	hb := phi.Block()
	iff, ok := hb.Instrs[len(hb.Instrs)-1].(*ssa.If)
	if !ok {
		return nil, false
	}
	cmp, ok := iff.Cond.(*ssa.BinOp)
	if !ok || cmp.Op != token.LSS || cmp.X != ssa.Value(phi) || !hb.Succs[0].Dominates(app.Block()) {
		return nil, false
	}
	var w int64
	switch b := strip(cmp.Y).(type) {
	case *ssa.Const:
		w = b.Int64()
	case *ssa.Parameter:
		k, ok := bind[b]
		if !ok {
			return nil, false
		}
		w = k.Int64()
	default:
		return nil, false
	}
	if w < 1 || w > 8 {
		return nil, false
	}
	// the shifted value itself must not vary with the counter
	out := shape{}
	for k := 0; k < int(w); k++ {
		out = append(out, bElem{Kind: bField, V: shr.X, Shift: 8 * k})
	}
	return out, true
}

func ruleP7(c *Ctx) {
	c.doc("P7", "for DB/DW/DD every operand clause advances the size by exactly (elements appended) x (bytes the matching emitter writes per element); strings advance by their length and append one element per byte")
	c.doc("S1d", "DB/DW/DD emitters write the low 1/2/4 bytes of each argument, low byte first, from the decimal text pass 1 produced")
	width := map[string]int{}
	for _, d := range []struct {
		name string
		w    int
	}{{"DB", 1}, {"DW", 2}, {"DD", 4}} {
		f := c.L.SSAFunc("internal/codegen", "handle"+d.name)
		if f == nil {
			c.anchorMissing("S1d", "codegen.handle"+d.name)
			continue
		}
		sh, src, ok := perArgShape(f)
		if !ok {
			c.fail("S1d", "handle"+d.name+"|per-argument append", c.L.Pos(f.Pos()), "undecided: no accumulating append in a loop over the arguments")
			continue
		}
		runs := fieldRuns(sh)
		good := len(runs) == 1 && runs[0].Width == len(sh) && runs[0].LE && len(sh) == d.w
		c.check(good, "S1d", "handle"+d.name+"|lanes", c.L.Pos(f.Pos()), fmt.Sprintf("%s must append exactly the low %d byte(s) of each argument, low byte first; appends: %s", d.name, d.w, sh.String()))
		width[d.name] = len(sh)
		// the value is the decimal parse of the argument text
		okSrc := false
		if ex, isEx := src.(*ssa.Extract); isEx {
			if call, isCall := ex.Tuple.(*ssa.Call); isCall {
				n := calleeName(&call.Call)
				if n == "strconv.Atoi" {
					okSrc = true
				}
				// pass 1 hands over int32 values, negative ones included: an unsigned parse or one
				// narrower than 32 bits fails (and yields 0 or a saturated value) for part of them
				if n == "strconv.ParseInt" {
					k, isK := call.Call.Args[1].(*ssa.Const)
					w, isW := call.Call.Args[2].(*ssa.Const)
					if isK && k.Int64() == 10 && isW && (w.Int64() == 0 || w.Int64() >= 32) {
						okSrc = true
					}
				}
			}
		}
		c.check(okSrc, "S1d", "handle"+d.name+"|decimal parse", c.L.Pos(f.Pos()), "the emitted value must be the base-10 signed parse (Atoi, or ParseInt of at least 32 bits) of the argument: pass 1 hands int32 values over in decimal, and an unsigned or narrower parse fails on part of them")
	}
	// pass-1 side: emitCommand writes base-10 text joined by commas
	if fd, p := c.L.FuncDecl("internal/pass1", "emitCommand"); fd == nil {
		c.anchorMissing("P7", "pass1.emitCommand")
	} else {
		base10, comma := false, false
		ast.Inspect(fd.Body, func(n ast.Node) bool {
			call, ok := n.(*ast.CallExpr)
			if !ok {
				return true
			}
			if isCallTo(p.TypesInfo, call, "strconv", "", "FormatInt") && len(call.Args) == 2 {
				if b, ok := constInt(p.TypesInfo, call.Args[1]); ok && b == 10 {
					base10 = true
				}
			}
			if isCallTo(p.TypesInfo, call, "strconv", "", "Itoa") {
				base10 = true
			}
			if isCallTo(p.TypesInfo, call, "strings", "", "Join") && len(call.Args) == 2 {
				if s, ok := constStr(p.TypesInfo, call.Args[1]); ok && s == "," {
					comma = true
				}
			}
			// the same separator written between elements by hand: b.WriteByte(','), b.WriteString(",")
			if sel, ok := call.Fun.(*ast.SelectorExpr); ok && len(call.Args) == 1 && strings.HasPrefix(sel.Sel.Name, "Write") {
				if s, ok := constStr(p.TypesInfo, call.Args[0]); ok && s == "," {
					comma = true
				}
				if v, ok := constInt(p.TypesInfo, call.Args[0]); ok && v == ',' {
					comma = true
				}
			}
			return true
		})
		c.check(base10, "P7", "emitCommand|decimal", c.L.Pos(fd.Pos()), "values must be handed to the code generator in base 10 (its parser is base 10)")
		c.check(comma, "P7", "emitCommand|comma separated", c.L.Pos(fd.Pos()), "values are separated by ',' (the ocode line is split on commas)")
	}
	// the ocode line splitter: Fields then Split(",")
	if fd, p := c.L.FuncDecl("internal/ocode_client", "parseLineToOcode"); fd == nil {
		c.anchorMissing("P7", "ocode_client.parseLineToOcode")
	} else {
		split := false
		ast.Inspect(fd.Body, func(n ast.Node) bool {
			if call, ok := n.(*ast.CallExpr); ok && isCallTo(p.TypesInfo, call, "strings", "", "Split") && len(call.Args) == 2 {
				if s, ok := constStr(p.TypesInfo, call.Args[1]); ok && s == "," {
					split = true
				}
			}
			return true
		})
		c.check(split, "P7", "parseLineToOcode|split on comma", c.L.Pos(fd.Pos()), "operands of an ocode line are separated on ','")
	}
	// per clause lockstep
	for _, name := range []string{"DB", "DW", "DD"} {
		fd, p := c.L.FuncDecl("internal/pass1", "process"+name)
		if fd == nil {
			c.anchorMissing("P7", "pass1.process"+name)
			continue
		}
		w := width[name]
		if w == 0 {
			continue
		}
		info := p.TypesInfo
		var checkBlock func(stmts []ast.Stmt, path string)
		locName := "loc"
		checkBlock = func(stmts []ast.Stmt, path string) {
			// direct statements of this block only
			var add ast.Expr
			appends, loopAppends := 0, 0
			loopByIndex := false
			var loopOver ast.Expr
			for _, st := range stmts {
				switch s := st.(type) {
				case *ast.AssignStmt:
					// loc, ocodes = helper(loc, ocodes, …): the helper's body is the clause
					if accumulatorHelperCall(s) {
						call := s.Rhs[0].(*ast.CallExpr)
						if fn, ok := calleeOf(info, call).(*types.Func); ok {
							if hd, _ := c.L.FuncDecl("internal/pass1", fn.Name()); hd != nil && hd.Body != nil && hd.Type.Params != nil && len(hd.Type.Params.List) >= 1 && len(hd.Type.Params.List[0].Names) >= 1 {
								saved := locName
								locName = hd.Type.Params.List[0].Names[0].Name
								checkBlock(hd.Body.List, path+"→"+fn.Name())
								locName = saved
								continue
							}
						}
					}
					if s.Tok == token.ADD_ASSIGN {
						if id, ok := s.Lhs[0].(*ast.Ident); ok && id.Name == locName {
							add = s.Rhs[0]
						}
					}
					if isAppendStmt(s) {
						appends++
					}
					// ocodes = helper(ocodes, S) where the helper appends one element per byte of S
					if over := byteAppendHelperCall(c, info, s); over != nil {
						loopAppends++
						loopOver = over
					}
				case *ast.RangeStmt:
					ast.Inspect(s.Body, func(n ast.Node) bool {
						if as, ok := n.(*ast.AssignStmt); ok && isAppendStmt(as) {
							loopAppends++
							loopOver = s.X
						}
						return true
					})
				case *ast.ForStmt:
					// for i := 0; i < len(S); i++ { append(…, S[i]) }: one element per byte of S
					if _, ok := forwardIndexLoopOver(s, ""); ok {
						if cond, ok := s.Cond.(*ast.BinaryExpr); ok {
							if call, ok := cond.Y.(*ast.CallExpr); ok && len(call.Args) == 1 {
								ast.Inspect(s.Body, func(n ast.Node) bool {
									if as, ok := n.(*ast.AssignStmt); ok && isAppendStmt(as) {
										loopAppends++
										loopOver = call.Args[0]
										loopByIndex = true
									}
									return true
								})
							}
						}
					}
				}
			}
			if add == nil && appends == 0 && loopAppends == 0 {
				return
			}
			key := fmt.Sprintf("process%s|%s", name, path)
			pos := c.L.Pos(stmts[0].Pos())
			if v, ok := constInt(info, add); ok {
				c.check(loopAppends == 0 && int(v) == w*appends, "P7", key, pos, fmt.Sprintf("clause advances the size by %d and appends %d element(s); handle%s writes %d byte(s) per element", v, appends, name, w))
				return
			}
			// loc += int32(len(s)) with one element per byte of s
			if add != nil && loopAppends == 1 && appends == 0 {
				lenOf := ""
				ast.Inspect(add, func(n ast.Node) bool {
					if call, ok := n.(*ast.CallExpr); ok {
						if id, ok := call.Fun.(*ast.Ident); ok && id.Name == "len" {
							lenOf = types.ExprString(call.Args[0])
						}
					}
					return true
				})
				over := types.ExprString(loopOver)
				good := lenOf != "" && (over == "[]byte("+lenOf+")" || over == lenOf) && w == 1
				// ranging over the string itself would iterate runes, not bytes
				if over == lenOf && !loopByIndex {
					if isStringType(info.TypeOf(loopOver)) {
						good = false
					}
				}
				c.check(good, "P7", key, pos, fmt.Sprintf("string clause advances by len(%s) and appends one element per iteration over %s; bytes/element of the emitter: %d", lenOf, over, w))
				return
			}
			c.fail("P7", key, pos, "undecided: clause advances the size and appends elements in a shape the rule does not model")
		}
		var walk func(stmts []ast.Stmt, path string)
		walk = func(stmts []ast.Stmt, path string) {
			if path != "" {
				checkBlock(stmts, path)
			}
			for _, st := range stmts {
				switch s := st.(type) {
				case *ast.TypeSwitchStmt:
					for _, cl := range s.Body.List {
						cc := cl.(*ast.CaseClause)
						walk(cc.Body, path+"/"+clauseName(info, cc))
					}
				case *ast.SwitchStmt:
					for _, cl := range s.Body.List {
						cc := cl.(*ast.CaseClause)
						walk(cc.Body, path+"/"+clauseName(info, cc))
					}
				case *ast.IfStmt:
					walk(s.Body.List, path+"/if("+shortCond(s.Cond)+")")
					if e, ok := s.Else.(*ast.BlockStmt); ok {
						walk(e.List, path+"/else")
					}
				case *ast.RangeStmt:
					if path == "" {
						walk(s.Body.List, "operand")
					}
				}
			}
		}
		walk(fd.Body.List, "")
		// finally: env.LOC += loc and one emitCommand(env, name, ocodes)
		fin, emit := false, false
		for _, st := range fd.Body.List {
			if as, ok := st.(*ast.AssignStmt); ok && as.Tok == token.ADD_ASSIGN {
				if sel, ok := as.Lhs[0].(*ast.SelectorExpr); ok && sel.Sel.Name == "LOC" {
					if id, ok := as.Rhs[0].(*ast.Ident); ok && id.Name == "loc" {
						fin = true
					}
				}
			}
			if es, ok := st.(*ast.ExprStmt); ok {
				if call, ok := es.X.(*ast.CallExpr); ok {
					if fn, ok := calleeOf(info, call).(*types.Func); ok && fn.Name() == "emitCommand" {
						// emitCommand(env, "DB", ocodes) or env.emitCommand("DB", ocodes)
						for _, a := range call.Args {
							if s, ok := constStr(info, a); ok && s == name {
								emit = true
							}
						}
					}
				}
			}
		}
		c.check(fin, "P7", "process"+name+"|LOC += loc", c.L.Pos(fd.Pos()), "the accumulated size must be added to the location counter once, unconditionally")
		c.check(emit, "P7", "process"+name+"|emits "+name, c.L.Pos(fd.Pos()), "the collected elements must be emitted as one "+name+" ocode, unconditionally")
	}
	c.floor("P7", 12)
	c.floor("S1d", 6)
}

func isAppendStmt(as *ast.AssignStmt) bool {
	if len(as.Rhs) != 1 {
		return false
	}
	call, ok := as.Rhs[0].(*ast.CallExpr)
	if !ok {
		return false
	}
	id, ok := call.Fun.(*ast.Ident)
	return ok && id.Name == "append" && len(call.Args) == 2 && !call.Ellipsis.IsValid()
}

// ---------------------------------------------------------------------------------------
// F2: RESB
// ---------------------------------------------------------------------------------------

func ruleF2(c *Ctx) {
	c.doc("F2", "RESB: the value added to the location counter and the value written into the ocode line are the same value; the emitter allocates exactly that many zero bytes")
	f := c.L.SSAFunc("internal/pass1", "processRESB")
	if f == nil {
		c.anchorMissing("F2", "pass1.processRESB")
	} else {
		var added, emitted ssa.Value
		for _, st := range storesToField(f, "internal/pass1", "Pass1", "LOC") {
			if bo, ok := st.Val.(*ssa.BinOp); ok && bo.Op == token.ADD {
				v := bo.Y
				if cv, ok := v.(*ssa.Convert); ok {
					v = cv.X
				}
				added = v
			}
		}
		callsIn(f, func(ci ssa.CallInstruction) {
			if calleeName(ci.Common()) == "fmt.Sprintf" {
				if k, ok := ci.Common().Args[0].(*ssa.Const); ok && strings.HasPrefix(k.Value.ExactString(), "\"RESB %d") {
					// variadic slice: find the MakeInterface stored into it
					if sl, ok := ci.Common().Args[1].(*ssa.Slice); ok {
						if al, ok := sl.X.(*ssa.Alloc); ok && al.Referrers() != nil {
							for _, r := range *al.Referrers() {
								if ia, ok := r.(*ssa.IndexAddr); ok && ia.Referrers() != nil {
									for _, r2 := range *ia.Referrers() {
										if st, ok := r2.(*ssa.Store); ok {
											if mi, ok := st.Val.(*ssa.MakeInterface); ok {
												emitted = mi.X
											}
										}
									}
								}
							}
						}
					}
				}
			}
		})
		// "RESB " + strconv.FormatInt(v, 10) / strconv.Itoa(int(v))
		for _, b := range f.Blocks {
			for _, in := range b.Instrs {
				bo, ok := in.(*ssa.BinOp)
				if !ok || bo.Op != token.ADD {
					continue
				}
				k, ok := bo.X.(*ssa.Const)
				if !ok || constantStringVal(k) != "RESB " {
					continue
				}
				call, ok := bo.Y.(*ssa.Call)
				if !ok {
					continue
				}
				switch calleeName(call.Common()) {
				case "strconv.FormatInt":
					if base, ok := call.Call.Args[1].(*ssa.Const); !ok || base.Int64() != 10 {
						continue
					}
				case "strconv.Itoa":
				default:
					continue
				}
				v := call.Call.Args[0]
				for {
					cv, ok := v.(*ssa.Convert)
					if !ok {
						break
					}
					v = cv.X
				}
				emitted = v
			}
		}
		c.check(added != nil && added == emitted, "F2", "processRESB|same value sized and emitted", c.L.Pos(f.Pos()), fmt.Sprintf("LOC += %s but the ocode carries %s", valName(added), valName(emitted)))
	}
	g := c.L.SSAFunc("internal/codegen", "handleRESB")
	if g == nil {
		c.anchorMissing("F2", "codegen.handleRESB")
	} else {
		okMake := false
		nr := 0
		for _, b := range g.Blocks {
			ret, isRet := b.Instrs[len(b.Instrs)-1].(*ssa.Return)
			if !isRet {
				continue
			}
			// every successful return hands back freshly made zeros (not a window of a shared buffer,
			// which later appends would write into)
			success := false
			if len(ret.Results) == 2 {
				if k, isK := ret.Results[1].(*ssa.Const); isK && k.IsNil() {
					success = true
				}
			} else if len(ret.Results) == 1 {
				// a single []byte result: nil is the failure value
				if k, isK := ret.Results[0].(*ssa.Const); !isK || !k.IsNil() {
					success = true
				}
			}
			if success {
				{
					nr++
					_, fresh := ret.Results[0].(*ssa.MakeSlice)
					c.check(fresh, "F2", fmt.Sprintf("handleRESB|success return#%d is a fresh allocation", nr), c.L.Pos(retPos(ret)), "RESB must return make([]byte, n): a slice of a longer-lived buffer is shared with whatever appends to the result and is no longer zero the next time")
				}
			}
			if ms, ok := ret.Results[0].(*ssa.MakeSlice); ok {
				// len derives from ParseInt(args[0], 10, …)
				v := ms.Len
				if cv, ok := v.(*ssa.Convert); ok {
					v = cv.X
				}
				if ex, ok := v.(*ssa.Extract); ok {
					if call, ok := ex.Tuple.(*ssa.Call); ok && calleeName(&call.Call) == "strconv.ParseInt" {
						if k, ok := call.Call.Args[1].(*ssa.Const); ok && k.Int64() == 10 {
							okMake = true
						}
					}
				}
			}
		}
		c.check(okMake, "F2", "handleRESB|allocates the parsed count", c.L.Pos(g.Pos()), "RESB must emit make([]byte, n) with n the base-10 parse of its argument")
	}
	c.floor("F2", 2)
}

// ---------------------------------------------------------------------------------------
// N5: statements that emit nothing
// ---------------------------------------------------------------------------------------

func ruleN5(c *Ctx) {
	c.doc("N5", "labels, GLOBAL/EXTERN and bracket directives neither emit code nor move the location counter")
	fd, p := c.L.FuncDecl("internal/pass1", "TraverseAST")
	if fd == nil {
		c.anchorMissing("N5", "pass1.TraverseAST")
		return
	}
	info := p.TypesInfo
	for _, tn := range []string{"LabelStmt", "ExportSymStmt", "ExternSymStmt", "ConfigStmt"} {
		cc := typeSwitchClause(info, fd, tn)
		if cc == nil {
			c.anchorMissing("N5", "TraverseAST: case *ast."+tn)
			continue
		}
		emits, locw := 0, 0
		for _, st := range cc.Body {
			ast.Inspect(st, func(n ast.Node) bool {
				switch x := n.(type) {
				case *ast.CallExpr:
					if fn, ok := calleeOf(info, x).(*types.Func); ok {
						if fn.Name() == "Emit" || fn.Name() == "EmitAll" || fn.Name() == "emitCommand" {
							emits++
						}
					}
				case *ast.AssignStmt:
					for _, l := range x.Lhs {
						if sel, ok := l.(*ast.SelectorExpr); ok && sel.Sel.Name == "LOC" {
							locw++
						}
					}
				case *ast.IncDecStmt:
					if sel, ok := x.X.(*ast.SelectorExpr); ok && sel.Sel.Name == "LOC" {
						locw++
					}
				}
				return true
			})
		}
		c.check(emits == 0 && locw == 0, "N5", "TraverseAST["+tn+"]", c.L.Pos(cc.Pos()), fmt.Sprintf("%s must not emit (%d emitting calls) nor move the location counter (%d writes)", tn, emits, locw))
	}
	// the label clause records LOC under the label
	cc := typeSwitchClause(info, fd, "LabelStmt")
	if cc != nil {
		ok := false
		for _, st := range cc.Body {
			if as, isAs := st.(*ast.AssignStmt); isAs && len(as.Lhs) == 1 && len(as.Rhs) == 1 {
				if ie, isIe := as.Lhs[0].(*ast.IndexExpr); isIe {
					if sel, isSel := ie.X.(*ast.SelectorExpr); isSel && sel.Sel.Name == "SymTable" {
						if r, isR := as.Rhs[0].(*ast.SelectorExpr); isR && r.Sel.Name == "LOC" {
							ok = true
						}
					}
				}
			}
		}
		c.check(ok, "N5", "TraverseAST[LabelStmt]|label = LOC", c.L.Pos(cc.Pos()), "a label is assigned the current location counter")
	}
	// `$` evaluates to the location counter
	if efd, _ := c.L.FuncDecl("internal/ast", "(*ImmExp).Eval"); efd != nil {
		src := false
		ast.Inspect(efd.Body, func(n ast.Node) bool {
			if call, ok := n.(*ast.CallExpr); ok {
				if sel, ok := call.Fun.(*ast.SelectorExpr); ok && sel.Sel.Name == "GetLOC" {
					src = true
				}
			}
			return true
		})
		c.check(src, "N5", "(*ImmExp).Eval|$ = LOC", c.L.Pos(efd.Pos()), "`$` must evaluate to env.GetLOC()")
	}
	if g := c.L.SSAFunc("internal/pass1", "(*Pass1).GetLOC"); g != nil {
		ok := false
		for _, b := range g.Blocks {
			if ret, isRet := b.Instrs[len(b.Instrs)-1].(*ssa.Return); isRet && isFieldLoad(ret.Results[0], "LOC") {
				ok = true
			}
		}
		c.check(ok, "N5", "(*Pass1).GetLOC|returns LOC", c.L.Pos(g.Pos()), "GetLOC returns the location counter")
	}
	c.floor("N5", 7)
}

// byteAppendHelperCall: `acc = helper(acc, S)` where helper (a function of internal/pass1) is
// `for _, b := range []byte(s) { acc = append(acc, T(b)) }; return acc` on its own parameters.
// Returns the expression the loop ranges over at the call site ([]byte(S)), or nil.
func byteAppendHelperCall(c *Ctx, info *types.Info, s *ast.AssignStmt) ast.Expr {
	if s.Tok != token.ASSIGN || len(s.Lhs) != 1 || len(s.Rhs) != 1 {
		return nil
	}
	call, ok := s.Rhs[0].(*ast.CallExpr)
	if !ok || len(call.Args) != 2 {
		return nil
	}
	lid, ok1 := s.Lhs[0].(*ast.Ident)
	aid, ok2 := call.Args[0].(*ast.Ident)
	if !ok1 || !ok2 || lid.Name != aid.Name {
		return nil
	}
	fn, ok := calleeOf(info, call).(*types.Func)
	if !ok || fn.Pkg() == nil || !strings.HasSuffix(fn.Pkg().Path(), "internal/pass1") {
		return nil
	}
	hd, hp := c.L.FuncDecl("internal/pass1", fn.Name())
	if hd == nil || hd.Body == nil || hd.Recv != nil || len(hd.Body.List) != 2 {
		return nil
	}
	var names []string
	for _, f := range hd.Type.Params.List {
		for _, n := range f.Names {
			names = append(names, n.Name)
		}
	}
	if len(names) != 2 {
		return nil
	}
	rs, ok := hd.Body.List[0].(*ast.RangeStmt)
	if !ok || len(rs.Body.List) != 1 {
		return nil
	}
	if types.ExprString(rs.X) != "[]byte("+names[1]+")" || !isStringType(hp.TypesInfo.TypeOf(hd.Type.Params.List[len(hd.Type.Params.List)-1].Type)) {
		return nil
	}
	as, ok := rs.Body.List[0].(*ast.AssignStmt)
	if !ok || !isAppendStmt(as) {
		return nil
	}
	if id, ok := as.Lhs[0].(*ast.Ident); !ok || id.Name != names[0] {
		return nil
	}
	ac := as.Rhs[0].(*ast.CallExpr)
	vid, _ := rs.Value.(*ast.Ident)
	if len(ac.Args) != 2 || vid == nil || types.ExprString(ac.Args[0]) != names[0] {
		return nil
	}
	el := ast.Unparen(ac.Args[1])
	if conv, ok := el.(*ast.CallExpr); ok && len(conv.Args) == 1 {
		el = ast.Unparen(conv.Args[0])
	}
	if eid, ok := el.(*ast.Ident); !ok || eid.Name != vid.Name {
		return nil
	}
	ret, ok := hd.Body.List[1].(*ast.ReturnStmt)
	if !ok || len(ret.Results) != 1 || types.ExprString(ret.Results[0]) != names[0] {
		return nil
	}
	return &ast.CallExpr{Fun: &ast.ArrayType{Elt: ast.NewIdent("byte")}, Args: []ast.Expr{call.Args[1]}}
}
