package main

// C03: agreement between the pass-1 size model and the emitters.
// P8 (advance ⇔ emit), S3 (constant size rules vs emitter lengths), S3j (emitted branch
// length must not depend on something pass 1 does not see), F8 (size model terms, prefix
// predicates, opcode length), Z3 (sibling special-case sets of the displacement sizing).

import (
	"fmt"
	"go/ast"
	"go/constant"
	"go/token"
	"go/types"
	"sort"
	"strings"

	"golang.org/x/tools/go/ssa"
)

func ruleP8(c *Ctx) {
	c.doc("P8", "on every path through an instruction handler the location counter is advanced if and only if the statement is emitted")
	handlers, hm := pass1Handlers(c)
	if handlers == nil || len(hm.Errs) > 0 {
		c.fail("P8", "handler-map-undecided", "", fmt.Sprint(hm.Errs))
		return
	}
	always := emitSummaries(c, handlers)
	registered := map[*ssa.Function]bool{}
	for _, e := range hm.Entries {
		if f := c.L.SSA().FuncValue(e.Target); f != nil {
			registered[f] = true
		}
	}
	var fs []*ssa.Function
	for f := range handlers {
		fs = append(fs, f)
	}
	sortFuncs(fs)
	n := 0
	for _, f := range fs {
		if _, silent := silentDirectives[f.Name()]; silent {
			continue
		}
		if len(storesToField(f, "internal/pass1", "Pass1", "LOC")) == 0 && !registered[f] {
			continue // pure emit helper (emitCommand): judged through its callers
		}
		paths, ok := enumPaths(f, 4000)
		if !ok {
			c.fail("P8", shortName(f)+"|paths", c.L.Pos(f.Pos()), "undecided: too many paths")
			continue
		}
		emitB := emitBlocks(f, always)
		locB := map[*ssa.BasicBlock]bool{}
		for _, st := range storesToField(f, "internal/pass1", "Pass1", "LOC") {
			locB[st.Block()] = true
		}
		// delegation: a call to another handler does both
		for _, b := range f.Blocks {
			for _, in := range b.Instrs {
				if ci, ok := in.(ssa.CallInstruction); ok {
					if g := ci.Common().StaticCallee(); g != nil && handlers[g] && g != f {
						emitB[b] = true
						locB[b] = true
					}
				}
			}
		}
		bad := 0
		var badPath *pathInfo
		kind := ""
		for i := range paths {
			p := &paths[i]
			e, l := false, false
			for _, b := range p.Blocks {
				e = e || emitB[b]
				l = l || locB[b]
			}
			if e != l {
				bad++
				if badPath == nil {
					badPath = p
					if e {
						kind = "emits without advancing the location counter"
					} else {
						kind = "advances the location counter without emitting"
					}
				}
			}
		}
		n++
		key := shortName(f) + "|advance iff emit"
		if bad == 0 {
			c.ok("P8", key, c.L.Pos(f.Pos()), fmt.Sprintf("%d paths", len(paths)))
		} else {
			c.fail("P8", key, c.L.Pos(retPos(badPath.Ret)), fmt.Sprintf("%d of %d paths: %s (labels after this statement get the wrong value)", bad, len(paths), kind))
		}
	}
	c.floor("P8", 30)
}

// constAdds returns the constants added to Pass1.LOC in f (nil entry = non-constant add).
func locAddends(f *ssa.Function) (consts []int64, nonConst int) {
	var collect func(v ssa.Value, seen map[ssa.Value]bool)
	collect = func(v ssa.Value, seen map[ssa.Value]bool) {
		if seen[v] {
			return
		}
		seen[v] = true
		switch x := v.(type) {
		case *ssa.Const:
			consts = append(consts, x.Int64())
		case *ssa.Phi:
			for _, e := range x.Edges {
				collect(e, seen)
			}
		case *ssa.Convert:
			collect(x.X, seen)
		default:
			nonConst++
		}
	}
	for _, st := range storesToField(f, "internal/pass1", "Pass1", "LOC") {
		if bo, ok := st.Val.(*ssa.BinOp); ok && bo.Op == token.ADD && isFieldLoad(bo.X, "LOC") {
			collect(bo.Y, map[ssa.Value]bool{})
		} else {
			nonConst++
		}
	}
	sort.Slice(consts, func(i, j int) bool { return consts[i] < consts[j] })
	return
}

// emitLengths: the set of byte lengths f can return on non-error paths (-1: unknown),
// following static calls to same-repository functions up to depth 3.
func emitLengths(f *ssa.Function) []int {
	set := lengthSet(f, 3)
	var out []int
	for k := range set {
		out = append(out, k)
	}
	sort.Ints(out)
	return out
}

func lengthSet(f *ssa.Function, depth int) map[int]bool {
	out := map[int]bool{}
	paths, ok := enumPaths(f, 4000)
	if !ok {
		out[-1] = true
		return out
	}
	for i := range paths {
		p := &paths[i]
		if len(p.Ret.Results) == 0 {
			continue
		}
		if len(p.Ret.Results) == 2 {
			if e, ok := p.Ret.Results[1].(*ssa.Const); !ok || !e.IsNil() {
				continue
			}
		}
		if k, ok := p.Ret.Results[0].(*ssa.Const); ok && k.IsNil() {
			continue
		}
		sh := (&shaper{p: p}).slice(p.Ret.Results[0])
		cur := map[int]bool{0: true}
		for _, e := range sh {
			var add map[int]bool
			switch {
			case e.Kind != bOpaque:
				add = map[int]bool{1: true}
			case e.N >= 0:
				add = map[int]bool{e.N: true}
			case e.Fn != nil && inRepo(e.Fn) && depth > 0 && e.Fn != f:
				add = lengthSet(e.Fn, depth-1)
				if len(add) == 0 {
					add = map[int]bool{0: true}
				}
			default:
				add = map[int]bool{-1: true}
			}
			next := map[int]bool{}
			for a := range cur {
				for b := range add {
					if a < 0 || b < 0 {
						next[-1] = true
					} else {
						next[a+b] = true
					}
				}
			}
			cur = next
		}
		for k := range cur {
			out[k] = true
		}
	}
	return out
}

func ruleS3(c *Ctx) {
	c.doc("S3", "where pass 1 uses a constant size rule, the emitter produces exactly the lengths pass 1 can predict")
	type pair struct{ p1, gen string }
	for _, pr := range []pair{{"processNoParam", "handleNoParamOpcode"}, {"processRET", "handleRET"}, {"processINT", "handleINT"}} {
		f := c.L.SSAFunc("internal/pass1", pr.p1)
		g := c.L.SSAFunc("internal/codegen", pr.gen)
		if g == nil && pr.gen == "handleNoParamOpcode" {
			// the thin dispatcher may be inlined into its caller: the emitter proper is what counts
			g = c.L.SSAFunc("internal/codegen", "GenerateX86NoParam")
		}
		if f == nil || g == nil {
			c.anchorMissing("S3", pr.p1+" / "+pr.gen)
			continue
		}
		sizes, nonConst := locAddends(f)
		lens := emitLengths(g)
		key := fmt.Sprintf("%s vs %s", pr.p1, pr.gen)
		if nonConst > 0 {
			c.fail("S3", key, c.L.Pos(f.Pos()), "undecided: pass-1 size is not a constant")
			continue
		}
		// lengths of 0 arise only from table misses (reported elsewhere); compare the rest
		var ls []int64
		for _, l := range lens {
			if l != 0 {
				ls = append(ls, int64(l))
			}
		}
		var ss []int64
		seen := map[int64]bool{}
		for _, s := range sizes {
			if !seen[s] {
				seen[s] = true
				ss = append(ss, s)
			}
		}
		c.check(fmt.Sprint(ss) == fmt.Sprint(ls), "S3", key, c.L.Pos(f.Pos()), fmt.Sprintf("pass 1 advances by %v byte(s); the emitter produces %v byte(s): a size pass 1 assumes but the emitter never produces shifts every following label", ss, ls))
	}
	// S3j: branch emitters — emitted length may depend only on what pass 1's estimate depends on
	est := c.L.SSAFunc("internal/pass1", "estimateJumpSize")
	if est == nil {
		c.anchorMissing("S3", "pass1.estimateJumpSize")
	} else {
		// the estimate is a function of (mnemonic, mode) only: no parameter beyond those
		c.check(len(est.Params) == 2, "S3", "estimateJumpSize|inputs", c.L.Pos(est.Pos()), "jump size estimate takes (mnemonic, mode)")
	}
	for _, fn := range []string{"handleJcc", "handleCALL"} {
		g := c.L.SSAFunc("internal/codegen", fn)
		if g == nil {
			c.anchorMissing("S3", "codegen."+fn)
			continue
		}
		paths, ok := enumPaths(g, 5000)
		if !ok {
			c.fail("S3", fn+"|paths", "", "undecided")
			continue
		}
		// does any guard that separates two different lengths depend on the target address?
		lens := map[int]bool{}
		distDependent := false
		var at *pathInfo
		for i := range paths {
			p := &paths[i]
			if len(p.Ret.Results) != 2 {
				continue
			}
			if e, ok := p.Ret.Results[1].(*ssa.Const); !ok || !e.IsNil() {
				continue
			}
			sh := (&shaper{p: p}).slice(p.Ret.Results[0])
			if len(sh) == 0 {
				continue
			}
			lens[sh.length()] = true
			for _, gd := range p.Guards {
				if dependsOnCallResult(gd.Cond, "strconv.ParseInt") && !isErrTest(gd.Cond) {
					distDependent = true
					at = p
				}
			}
		}
		var ls []int
		for l := range lens {
			ls = append(ls, l)
		}
		sort.Ints(ls)
		key := fn + "|emitted length independent of the distance"
		if distDependent && len(ls) > 1 {
			c.fail("S3", key, c.L.Pos(retPos(at.Ret)), fmt.Sprintf("the emitter picks among lengths %v by the distance to the target, pass 1 fixed the size from (mnemonic, mode, operand kind) alone: whenever they differ every later label is off", ls))
		} else {
			c.ok("S3", key, c.L.Pos(g.Pos()), fmt.Sprint(ls))
		}
	}
	c.floor("S3", 5)
}

func isErrTest(v ssa.Value) bool {
	bo, ok := v.(*ssa.BinOp)
	if !ok {
		return false
	}
	for _, s := range []ssa.Value{bo.X, bo.Y} {
		if k, ok := s.(*ssa.Const); ok && k.IsNil() {
			return true
		}
	}
	return false
}

func dependsOnCallResult(v ssa.Value, callee string) bool {
	seen := map[ssa.Value]bool{}
	var walk func(ssa.Value) bool
	walk = func(x ssa.Value) bool {
		if seen[x] {
			return false
		}
		seen[x] = true
		if call, ok := x.(*ssa.Call); ok {
			if calleeName(&call.Call) == callee {
				return true
			}
			// look through same-package classifier calls (getOffsetSize(x))
			if f := call.Call.StaticCallee(); f != nil && inRepo(f) {
				for _, a := range call.Call.Args {
					if walk(a) {
						return true
					}
				}
			}
			return false
		}
		if in, ok := x.(ssa.Instruction); ok {
			for _, op := range in.Operands(nil) {
				if op != nil && *op != nil && walk(*op) {
					return true
				}
			}
		}
		return false
	}
	return walk(v)
}

// ---------------------------------------------------------------------------------------
// F8: size model
// ---------------------------------------------------------------------------------------

func ruleF8size(c *Ctx) {
	c.doc("F8s", "the pass-1 size of a table-driven instruction is encoding size + prefixes + displacement + SIB; the opcode contributes as many bytes as the emitter writes for it; prefixes are counted with the predicates the emitters use")
	f := c.L.SSAFunc("pkg/asmdb", "(*InstructionDB).FindMinOutputSize")
	if f == nil {
		c.anchorMissing("F8s", "asmdb.(*InstructionDB).FindMinOutputSize")
		return
	}
	// the returned size is a sum whose leaves are the four calls
	want := map[string]bool{"GetOutputSize": false, "GetPrefixSize": false, "CalcOffsetByteSize": false, "CalcSibByteSize": false}
	for _, b := range f.Blocks {
		ret, isRet := b.Instrs[len(b.Instrs)-1].(*ssa.Return)
		if !isRet {
			continue
		}
		if k, ok := ret.Results[1].(*ssa.Const); !ok || !k.IsNil() {
			continue
		}
		var p *pathInfo
		l := p.linearOf(ret.Results[0])
		// a summing phase of its own: size = sum(enc, operands) — look at what that helper adds up
		for round := 0; round < 2; round++ {
			for v, coef := range l.Terms {
				call, ok := v.(*ssa.Call)
				if !ok || coef != 1 || call.Call.IsInvoke() {
					continue
				}
				if sc := call.Call.StaticCallee(); sc == nil || sc.Name() == "GetOutputSize" || sc.Name() == "GetPrefixSize" {
					continue
				}
				rs := helperResults(call)
				if len(rs) != 1 {
					continue
				}
				inner := p.linearOf(rs[0])
				delete(l.Terms, v)
				for iv, ic := range inner.Terms {
					l.Terms[iv] += ic
				}
				l.K += inner.K
			}
		}
		for v, coef := range l.Terms {
			if call, ok := v.(*ssa.Call); ok && coef == 1 {
				name := ""
				if call.Call.IsInvoke() {
					name = call.Call.Method.Name()
				} else if sc := call.Call.StaticCallee(); sc != nil {
					name = sc.Name()
				}
				if _, ok := want[name]; ok {
					want[name] = true
				}
			}
		}
		c.check(l.K == 0, "F8s", "FindMinOutputSize|no constant fudge", c.L.Pos(retPos(ret)), fmt.Sprintf("size has a constant term %+d", l.K))
	}
	for _, k := range sortedKeys(want) {
		c.check(want[k], "F8s", "FindMinOutputSize|term "+k, c.L.Pos(f.Pos()), "the instruction size must include "+k+"()")
	}
	// opcode length: getSize vs ResolveOpcode
	gs := c.L.SSAFunc("pkg/asmdb", "(*Opcode).getSize")
	if gs == nil {
		c.anchorMissing("F8s", "asmdb.(*Opcode).getSize")
	} else {
		constOne := true
		lenBased := false
		for _, b := range gs.Blocks {
			if ret, ok := b.Instrs[len(b.Instrs)-1].(*ssa.Return); ok {
				if k, ok := ret.Results[0].(*ssa.Const); ok && k.Int64() == 1 {
					continue
				}
				constOne = false
				if dependsOnFieldLoad(ret.Results[0], "Byte") {
					lenBased = true
				}
			}
		}
		// every opcode string of the hand-written forms used through FindMinOutputSize
		forms := fallbackForms(c)
		n := 0
		for _, fm := range forms {
			if !sizedThroughTable(fm.Mnemonic) {
				continue
			}
			for _, e := range fm.Encodings {
				n++
				if constOne && len(e.Opcode) != 2 {
					c.fail("F8s", fmt.Sprintf("opcode length|%s %s", fm.Mnemonic, strings.Join(fm.Operands, ",")), c.L.Pos(e.Pos), fmt.Sprintf("opcode %q is %d bytes but Opcode.getSize() counts 1: pass 1 undersizes this form", e.Opcode, len(e.Opcode)/2))
				}
			}
		}
		c.check(constOne || lenBased, "F8s", "(*Opcode).getSize|shape", c.L.Pos(gs.Pos()), "opcode size must be 1 (with only one-byte opcodes in the tables) or derive from the opcode string")
		c.analysed["F8s_fallback_encodings_sized_via_table"] = n
	}
	// prefix predicates: emitter guard vs GetPrefixSize
	gp := c.L.SSAFunc("pkg/asmdb", "(*InstructionDB).GetPrefixSize")
	if gp == nil {
		c.anchorMissing("F8s", "asmdb.GetPrefixSize")
		return
	}
	sizing := predicateCalls(gp)
	for _, em := range []string{"handleMOV", "generateArithmeticCode", "generateLogicalCode", "handleNOT", "handleIMUL", "handlePUSH", "handlePOP"} {
		g := c.L.SSAFunc("internal/codegen", em)
		if g == nil {
			c.anchorMissing("F8s", "codegen."+em)
			continue
		}
		for _, px := range []struct {
			b    byte
			name string
		}{{0x66, "Require66h"}, {0x67, "Require67h"}} {
			preds := prefixGuardPredicates(g, px.b)
			if preds == nil {
				// the prefixes may be appended by a helper of the package the emitter calls
				for _, h := range unitOf(g, 2) {
					if h == g {
						continue
					}
					if hp := prefixGuardPredicates(h, px.b); hp != nil {
						preds = hp
						break
					}
				}
			}
			if preds == nil {
				c.fail("F8s", fmt.Sprintf("%s|%02X prefix guard", em, px.b), c.L.Pos(g.Pos()), fmt.Sprintf("emitter never appends the %02X prefix", px.b))
				continue
			}
			var extra []string
			for _, pn := range preds {
				if !sizing[pn] {
					extra = append(extra, pn)
				}
			}
			has := false
			for _, pn := range preds {
				if pn == px.name {
					has = true
				}
			}
			key := fmt.Sprintf("%s|%02X prefix predicate", em, px.b)
			switch {
			case !has:
				c.fail("F8s", key, c.L.Pos(g.Pos()), fmt.Sprintf("the %02X prefix is not decided by %s() (which pass 1 counts with)", px.b, px.name))
			case len(extra) > 0:
				c.fail("F8s", key, c.L.Pos(g.Pos()), fmt.Sprintf("the emitter also consults %v before writing the %02X prefix; pass 1 (GetPrefixSize) does not, so it counts a prefix that is not emitted", extra, px.b))
			default:
				c.ok("F8s", key, c.L.Pos(g.Pos()), strings.Join(preds, ","))
			}
		}
	}
	// the other direction: an exemption pass 1 applies before counting a prefix (any predicate of
	// the operands that GetPrefixSize tests besides Require66h/Require67h) is consulted by some
	// emitter's prefix guard too — otherwise pass 1 leaves out a prefix that is emitted
	emitted := map[string]bool{}
	for _, em := range []string{"handleMOV", "generateArithmeticCode", "generateLogicalCode", "handleNOT", "handleIMUL", "handlePUSH", "handlePOP"} {
		if g := c.L.SSAFunc("internal/codegen", em); g != nil {
			for _, h := range unitOf(g, 2) {
				for _, b := range []byte{0x66, 0x67} {
					for _, blkPreds := range prefixGuardLeafPredicates(h, b) {
						emitted[blkPreds] = true
					}
				}
			}
		}
	}
	exempt := map[string]bool{}
	for _, b := range gp.Blocks {
		if iff, ok := b.Instrs[len(b.Instrs)-1].(*ssa.If); ok {
			for _, n := range leafPredicates(iff.Cond, 0) {
				exempt[n] = true
			}
		}
	}
	var names []string
	for n := range exempt {
		names = append(names, n)
	}
	sort.Strings(names)
	for _, n := range names {
		if n == "Require66h" || n == "Require67h" {
			continue
		}
		c.check(emitted[n], "F8s", "GetPrefixSize|condition "+n+" mirrored by an emitter", c.L.Pos(gp.Pos()), "pass 1 consults "+n+"() before counting a prefix but no emitter's prefix guard does: a prefix is emitted that pass 1 did not count, and every later label is off by one")
	}
	c.floor("F8s", 18)
}

// leafPredicates: the interface methods a condition is computed from, looking into the bodies
// of repository helpers it calls (two levels).
func leafPredicates(v ssa.Value, depth int) []string {
	var out []string
	seen := map[ssa.Value]bool{}
	var walk func(ssa.Value)
	walk = func(x ssa.Value) {
		if seen[x] {
			return
		}
		seen[x] = true
		if call, ok := x.(*ssa.Call); ok {
			if call.Call.IsInvoke() {
				out = append(out, call.Call.Method.Name())
				return
			}
			if sc := call.Call.StaticCallee(); sc != nil {
				if strings.HasPrefix(funcName(sc), modPath) && sc.Blocks != nil && depth < 2 {
					n := 0
					callsIn(sc, func(ci ssa.CallInstruction) {
						if ci.Common().IsInvoke() {
							out = append(out, ci.Common().Method.Name())
							n++
						} else if inner := ci.Common().StaticCallee(); inner != nil && strings.HasPrefix(funcName(inner), modPath) {
							if cv, ok := ci.(*ssa.Call); ok {
								out = append(out, leafPredicates(cv, depth+1)...)
								n++
							}
						}
					})
					if n == 0 {
						out = append(out, sc.Name())
					}
				}
				// other library calls (strings.ToUpper of the mnemonic …) say nothing about the operands
			}
			return
		}
		if in, ok := x.(ssa.Instruction); ok {
			for _, op := range in.Operands(nil) {
				if op != nil && *op != nil {
					walk(*op)
				}
			}
		}
	}
	walk(v)
	return out
}

// prefixGuardLeafPredicates: as prefixGuardPredicates, with helpers looked into.
func prefixGuardLeafPredicates(f *ssa.Function, b byte) []string {
	var out []string
	for _, blk := range f.Blocks {
		for _, in := range blk.Instrs {
			call, ok := in.(*ssa.Call)
			if !ok {
				continue
			}
			bi, ok := call.Call.Value.(*ssa.Builtin)
			if !ok || bi.Name() != "append" || len(call.Call.Args) != 2 {
				continue
			}
			sh := (&shaper{}).slice(call.Call.Args[1])
			if len(sh) != 1 || sh[0].Kind != bConst || sh[0].C != b {
				continue
			}
			d := blk
			for hop := 0; hop < 4; hop++ {
				if len(d.Preds) != 1 {
					break
				}
				pr := d.Preds[0]
				iff, ok := pr.Instrs[len(pr.Instrs)-1].(*ssa.If)
				if !ok {
					break
				}
				out = append(out, leafPredicates(iff.Cond, 0)...)
				if !pureCondBlock(pr) {
					break
				}
				d = pr
			}
		}
	}
	return out
}

func sizedThroughTable(m string) bool {
	switch m {
	case "LGDT": // sized and emitted by hand-written rules
		return false
	}
	return true
}

// predicateCalls: names of Operands-interface methods invoked in f.
func predicateCalls(f *ssa.Function) map[string]bool {
	out := map[string]bool{}
	callsIn(f, func(ci ssa.CallInstruction) {
		if ci.Common().IsInvoke() {
			out[ci.Common().Method.Name()] = true
		}
		if sc := ci.Common().StaticCallee(); sc != nil && sc.Signature.Recv() != nil {
			out[sc.Name()] = true
		}
	})
	return out
}

// prefixGuardPredicates: the Operands methods the condition guarding `append(x, <b>)` depends on.
func prefixGuardPredicates(f *ssa.Function, b byte) []string {
	var out []string
	found := false
	for _, blk := range f.Blocks {
		for _, in := range blk.Instrs {
			call, ok := in.(*ssa.Call)
			if !ok {
				continue
			}
			bi, ok := call.Call.Value.(*ssa.Builtin)
			if !ok || bi.Name() != "append" || len(call.Call.Args) != 2 {
				continue
			}
			sh := (&shaper{}).slice(call.Call.Args[1])
			if len(sh) != 1 || sh[0].Kind != bConst || sh[0].C != b {
				continue
			}
			found = true
			// the If that directly guards this append, plus the conjunct blocks of an && / ! chain
			seen := map[string]bool{}
			d := blk
			for hop := 0; hop < 4; hop++ {
				if len(d.Preds) != 1 {
					break
				}
				pr := d.Preds[0]
				iff, ok := pr.Instrs[len(pr.Instrs)-1].(*ssa.If)
				if !ok {
					break
				}
				for _, n := range invokedIn(iff.Cond) {
					if !seen[n] {
						seen[n] = true
						out = append(out, n)
					}
				}
				if !pureCondBlock(pr) {
					break
				}
				d = pr
			}
		}
	}
	if !found {
		return nil
	}
	sort.Strings(out)
	return out
}

func invokedIn(v ssa.Value) []string {
	var out []string
	seen := map[ssa.Value]bool{}
	var walk func(ssa.Value)
	walk = func(x ssa.Value) {
		if seen[x] {
			return
		}
		seen[x] = true
		if call, ok := x.(*ssa.Call); ok {
			if call.Call.IsInvoke() {
				out = append(out, call.Call.Method.Name())
			} else if sc := call.Call.StaticCallee(); sc != nil {
				out = append(out, sc.Name())
			}
			return
		}
		if in, ok := x.(ssa.Instruction); ok {
			for _, op := range in.Operands(nil) {
				if op != nil && *op != nil {
					walk(*op)
				}
			}
		}
	}
	walk(v)
	return out
}

// ---------------------------------------------------------------------------------------
// Z3: sibling special-case sets of the displacement / SIB sizing
// ---------------------------------------------------------------------------------------

// regConstsComparedWith returns the string constants compared (== / switch-case conjunct)
// with the field fld of a MemoryInfo in the AST node n.
func regConstsComparedWith(info *types.Info, n ast.Node, fld string) map[string]bool {
	out := map[string]bool{}
	ast.Inspect(n, func(x ast.Node) bool {
		be, ok := x.(*ast.BinaryExpr)
		if !ok || (be.Op != token.EQL && be.Op != token.NEQ) {
			return true
		}
		for _, pr := range [][2]ast.Expr{{be.X, be.Y}, {be.Y, be.X}} {
			if sel, ok := ast.Unparen(pr[0]).(*ast.SelectorExpr); ok && sel.Sel.Name == fld {
				if s, ok := constStr(info, pr[1]); ok && s != "" {
					out[s] = true
				}
			}
		}
		return true
	})
	return out
}

func ruleZ3(c *Ctx) {
	c.doc("Z3", "the pass-1 displacement/SIB sizing special-cases the same base registers as the ModR/M calculator (a register that forces a zero displacement byte or a SIB byte in the emitter must be known to pass 1)")
	gen, gp := c.L.FuncDecl("internal/codegen", "calculateModRM")
	off, op := c.L.FuncDecl("pkg/ng_operand", "(*OperandPegImpl).CalcOffsetByteSize")
	sib, _ := c.L.FuncDecl("pkg/ng_operand", "(*OperandPegImpl).CalcSibByteSize")
	if gen == nil || off == nil || sib == nil {
		c.anchorMissing("Z3", "calculateModRM / CalcOffsetByteSize / CalcSibByteSize")
		return
	}
	// emitter: case clauses whose body forces disp8=0 when there is no displacement
	forced := map[string]token.Pos{}
	ast.Inspect(gen.Body, func(n ast.Node) bool {
		cc, ok := n.(*ast.CaseClause)
		if !ok {
			return true
		}
		forces := false
		for _, st := range cc.Body {
			if is, ok := st.(*ast.IfStmt); ok {
				if strings.Contains(types.ExprString(is.Cond), "!hasDisp") {
					forces = true
				}
			}
		}
		if forces {
			for _, e := range cc.List {
				for r := range regConstsComparedWith(gp.TypesInfo, e, "BaseReg") {
					forced[r] = cc.Pos()
				}
			}
		}
		return true
	})
	p1 := regConstsComparedWith(op.TypesInfo, off.Body, "BaseReg")
	if len(forced) == 0 {
		c.anchorMissing("Z3", "calculateModRM: clauses forcing a zero displacement ([BP], [EBP])")
	}
	for _, r := range sortedKeys(forced) {
		c.check(p1[r], "Z3", "zero-displacement base|"+r, c.L.Pos(forced[r]), fmt.Sprintf("the emitter encodes [%s] with an explicit zero disp8, CalcOffsetByteSize has no case for %s: pass 1 counts one byte less", r, r))
	}
	// SIB: emitter needs SIB when BaseReg == "ESP" or an index is present — in 32-bit
	// addressing, which 16-bit code reaches through 32-bit registers; pass 1 must not
	// restrict the SIB byte to BITS 32
	genReaches32From16 := false
	ast.Inspect(gen.Body, func(n ast.Node) bool {
		if b, ok := n.(*ast.BranchStmt); ok && b.Tok == token.GOTO {
			genReaches32From16 = true
		}
		return true
	})
	// can CalcSibByteSize return 1 on a path where the mode test `== 32-bit` is false (or absent)?
	sibOutside32 := false
	if sf := c.L.SSAFunc("pkg/ng_operand", "(*OperandPegImpl).CalcSibByteSize"); sf != nil {
		paths, _ := enumPaths(sf, 2000)
		for i := range paths {
			p := &paths[i]
			k, ok := p.Ret.Results[0].(*ssa.Const)
			if !ok || k.Int64() != 1 {
				continue
			}
			modeTrue := false
			for _, g := range p.Guards {
				if bo, ok := g.Cond.(*ssa.BinOp); ok && bo.Op == token.EQL && g.Taken {
					if kk, ok := bo.Y.(*ssa.Const); ok && isIntConst(kk) && kk.Int64() == 32 {
						modeTrue = true
					}
				}
			}
			if !modeTrue {
				sibOutside32 = true
			}
		}
	}
	if genReaches32From16 {
		c.check(sibOutside32, "Z3", "SIB byte in 16-bit code", c.L.Pos(sib.Pos()), "the ModR/M calculator emits a SIB byte for 32-bit addressing inside 16-bit code (67h), CalcSibByteSize counts it only when the mode is 32-bit")
	} else {
		c.ok("Z3", "SIB byte in 16-bit code", c.L.Pos(sib.Pos()), "emitter has no 32-bit addressing path in 16-bit mode")
	}
	for _, r := range []string{"ESP"} {
		a := regConstsComparedWith(gp.TypesInfo, gen.Body, "BaseReg")[r]
		b := regConstsComparedWith(op.TypesInfo, sib.Body, "BaseReg")[r]
		c.check(a == b, "Z3", "SIB base|"+r, c.L.Pos(sib.Pos()), fmt.Sprintf("base register %s forces a SIB byte in the emitter (%v) / in pass 1 (%v)", r, a, b))
	}
	c.floor("Z3", 4)
}

func sibCond(fd *ast.FuncDecl) ast.Expr {
	var first ast.Expr
	ast.Inspect(fd.Body, func(n ast.Node) bool {
		if is, ok := n.(*ast.IfStmt); ok && first == nil {
			first = is.Cond
		}
		return first == nil
	})
	if first == nil {
		return &ast.Ident{Name: "true"}
	}
	return first
}

// pureCondBlock: every instruction of b other than its terminator only feeds the terminator's
// condition (the block is a conjunct of a short-circuit condition).
func pureCondBlock(b *ssa.BasicBlock) bool {
	for _, in := range b.Instrs[:len(b.Instrs)-1] {
		v, ok := in.(ssa.Value)
		if !ok {
			return false
		}
		if v.Referrers() == nil {
			return false
		}
		for _, r := range *v.Referrers() {
			if r.Block() != b {
				return false
			}
		}
	}
	return len(b.Instrs) <= 4
}

func isIntConst(k *ssa.Const) bool {
	return k.Value != nil && k.Value.Kind() == constant.Int
}
