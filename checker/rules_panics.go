package main

// C13: implicit run-time panics that are decidable from the shape of the code.
//   I13 — a constant index into a slice is dominated by a length test that covers it
//   A13 — a forced type assertion is dominated by a test that establishes the type

import (
	"fmt"
	"go/ast"
	"go/constant"
	"go/token"
	"go/types"
	"strings"

	"golang.org/x/tools/go/ssa"
)

func ruleI13(c *Ctx) {
	c.doc("I13", "every constant index s[k] into a slice or string in gosk's own code is covered: a dominating length test implies len(s) > k, or s is built in the same function with at least k+1 elements (literal, make, strings.Split/Fields result indexed at 0 after a non-empty test…); otherwise an input with fewer operands is an index-out-of-range panic")
	n := 0
	for _, f := range c.L.RepoFuncs() {
		if c.isGeneratedFn(f) || pkgRel(f) == "test" {
			continue
		}
		per := map[string]int{}
		for _, b := range f.Blocks {
			for _, in := range b.Instrs {
				var x, idx ssa.Value
				switch v := in.(type) {
				case *ssa.IndexAddr:
					if _, ok := v.X.Type().Underlying().(*types.Slice); ok {
						x, idx = v.X, v.Index
					}
				case *ssa.Index:
					if bt, ok := v.X.Type().Underlying().(*types.Basic); ok && bt.Info()&types.IsString != 0 {
						x, idx = v.X, v.Index
					}
				}
				if x == nil {
					continue
				}
				k, ok := idx.(*ssa.Const)
				if !ok || !isIntConst(k) {
					continue
				}
				n++
				name := srcTextAt(c, f, in.Pos())
				if name == "" {
					name = sliceName(x)
				}
				per[name]++
				key := fmt.Sprintf("%s|%s[%d]#%d", shortName(f), name, k.Int64(), per[name])
				why, ok := indexCovered(f, x, k.Int64(), b)
				if ok {
					c.ok("I13", key, c.L.Pos(instrPos(in)), why)
				} else {
					c.fail("I13", key, c.L.Pos(instrPos(in)), fmt.Sprintf("%s indexes %s[%d] with no test on every path to it that the slice has %d element(s): a statement with fewer operands panics here", shortName(f), name, k.Int64(), k.Int64()+1))
				}
			}
		}
	}
	c.analysed["I13_constant_indexes"] = n
	c.floor("I13", 40)
}

func sliceName(v ssa.Value) string {
	if f := parentOf(v); f != nil {
		if k := lenKey(f, v); k != "" && !strings.HasPrefix(k, "len(") {
			k = strings.TrimPrefix(k, "param:")
			k = strings.TrimPrefix(k, "local:")
			return k
		}
	}
	if k := valueKey(v); k != "" && !strings.HasPrefix(k, "len(") {
		k = strings.TrimPrefix(k, "param:")
		k = strings.TrimPrefix(k, "local:")
		return k
	}
	switch x := v.(type) {
	case *ssa.Call:
		return "result of " + calleeOrDyn(x.Common())
	case *ssa.Extract:
		return sliceName(x.Tuple)
	case *ssa.Slice:
		return sliceName(x.X) + "[:]"
	}
	if _, ok := v.(*ssa.Phi); ok {
		return "local slice"
	}
	if _, ok := v.(*ssa.MakeSlice); ok {
		return "made slice"
	}
	return "value"
}

// Source-text index: the text of the operand / index / whole slice expression keyed by the
// position of its `[` or `.(` (built once per run).
type srcTexts struct{ operand, index, slice map[token.Pos]string }

var srcIndexCache *srcTexts

func srcIndex(c *Ctx) *srcTexts {
	if srcIndexCache != nil {
		return srcIndexCache
	}
	t := &srcTexts{map[token.Pos]string{}, map[token.Pos]string{}, map[token.Pos]string{}}
	for _, p := range c.L.Pkgs {
		if !strings.HasPrefix(p.PkgPath, modPath) {
			continue
		}
		for _, file := range p.Syntax {
			if c.L.isGeneratedFile(file) {
				continue
			}
			ast.Inspect(file, func(n ast.Node) bool {
				switch x := n.(type) {
				case *ast.IndexExpr:
					t.operand[x.Lbrack] = types.ExprString(x.X)
					t.index[x.Lbrack] = types.ExprString(x.Index)
				case *ast.TypeAssertExpr:
					t.operand[x.Lparen] = types.ExprString(x.X)
				case *ast.SliceExpr:
					t.slice[x.Lbrack] = types.ExprString(x)
				}
				return true
			})
		}
	}
	srcIndexCache = t
	return t
}

func srcTextAt(c *Ctx, f *ssa.Function, pos token.Pos) string { return srcIndex(c).operand[pos] }

func parentOf(v ssa.Value) *ssa.Function {
	if in, ok := v.(ssa.Instruction); ok {
		return in.Parent()
	}
	if p, ok := v.(*ssa.Parameter); ok {
		return p.Parent()
	}
	return nil
}

// indexCovered: proof that len(x) > k at block blk.
func indexCovered(f *ssa.Function, x ssa.Value, k int64, blk *ssa.BasicBlock) (string, bool) {
	curUseBlock = blk
	// (1) built here with enough elements
	if n, ok := staticLen(x); ok {
		if n > k {
			return fmt.Sprintf("built with %d elements", n), true
		}
		return "", false
	}
	sameSlice := func(a ssa.Value) bool {
		if a == x {
			return true
		}
		ka, kx := lenKey(f, a), lenKey(f, x)
		return ka != "" && ka == kx
	}
	// (1b) make([]T, n) with n tested against a constant; strings.Split after strings.Contains
	if ms, ok := x.(*ssa.MakeSlice); ok {
		if lb, ok := valueLowerBound(f, ms.Len, blk); ok && lb > k {
			return fmt.Sprintf("made with a length tested to be %d", lb), true
		}
	}
	if call, ok := x.(*ssa.Call); ok {
		switch calleeName(call.Common()) {
		case "strings.Split":
			if k == 0 {
				return "strings.Split returns at least one element", true
			}
			if k == 1 && containsTested(f, call, blk) {
				return "strings.Split after strings.Contains(s, sep): at least two elements", true
			}
		}
	}
	// (2) dominating length tests (also as a conjunct / disjunct of a short-circuit condition)
	for _, b := range f.Blocks {
		iff, ok := b.Instrs[len(b.Instrs)-1].(*ssa.If)
		if !ok {
			continue
		}
		for _, cf := range condFacts(iff.Cond, 0) {
			bo := cf.bo
			var lenArg ssa.Value
			var cst *ssa.Const
			op := bo.Op
			if l, ok := lenOperand(bo.X); ok {
				if kc, ok := bo.Y.(*ssa.Const); ok && isIntConst(kc) {
					lenArg, cst = l, kc
				}
			} else if l, ok := lenOperand(bo.Y); ok {
				if kc, ok := bo.X.(*ssa.Const); ok && isIntConst(kc) {
					lenArg, cst = l, kc
					op = flipOp(op)
				}
			}
			if lenArg == nil || !sameSlice(lenArg) {
				continue
			}
			cv := cst.Int64()
			// lower bound of len when the comparison holds / does not hold
			lbT, lbF := int64(-1), int64(-1)
			switch op {
			case token.EQL:
				lbT = cv
				if cv == 0 {
					lbF = 1 // a length that is not 0 is at least 1
				}
			case token.NEQ:
				lbF = cv
				if cv == 0 {
					lbT = 1
				}
			case token.LSS:
				lbF = cv
			case token.LEQ:
				lbF = cv + 1
			case token.GTR:
				lbT = cv + 1
			case token.GEQ:
				lbT = cv
			}
			if lbT > k && cf.trueEdge >= 0 && edgesDominate(f, []cfgEdge{{b, cf.trueEdge}}, blk) {
				return fmt.Sprintf("length test `len %s %d` (holds) dominates", op, cv), true
			}
			if lbF > k && cf.falseEdge >= 0 && edgesDominate(f, []cfgEdge{{b, cf.falseEdge}}, blk) {
				return fmt.Sprintf("length test `len %s %d` (fails) dominates", op, cv), true
			}
		}
	}
	// (3) strings.HasPrefix / HasSuffix(x, "literal") established on every way in: the string is
	// at least as long as the literal
	var edges []cfgEdge
	for _, b := range f.Blocks {
		iff, ok := b.Instrs[len(b.Instrs)-1].(*ssa.If)
		if !ok {
			continue
		}
		call, ok := iff.Cond.(*ssa.Call)
		if !ok {
			continue
		}
		name := calleeName(call.Common())
		if name != "strings.HasPrefix" && name != "strings.HasSuffix" {
			continue
		}
		lit, ok := call.Call.Args[1].(*ssa.Const)
		if !ok || lit.Value == nil || !sameSlice(call.Call.Args[0]) {
			continue
		}
		if int64(len(constantStringVal(lit))) > k {
			edges = append(edges, cfgEdge{b, 0})
		}
	}
	if len(edges) > 0 && edgesDominate(f, edges, blk) {
		return "a prefix/suffix test with a literal of sufficient length holds on every way in", true
	}
	// (4) the tests made on the way, taken together: unit propagation over and/or/not of the
	// branch conditions (e.g. `if a && (b || len <= 1) { return }` followed by `if !a`)
	if why, ok := propLenProof(f, x, k, blk); ok {
		return why, true
	}
	return "", false
}

func constantStringVal(k *ssa.Const) string {
	if k.Value == nil || k.Value.Kind() != constant.String {
		return ""
	}
	return constant.StringVal(k.Value)
}

func lenOperand(v ssa.Value) (ssa.Value, bool) {
	if cv, ok := v.(*ssa.Convert); ok {
		v = cv.X
	}
	if call, ok := v.(*ssa.Call); ok {
		if bi, ok := call.Call.Value.(*ssa.Builtin); ok && bi.Name() == "len" && len(call.Call.Args) == 1 {
			return call.Call.Args[0], true
		}
	}
	return nil, false
}

func flipOp(op token.Token) token.Token {
	switch op {
	case token.LSS:
		return token.GTR
	case token.LEQ:
		return token.GEQ
	case token.GTR:
		return token.LSS
	case token.GEQ:
		return token.LEQ
	}
	return op
}

// staticLen: the slice is a literal / make / slice of a fixed array created in this function.
func staticLen(v ssa.Value) (int64, bool) {
	switch x := v.(type) {
	case *ssa.Slice:
		if pt, ok := x.X.Type().Underlying().(*types.Pointer); ok && x.Low == nil {
			if at, ok := pt.Elem().Underlying().(*types.Array); ok {
				if x.High == nil {
					return at.Len(), true
				}
				if k, ok := x.High.(*ssa.Const); ok && isIntConst(k) {
					return k.Int64(), true
				}
			}
		}
	case *ssa.MakeSlice:
		if k, ok := x.Len.(*ssa.Const); ok && isIntConst(k) {
			return k.Int64(), true
		}
	}
	return 0, false
}

func ruleA13(c *Ctx) {
	c.doc("A13", "every single-value type assertion x.(T) in gosk's own code is dominated by a test that establishes T (comma-ok assertion or type switch on the same value, or a flag computed from such a test in the same function); otherwise an operand of another kind is a run-time panic")
	n := 0
	for _, f := range c.L.RepoFuncs() {
		if c.isGeneratedFn(f) || pkgRel(f) == "test" {
			continue
		}
		per := 0
		for _, b := range f.Blocks {
			for _, in := range b.Instrs {
				ta, ok := in.(*ssa.TypeAssert)
				if !ok || ta.CommaOk {
					continue
				}
				n++
				per++
				xname := srcTextAt(c, f, ta.Pos())
				if xname == "" {
					xname = sliceName(ta.X)
				}
				key := fmt.Sprintf("%s|%s.(%s)#%d", shortName(f), xname, types.TypeString(ta.AssertedType, func(p *types.Package) string { return p.Name() }), per)
				why, ok := assertionCovered(f, ta, b)
				if !ok {
					why, ok = allElementsFlag(f, ta, b)
				}
				if reason, frozen := confirmedPanicFree[strings.SplitN("A13|"+key, "#", 2)[0]]; !ok && frozen {
					why, ok = "confirmed by reading: "+reason, true
				}
				if ok {
					c.ok("A13", key, c.L.Pos(instrPos(in)), why)
				} else {
					c.fail("A13", key, c.L.Pos(instrPos(in)), fmt.Sprintf("%s asserts %s to %s with nothing before it that establishes the type: another operand kind panics here", shortName(f), sliceName(ta.X), ta.AssertedType))
				}
			}
		}
	}
	c.analysed["A13_forced_assertions"] = n
	c.ok("A13", "assertions scanned", "", fmt.Sprintf("%d forced type assertions in non-generated code", n))
}

// assertionCovered: (a) a comma-ok assertion of the same value (or of the same element of the
// same slice, or of a value with the same structural key) to the same type whose ok-branch
// dominates; (b) the asserted value has that static type already.
func assertionCovered(f *ssa.Function, ta *ssa.TypeAssert, blk *ssa.BasicBlock) (string, bool) {
	if types.Identical(ta.X.Type(), ta.AssertedType) {
		return "static type", true
	}
	same := func(a ssa.Value) bool {
		if a == ta.X {
			return true
		}
		return elemKey(a) != "" && elemKey(a) == elemKey(ta.X)
	}
	// (c) a type switch: every way into blk passes the ok-edge of a comma-ok assertion of the
	// same value to a type that satisfies the asserted one
	var edges []cfgEdge
	for _, b := range f.Blocks {
		for _, in := range b.Instrs {
			o, ok := in.(*ssa.TypeAssert)
			if !ok || !o.CommaOk || !same(o.X) || !satisfies(o.AssertedType, ta.AssertedType) {
				continue
			}
			for _, r := range *o.Referrers() {
				if ex, ok := r.(*ssa.Extract); ok && ex.Index == 1 {
					for _, rr := range *ex.Referrers() {
						if iff, ok := rr.(*ssa.If); ok {
							edges = append(edges, cfgEdge{iff.Block(), 0})
						}
					}
				}
			}
		}
	}
	if len(edges) > 0 && edgesDominate(f, edges, blk) {
		return fmt.Sprintf("reached only through %d type tests that satisfy %s", len(edges), types.TypeString(ta.AssertedType, func(p *types.Package) string { return p.Name() })), true
	}
	for _, b := range f.Blocks {
		for _, in := range b.Instrs {
			o, ok := in.(*ssa.TypeAssert)
			if !ok || !o.CommaOk || !types.Identical(o.AssertedType, ta.AssertedType) || !same(o.X) {
				continue
			}
			// find the ok flag and the If on it
			for _, r := range *o.Referrers() {
				ex, ok := r.(*ssa.Extract)
				if !ok || ex.Index != 1 {
					continue
				}
				if okFlagDominates(f, ex, blk, map[ssa.Value]bool{}) {
					return "comma-ok assertion to the same type dominates", true
				}
			}
		}
	}
	return "", false
}

// okFlagDominates: blk is only reachable when flag (or a conjunction containing it) was true.
// Handles `ok` stored into a boolean accumulator that is AND-ed: flag false ⇒ acc false, and a
// later `if acc` true-branch dominating blk.
func okFlagDominates(f *ssa.Function, flag ssa.Value, blk *ssa.BasicBlock, seen map[ssa.Value]bool) bool {
	if seen[flag] {
		return false
	}
	seen[flag] = true
	for _, r := range *flag.Referrers() {
		switch x := r.(type) {
		case *ssa.If:
			if edgesDominate(f, []cfgEdge{{x.Block(), 0}}, blk) {
				return true
			}
		case *ssa.Phi:
			// acc = phi(false [flag false], …): blk under `if acc`
			allOtherFalseOrFlag := true
			for _, e := range x.Edges {
				if e == flag {
					continue
				}
				if k, ok := e.(*ssa.Const); ok && k.Value != nil && k.Value.String() == "false" {
					continue
				}
				allOtherFalseOrFlag = false
			}
			if allOtherFalseOrFlag && okFlagDominates(f, x, blk, seen) {
				return true
			}
		case *ssa.UnOp:
			// !ok → if !ok { return }: false branch dominates
			if x.Op == token.NOT {
				for _, rr := range *x.Referrers() {
					if iff, ok := rr.(*ssa.If); ok {
						if edgesDominate(f, []cfgEdge{{iff.Block(), 1}}, blk) {
							return true
						}
					}
				}
			}
		}
	}
	return false
}

// elemKey: structural key for "element i of slice S" loads, so that evalTailExps[i] read twice
// compares equal.
func elemKey(v ssa.Value) string {
	if u, ok := v.(*ssa.UnOp); ok && u.Op == token.MUL {
		if ia, ok := u.X.(*ssa.IndexAddr); ok {
			return "elem(" + ia.X.Name() + "," + ia.Index.Name() + ")"
		}
	}
	return valueKey(v)
}

// lenKey: a structural key under which two values are the same slice or slices of provably
// equal length: stable struct-field paths rooted at parameters, niladic getters of the flag
// package, and lo.Map (length-preserving) of such a value.
// curUseBlock: the block of the index / slice expression being decided (set by the entry points);
// a slice that is still being built inside a loop has its final length only after the loop.
var curUseBlock *ssa.BasicBlock

func lenKey(f *ssa.Function, v ssa.Value) string {
	switch x := v.(type) {
	case *ssa.MakeSlice:
		// make([]T, len(Y)): as long as Y
		lv := x.Len
		if cv, ok := lv.(*ssa.Convert); ok {
			lv = cv.X
		}
		if y, ok := lenOperand(lv); ok {
			if k := lenKey(f, y); k != "" {
				return k
			}
		}
	case *ssa.Phi:
		// out = append(out, e) once per round of a range loop over Y, used after the loop: as long as Y
		if y, exit, ok := loopBuiltFrom(x); ok && curUseBlock != nil && edgesDominate(f, []cfgEdge{exit}, curUseBlock) {
			if k := lenKey(f, y); k != "" {
				return k
			}
		}
	case *ssa.Call:
		name := calleeName(x.Common())
		if strings.HasSuffix(name, "samber/lo.Map") && len(x.Call.Args) >= 1 {
			return lenKey(f, x.Call.Args[0])
		}
		if name == "flag.Args" {
			return "flag.Args()"
		}
		if x.Call.IsInvoke() && len(x.Call.Args) == 0 {
			// the same niladic getter on the same receiver (OperandTypes(), InternalStrings())
			if rk := lenKey(f, x.Call.Value); rk != "" {
				return rk + "." + x.Call.Method.Name() + "()"
			}
		}
	case *ssa.Parameter:
		return "param:" + x.Name()
	case *ssa.UnOp:
		if x.Op == token.MUL {
			if k := addrKey(f, x.X); k != "" {
				return k
			}
		}
	}
	if k := valueKey(v); k != "" {
		return k
	}
	// the same SSA value is the same slice
	if in, ok := v.(ssa.Instruction); ok && in.Parent() == f && v.Name() != "" {
		return "ssa:" + v.Name()
	}
	return ""
}

// addrKey: key of an address that is a field path rooted at a parameter or at a local that is
// assigned once (the spill of a struct parameter); "" when the path is written in f.
func addrKey(f *ssa.Function, a ssa.Value) string {
	switch x := a.(type) {
	case *ssa.FieldAddr:
		base := ""
		switch bx := x.X.(type) {
		case *ssa.Parameter:
			base = "param:" + bx.Name()
		case *ssa.UnOp:
			base = lenKey(f, bx)
		default:
			base = addrKey(f, x.X)
		}
		if base == "" {
			return ""
		}
		k := base + "." + fieldName(x)
		if fieldWritten(f, k) {
			return ""
		}
		return k
	case *ssa.Alloc:
		stores := 0
		for _, r := range *x.Referrers() {
			if st, ok := r.(*ssa.Store); ok && st.Addr == x {
				stores++
				if _, isParam := st.Val.(*ssa.Parameter); !isParam {
					return ""
				}
			}
		}
		if stores == 1 {
			return "local:" + x.Comment
		}
	}
	return ""
}

var fieldWriteCache = map[*ssa.Function]map[string]bool{}

func fieldWritten(f *ssa.Function, key string) bool {
	m, ok := fieldWriteCache[f]
	if !ok {
		m = map[string]bool{}
		fieldWriteCache[f] = m
		for _, b := range f.Blocks {
			for _, in := range b.Instrs {
				if st, ok := in.(*ssa.Store); ok {
					if fa, ok := st.Addr.(*ssa.FieldAddr); ok {
						m["."+fieldName(fa)] = true
					}
				}
			}
		}
	}
	i := strings.LastIndex(key, ".")
	return i >= 0 && m[key[i:]]
}

// valueLowerBound: v == c established by a dominating test (if / switch on v).
func valueLowerBound(f *ssa.Function, v ssa.Value, blk *ssa.BasicBlock) (int64, bool) {
	for _, b := range f.Blocks {
		iff, ok := b.Instrs[len(b.Instrs)-1].(*ssa.If)
		if !ok {
			continue
		}
		bo, ok := iff.Cond.(*ssa.BinOp)
		if !ok || bo.Op != token.EQL || bo.X != v {
			continue
		}
		if k, ok := bo.Y.(*ssa.Const); ok && isIntConst(k) {
			if edgesDominate(f, []cfgEdge{{b, 0}}, blk) {
				return k.Int64(), true
			}
		}
	}
	return 0, false
}

// containsTested: split = strings.Split(s, sep) and a dominating `if strings.Contains(s, sep)`.
func containsTested(f *ssa.Function, split *ssa.Call, blk *ssa.BasicBlock) bool {
	for _, b := range f.Blocks {
		iff, ok := b.Instrs[len(b.Instrs)-1].(*ssa.If)
		if !ok {
			continue
		}
		c, ok := iff.Cond.(*ssa.Call)
		if !ok || calleeName(c.Common()) != "strings.Contains" {
			continue
		}
		if c.Call.Args[0] != split.Call.Args[0] {
			continue
		}
		ka, okA := c.Call.Args[1].(*ssa.Const)
		kb, okB := split.Call.Args[1].(*ssa.Const)
		if !okA || !okB || ka.Value.String() != kb.Value.String() {
			continue
		}
		if edgesDominate(f, []cfgEdge{{b, 0}}, blk) {
			return true
		}
	}
	return false
}

func satisfies(have, want types.Type) bool {
	if types.Identical(have, want) {
		return true
	}
	if it, ok := want.Underlying().(*types.Interface); ok {
		return types.Implements(have, it)
	}
	return false
}

// cfgEdge is the i-th out-edge of a block ending in an If.
type cfgEdge struct {
	b *ssa.BasicBlock
	i int
}

// edgesDominate: every path from the entry to blk uses one of the given edges. Blocks that end
// in a call that does not return (os.Exit, log.Fatal*, panic) have no successors for this purpose.
func edgesDominate(f *ssa.Function, edges []cfgEdge, blk *ssa.BasicBlock) bool {
	cut := map[[2]int]bool{}
	for _, e := range edges {
		cut[[2]int{e.b.Index, e.i}] = true
	}
	seen := map[*ssa.BasicBlock]bool{}
	var stack []*ssa.BasicBlock
	stack = append(stack, f.Blocks[0])
	for len(stack) > 0 {
		b := stack[len(stack)-1]
		stack = stack[:len(stack)-1]
		if seen[b] {
			continue
		}
		seen[b] = true
		if b == blk {
			return false
		}
		if noReturnBlock(b) {
			continue
		}
		for i, s := range b.Succs {
			if cut[[2]int{b.Index, i}] {
				continue
			}
			stack = append(stack, s)
		}
	}
	return true
}

func noReturnBlock(b *ssa.BasicBlock) bool {
	for _, in := range b.Instrs {
		if _, ok := in.(*ssa.Panic); ok {
			return true
		}
		if call, ok := in.(*ssa.Call); ok {
			switch n := calleeName(call.Common()); {
			case n == "os.Exit", strings.HasPrefix(n, "log.Fatal"), strings.HasPrefix(n, "log.Panic"):
				return true
			}
		}
	}
	return false
}

// Sites confirmed by reading that the rules above cannot decide (one line of reason each).
// tableRowIndexFuncs: emitters that index the statement's operand list with a position taken
// from the matched row of the instruction table (`#k` names an operand position of the form; the
// matchers accept a form only when it has as many operands as the statement — rule X13 guards
// that; rows of the hand-written fallback table are range-checked by rule T5; rows of the
// embedded JSON table are data of the trusted base).
var tableRowIndexFuncs = map[string]string{
	"internal/codegen.handleMOV":              "operand position from the matched table row (+r addend / immediate)",
	"internal/codegen.generateArithmeticCode": "operand position from the matched table row (+r addend / immediate)",
	"internal/codegen.generateLogicalCode":    "operand position from the matched table row (+r addend / immediate)",
	"internal/codegen.handleIMUL":             "operand position from the matched table row, upper bound tested; Atoi of `#k` text is never negative for table rows",
}

// tableRowReason: f is one of the listed emitters, or a helper every call of which is made by
// one of them (the code was moved, the argument stays the same).
func tableRowReason(c *Ctx, f *ssa.Function) (string, bool) {
	if r, ok := tableRowIndexFuncs[shortName(f)]; ok {
		return r, true
	}
	idx := c.callIndex()
	if idx.taken[f] || len(idx.sites[f]) == 0 || f.Parent() != nil {
		return "", false
	}
	reason := ""
	for _, ci := range idx.sites[f] {
		r, ok := tableRowIndexFuncs[shortName(ci.Parent())]
		if !ok {
			return "", false
		}
		reason = r + " (moved into " + f.Name() + ", called only from " + ci.Parent().Name() + ")"
	}
	return reason, true
}

var confirmedPanicFree = map[string]string{
	"L13|(*internal/filefmt.CoffFormat).Write|finalBytes[0:coffHeaderSize]":                                    "the buffer starts with a placeholder of coffHeaderSize + 3×coffSectionHeaderSize bytes written before any data (rule P4 checks that order)",
	"L13|(*internal/filefmt.CoffFormat).Write|finalBytes[currentOffset:currentOffset + coffSectionHeaderSize]": "as above; currentOffset runs over the three section-header slots of that placeholder",
	"L13|internal/codegen.handleLGDT|opStr[1:len(opStr) - 1]":                                                  "opStr begins with `[` and ends with `]` (tested just above): two different characters, so it has at least two",
	"M13b|internal/codegen.getImmediateValue|make with a run-time length":                                      "the length is the immediate width of the matched table row (1, 2 or 4 — rule T5 for the hand-written rows, JSON rows are data of the trusted base)",
	"M13b|internal/codegen.handleALIGNB|make with a run-time length":                                           "padding is smaller than the alignment unit, which pass 1 hands over as a positive int32 (processALIGNB converts and rejects the rest)",
	// sort comparator: i, j range over allEntries[4:], the slice handed to sort.SliceStable
	// indexes taken from the matched row of the instruction table: `#k` names an operand position of the
	// form; the matchers accept a form only when it has as many operands as the statement (rule X13 guards
	// that); rows of the hand-written fallback table are range-checked by rule T5; rows of the embedded
	// JSON table are data of the trusted base
}

// ---------------------------------------------------------------------------------------
// V13: variable indexes
// ---------------------------------------------------------------------------------------

func ruleV13(c *Ctx) {
	c.doc("V13", "every non-constant index s[i] into a slice or string in gosk's own code is covered: i is the index of a range loop over s itself (or over a slice shown to have the same length: rule X13's guards), or a dominating comparison bounds i by len(s); the remaining sites are listed with the reason they cannot go out of range, and a site that is none of these fails")
	n, auto := 0, 0
	paramArgsHook = c.boundArgs
	x13 := x13Verdicts(c)
	for _, f := range c.L.RepoFuncs() {
		if c.isGeneratedFn(f) || pkgRel(f) == "test" || strings.HasSuffix(c.L.Fset.Position(f.Pos()).Filename, "_enumer.go") || strings.HasSuffix(c.L.Fset.Position(f.Pos()).Filename, "test_helper.go") {
			continue
		}
		per := map[string]int{}
		for _, b := range f.Blocks {
			for _, in := range b.Instrs {
				var x, idx ssa.Value
				switch v := in.(type) {
				case *ssa.IndexAddr:
					if _, ok := v.X.Type().Underlying().(*types.Slice); ok {
						x, idx = v.X, v.Index
					}
				case *ssa.Index:
					if bt, ok := v.X.Type().Underlying().(*types.Basic); ok && bt.Info()&types.IsString != 0 {
						x, idx = v.X, v.Index
					}
				}
				if x == nil {
					continue
				}
				if _, isConst := idx.(*ssa.Const); isConst {
					continue
				}
				n++
				name := srcTextAt(c, f, in.Pos())
				if name == "" {
					name = sliceName(x)
				}
				itxt := srcIndexAt(c, f, in.Pos())
				per[name+itxt]++
				key := fmt.Sprintf("%s|%s[%s]#%d", shortName(f), name, itxt, per[name+itxt])
				if why, ok := varIndexCovered(f, x, idx, b); ok {
					auto++
					c.ok("V13", key, c.L.Pos(instrPos(in)), why)
					continue
				}
				if v, ok := x13[in.Pos()]; ok && v.ok {
					auto++
					c.ok("V13", key, c.L.Pos(instrPos(in)), "index of a loop over "+v.over+"; rule X13: "+v.why)
					continue
				}
				if why, ok := specialIndexProof(f, x, idx, b); ok {
					auto++
					c.ok("V13", key, c.L.Pos(instrPos(in)), why)
					continue
				}
				// operand positions read from the matched row of the instruction table, in the emitters
				// where that was confirmed by reading — whatever the locals are called today
				if reason, ok := tableRowReason(c, f); ok && isStringSliceType(x.Type()) && fromTableRow(idx, map[ssa.Value]bool{}, 0) {
					// where the listed reason includes a tested upper bound, that test must still be there
					if strings.Contains(reason, "upper bound tested") {
						curUseBlock = b
						if _, ub := upperBoundTested(f, x, idx, b, nil); !ub {
							c.fail("V13", key, c.L.Pos(instrPos(in)), "this site was accepted because its index, read from the table row, is tested against the operand count; that test is gone")
							continue
						}
					}
					c.ok("V13", key, c.L.Pos(instrPos(in)), "confirmed by reading: "+reason)
					continue
				}
				if reason, ok := confirmedPanicFree["V13|"+strings.SplitN(key, "#", 2)[0]]; ok {
					// a listed site stays listed only while the fact its reason rests on is still
					// visible: the index is read from the matched row of the instruction table
					if strings.Contains(reason, "table row") && !fromTableRow(idx, map[ssa.Value]bool{}, 0) {
						c.fail("V13", key, c.L.Pos(instrPos(in)), "this site was accepted because its index came from the matched table row; it no longer does")
						continue
					}
					c.ok("V13", key, c.L.Pos(instrPos(in)), "confirmed by reading: "+reason)
					continue
				}
				c.fail("V13", key, c.L.Pos(instrPos(in)), fmt.Sprintf("%s indexes %s with %s and nothing on the way bounds the index by the length of that slice", shortName(f), name, itxt))
			}
		}
	}
	c.analysed["V13_variable_indexes"] = n
	c.analysed["V13_decided_automatically"] = auto
	c.floor("V13", 50)
}

func srcIndexAt(c *Ctx, f *ssa.Function, pos token.Pos) string {
	if s, ok := srcIndex(c).index[pos]; ok {
		return s
	}
	return "range"
}

// varIndexCovered: a dominating edge `idx < len(s')` (or the false edge of `idx >= len(s')`)
// with s' the same slice or one of provably equal length; idx is not negative because it is a
// loop counter starting at a constant ≥ 0 and only incremented, or an unsigned/len-derived value.
func varIndexCovered(f *ssa.Function, x, idx ssa.Value, blk *ssa.BasicBlock) (string, bool) {
	curUseBlock = blk
	same := func(a ssa.Value) bool {
		if a == x {
			return true
		}
		ka, kx := lenKey(f, a), lenKey(f, x)
		return ka != "" && ka == kx
	}
	// s[len(s)-1] under a test that s is not empty
	if bo, ok := idx.(*ssa.BinOp); ok && bo.Op == token.SUB {
		if l, ok := lenOperand(bo.X); ok && same(l) {
			if k, ok := bo.Y.(*ssa.Const); ok && isIntConst(k) && k.Int64() >= 1 {
				if why, ok := indexCovered(f, x, k.Int64()-1, blk); ok {
					return "last-element index; " + why, true
				}
			}
		}
	}
	if !nonNegative(idx, 0) && !testedNonNegative(f, idx, blk) {
		return "", false
	}
	return upperBoundTested(f, x, idx, blk, same)
}

// upperBoundTested: a dominating comparison bounds idx by len of the same slice (the lower
// bound is the caller's business).
func upperBoundTested(f *ssa.Function, x, idx ssa.Value, blk *ssa.BasicBlock, same func(ssa.Value) bool) (string, bool) {
	if same == nil {
		same = func(a ssa.Value) bool {
			if a == x {
				return true
			}
			ka, kx := lenKey(f, a), lenKey(f, x)
			return ka != "" && ka == kx
		}
	}
	for _, b := range f.Blocks {
		iff, ok := b.Instrs[len(b.Instrs)-1].(*ssa.If)
		if !ok {
			continue
		}
		for _, cf := range condFacts(iff.Cond, 0) {
			bo := cf.bo
			// idx < len(s) | len(s) > idx hold;   idx >= len(s) | len(s) <= idx fail
			edge := -1
			if l, ok := lenOperand(bo.Y); ok && bo.X == idx && same(l) {
				switch bo.Op {
				case token.LSS:
					edge = cf.trueEdge
				case token.GEQ:
					edge = cf.falseEdge
				}
			}
			if l, ok := lenOperand(bo.X); ok && bo.Y == idx && same(l) {
				switch bo.Op {
				case token.GTR:
					edge = cf.trueEdge
				case token.LEQ:
					edge = cf.falseEdge
				}
			}
			if edge >= 0 && edgesDominate(f, []cfgEdge{{b, edge}}, blk) {
				return "bounded by the loop/test `" + idx.Name() + " < len(…)` on the same slice", true
			}
		}
	}
	return "", false
}

func nonNegative(v ssa.Value, depth int) bool {
	if depth > 6 {
		return false
	}
	switch x := v.(type) {
	case *ssa.Const:
		return isIntConst(x) && x.Int64() >= 0
	case *ssa.Phi:
		for _, e := range x.Edges {
			if e == v {
				continue
			}
			if bo, ok := e.(*ssa.BinOp); ok && bo.Op == token.ADD && bo.X == v {
				if k, ok := bo.Y.(*ssa.Const); ok && isIntConst(k) && k.Int64() >= 0 {
					continue
				}
			}
			if !nonNegative(e, depth+1) {
				return false
			}
		}
		return true
	case *ssa.BinOp:
		if x.Op == token.ADD {
			// the range-loop counter: i = phi(-1, i) + 1
			if ph, ok := x.X.(*ssa.Phi); ok {
				if k, ok := x.Y.(*ssa.Const); ok && isIntConst(k) && k.Int64() == 1 {
					good := true
					for _, e := range ph.Edges {
						if e == v {
							continue
						}
						if kc, ok := e.(*ssa.Const); ok && isIntConst(kc) && kc.Int64() >= -1 {
							continue
						}
						good = false
					}
					if good {
						return true
					}
				}
			}
			return nonNegative(x.X, depth+1) && nonNegative(x.Y, depth+1)
		}
	case *ssa.Call:
		if bi, ok := x.Call.Value.(*ssa.Builtin); ok && bi.Name() == "len" {
			return true
		}
	case *ssa.Convert:
		if bt, ok := x.X.Type().Underlying().(*types.Basic); ok && bt.Info()&types.IsUnsigned != 0 {
			return true
		}
		return nonNegative(x.X, depth+1)
	case *ssa.Parameter:
		// a parameter of an unexported function every caller of which passes a non-negative value
		if paramArgsHook != nil {
			args := paramArgsHook(x)
			if len(args) == 0 {
				return false
			}
			for _, a := range args {
				if !nonNegative(a, depth+1) {
					return false
				}
			}
			return true
		}
	}
	return false
}

// paramArgsHook resolves a parameter to the arguments of all its call sites (set by the rules
// that run with a Ctx: (*Ctx).boundArgs).
var paramArgsHook func(*ssa.Parameter) []ssa.Value

// testedNonNegative: a dominating `idx < 0` false edge or `idx >= 0` true edge.
func testedNonNegative(f *ssa.Function, idx ssa.Value, blk *ssa.BasicBlock) bool {
	for _, b := range f.Blocks {
		iff, ok := b.Instrs[len(b.Instrs)-1].(*ssa.If)
		if !ok {
			continue
		}
		for _, cf := range condFacts(iff.Cond, 0) {
			bo := cf.bo
			if bo.X != idx {
				continue
			}
			k, ok := bo.Y.(*ssa.Const)
			if !ok || !isIntConst(k) || k.Int64() != 0 {
				continue
			}
			edge := -1
			switch bo.Op {
			case token.LSS:
				edge = cf.falseEdge
			case token.GEQ:
				edge = cf.trueEdge
			}
			if edge >= 0 && edgesDominate(f, []cfgEdge{{b, edge}}, blk) {
				return true
			}
		}
	}
	return false
}

// ---------------------------------------------------------------------------------------
// M13b: allocation sizes taken from the input are bounded
// ---------------------------------------------------------------------------------------

func ruleM13b(c *Ctx) {
	c.doc("M13b", "a make([]T, n) in code reachable from an assembly whose length is not a constant and not computed from lengths of data already in memory (len/cap, sums and products of those with constants) is dominated by a comparison of n with a constant upper bound: a number written in the source (RESB 0x7fffffffffff) must not be turned into an allocation request the runtime answers with a fatal out-of-memory error")
	reach := c.reach()
	n := 0
	for _, f := range c.L.RepoFuncs() {
		if _, ok := reach[f]; !ok || c.isGeneratedFn(f) {
			continue
		}
		per := 0
		for _, b := range f.Blocks {
			for _, in := range b.Instrs {
				ms, ok := in.(*ssa.MakeSlice)
				if !ok {
					continue
				}
				if memoryProportional(ms.Len, 0) {
					continue
				}
				n++
				per++
				key := fmt.Sprintf("%s|make with a run-time length#%d", shortName(f), per)
				lv := ms.Len
				for {
					if cv, ok := lv.(*ssa.Convert); ok {
						lv = cv.X
						continue
					}
					break
				}
				bounded := upperBounded(f, lv, 1<<31-1, b) || upperBounded(f, ms.Len, 1<<31-1, b)
				if _, ok := valueLowerBound(f, lv, b); ok {
					bounded = true // n == k established by a switch/if
				}
				if reason, ok := confirmedPanicFree["M13b|"+strings.SplitN(key, "#", 2)[0]]; ok && !bounded {
					c.ok("M13b", key, c.L.Pos(instrPos(in)), "confirmed by reading: "+reason)
					continue
				}
				c.check(bounded, "M13b", key, c.L.Pos(instrPos(in)), shortName(f)+" allocates "+valName(ms.Len)+" elements with no upper bound on that value: a large number in the source is a fatal out-of-memory error")
			}
		}
	}
	c.analysed["M13b_dynamic_makes"] = n
	c.floor("M13b", 1)
}

// memoryProportional: constants, len()/cap() results and sums/products/differences of those.
func memoryProportional(v ssa.Value, depth int) bool {
	if depth > 8 {
		return false
	}
	switch x := v.(type) {
	case *ssa.Const:
		return true
	case *ssa.Call:
		if bi, ok := x.Call.Value.(*ssa.Builtin); ok && (bi.Name() == "len" || bi.Name() == "cap") {
			return true
		}
		// (*bytes.Buffer).Len and friends
		if strings.HasSuffix(calleeName(x.Common()), ").Len") {
			return true
		}
	case *ssa.BinOp:
		switch x.Op {
		case token.ADD, token.SUB, token.MUL:
			return memoryProportional(x.X, depth+1) && memoryProportional(x.Y, depth+1)
		case token.QUO, token.REM, token.SHR:
			// an integer quotient, remainder or right shift is no larger than the dividend
			return memoryProportional(x.X, depth+1)
		}
	case *ssa.Convert:
		return memoryProportional(x.X, depth+1)
	case *ssa.Phi:
		for _, e := range x.Edges {
			if !memoryProportional(e, depth+1) {
				return false
			}
		}
		return true
	}
	return false
}

// ---------------------------------------------------------------------------------------
// G13: nesting depth
// ---------------------------------------------------------------------------------------

func ruleG13(c *Ctx) {
	c.doc("G13", "a rule of the source grammar that opens a bracket and refers back to itself through the rules it calls (parenthesised expressions) carries a depth limit (a code predicate in the rule): the generated parser is recursive descent, each nesting level costs several stack frames, and the goroutine stack is the only bound — 10^5 nested parentheses are a fatal stack overflow")
	g := mainGrammar(c)
	if len(g.Errs) > 0 {
		c.anchorMissing("G13", fmt.Sprintf("source grammar (%v)", g.Errs))
		return
	}
	n := 0
	for _, r := range g.Order {
		rule := g.Rules[r]
		// a sequence: bracket literal … ref X … with X ⇒* r
		opens := false
		var back []string
		hasCode := false
		var walk func(e *pegNode)
		walk = func(e *pegNode) {
			if e == nil {
				return
			}
			switch e.Kind {
			case "lit":
				if e.Val == "(" || e.Val == "[" {
					opens = true
				}
			case "code":
				hasCode = true
			case "ref":
				if g.refClosure(e.Name)[r] {
					back = append(back, e.Name)
				}
			}
			for _, k := range e.Kids {
				walk(k)
			}
		}
		walk(rule)
		if !opens || len(back) == 0 {
			continue
		}
		n++
		c.check(hasCode, "G13", "grammar rule "+r+"|depth limit", c.L.Pos(rule.Pos.Pos()), fmt.Sprintf("rule %s opens a bracket and reaches itself again through %s with no depth limit: nesting depth is bounded only by the 1 GB goroutine stack", r, strings.Join(back, ", ")))
	}
	c.check(n >= 1, "G13", "recursive bracket rules found", "", fmt.Sprintf("%d", n))
}

// ---------------------------------------------------------------------------------------
// L13: slice expressions
// ---------------------------------------------------------------------------------------

func ruleL13(c *Ctx) {
	c.doc("L13", "every slice expression s[a:b] on a slice or string in gosk's own code with explicit bounds is covered: constant bounds lie within a length established by a dominating test or by construction, and a bound of the form len(s)−c is paired with a test that the length is at least the other bound plus c; otherwise a short operand (`[`, `0x`) is a slice-bounds panic")
	n := 0
	for _, f := range c.L.RepoFuncs() {
		if c.isGeneratedFn(f) || pkgRel(f) == "test" || strings.HasSuffix(c.L.Fset.Position(f.Pos()).Filename, "_enumer.go") || strings.HasSuffix(c.L.Fset.Position(f.Pos()).Filename, "test_helper.go") {
			continue
		}
		per := 0
		for _, b := range f.Blocks {
			for _, in := range b.Instrs {
				sl, ok := in.(*ssa.Slice)
				if !ok || (sl.Low == nil && sl.High == nil) {
					continue
				}
				if _, isPtr := sl.X.Type().Underlying().(*types.Pointer); isPtr {
					continue // slicing a fixed array: checked by the compiler for constants
				}
				if fn := c.L.Fset.Position(sl.Pos()).Filename; strings.HasSuffix(fn, "_enumer.go") || strings.HasSuffix(fn, "_test.go") {
					continue // generated by enumer
				}
				n++
				per++
				key := fmt.Sprintf("%s|slice expression#%d", shortName(f), per)
				why, ok := sliceExprCovered(f, sl, b)
				if !ok {
					if reason, frozen := confirmedPanicFree["L13|"+shortName(f)+"|"+srcSliceAt(c, f, sl.Pos())]; frozen {
						why, ok = "confirmed by reading: "+reason, true
					} else if idx := c.callIndex(); !idx.taken[f] && len(idx.sites[f]) > 0 && f.Parent() == nil {
						// the same expression moved into a helper that only the listed function calls
						all := true
						for _, ci := range idx.sites[f] {
							if r, ok := confirmedPanicFree["L13|"+shortName(ci.Parent())+"|"+srcSliceAt(c, f, sl.Pos())]; ok {
								reason = r
							} else {
								all = false
							}
						}
						if all {
							why, ok = "confirmed by reading (moved into "+f.Name()+"): "+reason, true
						}
					}
				}
				if ok {
					c.ok("L13", key, c.L.Pos(instrPos(in)), why)
				} else {
					c.fail("L13", key, c.L.Pos(instrPos(in)), fmt.Sprintf("%s slices %s with bounds that no test on the way relates to its length", shortName(f), srcSliceAt(c, f, sl.Pos())))
				}
			}
		}
	}
	c.analysed["L13_slice_expressions"] = n
	c.floor("L13", 10)
}

func srcSliceAt(c *Ctx, f *ssa.Function, pos token.Pos) string {
	if s, ok := srcIndex(c).slice[pos]; ok {
		return s
	}
	return "?"
}

func sliceExprCovered(f *ssa.Function, sl *ssa.Slice, blk *ssa.BasicBlock) (string, bool) {
	x := sl.X
	curUseBlock = blk
	// rest[:2] / rest[2:] while consuming a string of even length two characters at a time
	if why, ok := evenConsumeProof(f, sl, blk); ok {
		return why, true
	}
	// s[k*n : k*n+k] with n < len(s)/k, or s[i : i+k] with i stepping by k below a length that is a multiple of k
	if why, ok := strideWindowProof(f, sl, blk); ok {
		return why, true
	}
	constOf := func(v ssa.Value) (int64, bool) {
		if v == nil {
			return 0, true
		}
		if k, ok := v.(*ssa.Const); ok && isIntConst(k) {
			return k.Int64(), true
		}
		return 0, false
	}
	need := func(minLen int64) (string, bool) {
		if minLen <= 0 {
			return "no length needed", true
		}
		return indexCovered(f, x, minLen-1, blk)
	}
	lo, loK := constOf(sl.Low)
	// high = len(x) - c
	if bo, ok := sl.High.(*ssa.BinOp); ok && bo.Op == token.SUB {
		if l, ok := lenOperand(bo.X); ok {
			same := l == x || (lenKey(f, l) != "" && lenKey(f, l) == lenKey(f, x))
			if c2, ok := constOf(bo.Y); ok && same && loK {
				why, ok := need(lo + c2)
				return "s[" + fmt.Sprint(lo) + ":len-" + fmt.Sprint(c2) + "]; " + why, ok
			}
		}
	}
	if sl.High == nil && loK {
		return need(lo)
	}
	// s[:n] with n the count returned by a call that was handed s as its buffer (copy, Read,
	// Transform, ReadFull …): by those contracts n ≤ len(s)
	if loK && lo == 0 && sl.High != nil {
		var call *ssa.Call
		switch h := sl.High.(type) {
		case *ssa.Call:
			call = h
		case *ssa.Extract:
			if h.Index == 0 {
				call, _ = h.Tuple.(*ssa.Call)
			}
		}
		if call != nil {
			name := calleeOrDyn(call.Common())
			isFill := name == "copy" || strings.HasSuffix(name, ".Read") || strings.HasSuffix(name, "Read") || strings.HasSuffix(name, "Transform") || strings.HasSuffix(name, "io.ReadFull")
			if bi, ok := call.Call.Value.(*ssa.Builtin); ok && bi.Name() == "copy" {
				isFill = true
			}
			if isFill {
				for _, a := range call.Call.Args {
					if a == x {
						return "the upper bound is the count returned by " + name + ", which was given this slice as its buffer", true
					}
				}
			}
		}
	}
	if hi, ok := constOf(sl.High); ok && loK && sl.High != nil {
		if lo > hi {
			return "", false
		}
		return need(hi)
	}
	return "", false
}

// allElementsFlag proves `S[i].(T)` safe from an "all elements are T" flag: a boolean that starts
// true, is only ever lowered to false — on the not-ok branch of a comma-ok assertion to T of the
// value stored into S[j] in an earlier loop — and is tested (true) on every way to the assertion.
func allElementsFlag(f *ssa.Function, ta *ssa.TypeAssert, blk *ssa.BasicBlock) (string, bool) {
	load, ok := ta.X.(*ssa.UnOp)
	if !ok || load.Op != token.MUL {
		return "", false
	}
	ia, ok := load.X.(*ssa.IndexAddr)
	if !ok {
		return "", false
	}
	S := ia.X
	// comma-ok assertions to T of values that are stored into S[·] (or loaded from it)
	var oks []*ssa.Extract
	for _, b := range f.Blocks {
		for _, in := range b.Instrs {
			o, ok := in.(*ssa.TypeAssert)
			if !ok || !o.CommaOk || !types.Identical(o.AssertedType, ta.AssertedType) {
				continue
			}
			related := false
			for _, r := range *o.X.Referrers() {
				if st, ok := r.(*ssa.Store); ok && st.Val == o.X {
					if sia, ok := st.Addr.(*ssa.IndexAddr); ok && sia.X == S {
						related = true
					}
				}
			}
			if l2, ok := o.X.(*ssa.UnOp); ok && l2.Op == token.MUL {
				if ia2, ok := l2.X.(*ssa.IndexAddr); ok && ia2.X == S {
					related = true
				}
			}
			if !related {
				continue
			}
			for _, r := range *o.Referrers() {
				if ex, ok := r.(*ssa.Extract); ok && ex.Index == 1 {
					oks = append(oks, ex)
				}
			}
		}
	}
	if len(oks) == 0 {
		return "", false
	}
	// candidate flags: conditions of Ifs whose true edge lies on every way to blk
	for _, b := range f.Blocks {
		iff, ok := b.Instrs[len(b.Instrs)-1].(*ssa.If)
		if !ok || !edgesDominate(f, []cfgEdge{{b, 0}}, blk) {
			continue
		}
		L, ok := iff.Cond.(*ssa.Phi)
		if !ok {
			continue
		}
		if monotoneAllFlag(L, oks) {
			return "guarded by a flag that is lowered whenever an element of the slice fails the same assertion (all-elements invariant)", true
		}
	}
	return "", false
}

func monotoneAllFlag(L *ssa.Phi, oks []*ssa.Extract) bool {
	isConst := func(v ssa.Value, s string) bool {
		k, ok := v.(*ssa.Const)
		return ok && k.Value != nil && k.Value.String() == s
	}
	notOkSide := func(pred, phiBlock *ssa.BasicBlock) bool {
		for _, okv := range oks {
			for _, r := range *okv.Referrers() {
				if iff, ok := r.(*ssa.If); ok {
					nf := iff.Block().Succs[1]
					if nf == pred || nf.Dominates(pred) || (nf == phiBlock && pred == iff.Block()) {
						return true
					}
				}
			}
		}
		return false
	}
	sawTrue, lowered := false, false
	seen := map[*ssa.Phi]bool{}
	var walk func(P *ssa.Phi, top bool) bool
	walk = func(P *ssa.Phi, top bool) bool {
		if seen[P] {
			return true
		}
		seen[P] = true
		for i, e := range P.Edges {
			switch {
			case e == ssa.Value(L):
			case isConst(e, "true") && top:
				sawTrue = true
			case isConst(e, "false"):
				if !notOkSide(P.Block().Preds[i], P.Block()) {
					return false
				}
				lowered = true
			default:
				N, ok := e.(*ssa.Phi)
				if !ok || !walk(N, false) {
					return false
				}
			}
		}
		return true
	}
	return walk(L, true) && sawTrue && lowered
}

// fromTableRow: the value is computed from the Addend / Value / Reg / Rm text of an encoding row.
func fromTableRow(v ssa.Value, seen map[ssa.Value]bool, depth int) bool {
	if v == nil || seen[v] || depth > 12 {
		return false
	}
	seen[v] = true
	if fa, ok := v.(*ssa.FieldAddr); ok {
		switch fieldName(fa) {
		case "Addend", "Value", "Reg", "Rm":
			if n, _ := namedOf(fa.X.Type()); n == "Opcode" || n == "Immediate" || n == "Modrm" {
				return true
			}
		}
	}
	if in, ok := v.(ssa.Instruction); ok {
		for _, op := range in.Operands(nil) {
			if op != nil && *op != nil && fromTableRow(*op, seen, depth+1) {
				return true
			}
		}
	}
	return false
}

// specialIndexProof decides two idioms that need more than a dominating comparison:
//
//	(a) X[k+p] inside the comparator handed to sort.Slice*(X[k:], less): p ranges over X[k:]
//	(b) X[t] where t is a phi of a sentinel −1 and indexes of callbacks over X itself, under `t != -1`
func specialIndexProof(f *ssa.Function, x, idx ssa.Value, blk *ssa.BasicBlock) (string, bool) {
	// (a)
	if bo, ok := idx.(*ssa.BinOp); ok && bo.Op == token.ADD && f.Parent() != nil {
		var k *ssa.Const
		var prm *ssa.Parameter
		for _, pair := range [][2]ssa.Value{{bo.X, bo.Y}, {bo.Y, bo.X}} {
			if kc, ok := pair[0].(*ssa.Const); ok && isIntConst(kc) {
				if pp, ok := pair[1].(*ssa.Parameter); ok {
					k, prm = kc, pp
				}
			}
		}
		if k != nil && prm != nil {
			// x is a load of a free variable; find the MakeClosure in the parent and the sort call
			if load, ok := x.(*ssa.UnOp); ok && load.Op == token.MUL {
				if fv, ok := load.X.(*ssa.FreeVar); ok {
					parent := f.Parent()
					for _, pb := range parent.Blocks {
						for _, pin := range pb.Instrs {
							call, ok := pin.(*ssa.Call)
							if !ok || !strings.HasPrefix(calleeName(call.Common()), "sort.Slice") || len(call.Call.Args) != 2 {
								continue
							}
							mc, ok := call.Call.Args[1].(*ssa.MakeClosure)
							if !ok || mc.Fn != ssa.Value(f) {
								continue
							}
							// binding of fv
							var bound ssa.Value
							for i, fvv := range f.FreeVars {
								if fvv == fv && i < len(mc.Bindings) {
									bound = mc.Bindings[i]
								}
							}
							a0 := call.Call.Args[0]
							if mi, ok := a0.(*ssa.MakeInterface); ok {
								a0 = mi.X
							}
							sl, ok := a0.(*ssa.Slice)
							if !ok || sl.High != nil {
								continue
							}
							lk, ok := sl.Low.(*ssa.Const)
							if !ok || !isIntConst(lk) || lk.Int64() != k.Int64() {
								continue
							}
							// sl.X is a load of the same variable the closure captured
							if l2, ok := sl.X.(*ssa.UnOp); ok && l2.Op == token.MUL && l2.X == bound {
								return fmt.Sprintf("comparator of %s over this slice from index %d: its arguments range over that window", calleeName(call.Common()), k.Int64()), true
							}
						}
					}
				}
			}
		}
	}
	// (b)
	if ph, ok := idx.(*ssa.Phi); ok {
		sentinel := false
		// every edge is −1, the index of an indexed callback over x, or a value that is a
		// bounded index of x where the edge leaves its predecessor (the index of a range loop
		// over x); joins of such values are looked through
		var edgesOK func(p *ssa.Phi, seen map[*ssa.Phi]bool) bool
		edgesOK = func(p *ssa.Phi, seen map[*ssa.Phi]bool) bool {
			if seen[p] {
				return true
			}
			seen[p] = true
			for i, e := range p.Edges {
				if kc, ok := e.(*ssa.Const); ok && isIntConst(kc) && kc.Int64() == -1 {
					sentinel = true
					continue
				}
				if ip, ok := e.(*ssa.Phi); ok && ip.Block() != p.Block() {
					if isLoopHeaderPhi(ip) {
						return false
					}
					if edgesOK(ip, seen) {
						continue
					}
					return false
				}
				switch e.(type) {
				case *ssa.Parameter, *ssa.FreeVar, *ssa.UnOp:
					if callbackIndexOver(f, e, x) {
						continue
					}
				}
				if i < len(p.Block().Preds) {
					saved := curUseBlock
					_, ok := varIndexCovered(f, x, e, p.Block().Preds[i])
					curUseBlock = saved
					if ok {
						continue
					}
				}
				return false
			}
			return true
		}
		if !edgesOK(ph, map[*ssa.Phi]bool{}) {
			return "", false
		}
		if sentinel {
			// dominating test idx != -1
			for _, b := range f.Blocks {
				iff, ok := b.Instrs[len(b.Instrs)-1].(*ssa.If)
				if !ok {
					continue
				}
				bo, ok := iff.Cond.(*ssa.BinOp)
				if !ok || bo.X != idx {
					continue
				}
				kc, ok := bo.Y.(*ssa.Const)
				if !ok || !isIntConst(kc) || kc.Int64() != -1 {
					continue
				}
				edge := -1
				switch bo.Op {
				case token.NEQ:
					edge = 0
				case token.EQL:
					edge = 1
				}
				if edge >= 0 && edgesDominate(f, []cfgEdge{{b, edge}}, blk) {
					return "the index is −1 or the index of an enclosing indexed callback over this very slice, and −1 is excluded by a test", true
				}
			}
		}
	}
	return "", false
}

// callbackIndexOver: v is (a load of a captured) index parameter of a function literal passed,
// as last argument, to a call whose first argument is the slice x refers to — in this function
// or in an enclosing one.
func callbackIndexOver(f *ssa.Function, v, x ssa.Value) bool {
	xkey := capturedName(x)
	if xkey == "" {
		return false
	}
	name := ""
	switch e := v.(type) {
	case *ssa.Parameter:
		name = e.Name()
	case *ssa.FreeVar:
		name = e.Name()
	case *ssa.UnOp:
		if fv, ok := e.X.(*ssa.FreeVar); ok {
			name = fv.Name()
		}
	}
	if name == "" {
		return false
	}
	// walk outwards: some enclosing function literal has a parameter of that name and was passed
	// to a call over the slice of that name
	for g := f; g != nil && g.Parent() != nil; g = g.Parent() {
		isParam := false
		for _, prm := range g.Params {
			if prm.Name() == name {
				isParam = true
			}
		}
		if !isParam {
			continue
		}
		parent := g.Parent()
		for _, pb := range parent.Blocks {
			for _, pin := range pb.Instrs {
				call, ok := pin.(*ssa.Call)
				if !ok || len(call.Call.Args) < 2 {
					continue
				}
				last := call.Call.Args[len(call.Call.Args)-1]
				mc, ok := last.(*ssa.MakeClosure)
				if !ok {
					if fn, ok := last.(*ssa.Function); !ok || fn != g {
						continue
					}
				} else if mc.Fn != ssa.Value(g) {
					continue
				}
				if capturedName(call.Call.Args[0]) == xkey {
					return true
				}
			}
		}
	}
	return false
}

// capturedName: the source-level variable a slice value is (parameter, captured variable or a load of one).
func capturedName(v ssa.Value) string {
	switch e := v.(type) {
	case *ssa.Parameter:
		return e.Name()
	case *ssa.FreeVar:
		return e.Name()
	case *ssa.UnOp:
		if e.Op == token.MUL {
			switch a := e.X.(type) {
			case *ssa.FreeVar:
				return a.Name()
			case *ssa.Alloc:
				return a.Comment
			}
		}
	}
	return ""
}

// loopBuiltFrom: P is the loop-header phi of a slice that starts empty and gets exactly one
// append per round of a range loop over Y; returns Y and the loop's exit edge.
func loopBuiltFrom(P *ssa.Phi) (ssa.Value, cfgEdge, bool) {
	if _, ok := P.Type().Underlying().(*types.Slice); !ok || len(P.Edges) != 2 {
		return nil, cfgEdge{}, false
	}
	var back *ssa.Call
	emptyInit := false
	for _, e := range P.Edges {
		switch x := e.(type) {
		case *ssa.Call:
			if bi, ok := x.Call.Value.(*ssa.Builtin); ok && bi.Name() == "append" && len(x.Call.Args) == 2 && x.Call.Args[0] == ssa.Value(P) {
				// append(P, one element): the variadic argument is a one-element slice literal
				if sl, ok := x.Call.Args[1].(*ssa.Slice); ok {
					if n, ok := staticLen(sl); ok && n == 1 {
						back = x
					}
				}
			}
		case *ssa.MakeSlice:
			if k, ok := x.Len.(*ssa.Const); ok && isIntConst(k) && k.Int64() == 0 {
				emptyInit = true
			}
		case *ssa.Const:
			if x.IsNil() {
				emptyInit = true
			}
		case *ssa.Slice:
			if n, ok := staticLen(x); ok && n == 0 {
				emptyInit = true
			}
		}
	}
	if back == nil || !emptyInit {
		return nil, cfgEdge{}, false
	}
	hdr := P.Block()
	iff, ok := hdr.Instrs[len(hdr.Instrs)-1].(*ssa.If)
	if !ok {
		return nil, cfgEdge{}, false
	}
	cond, ok := iff.Cond.(*ssa.BinOp)
	if !ok || cond.Op != token.LSS {
		return nil, cfgEdge{}, false
	}
	y, ok := lenOperand(cond.Y)
	if !ok {
		return nil, cfgEdge{}, false
	}
	if !nonNegative(cond.X, 0) || !countsByOne(cond.X) {
		return nil, cfgEdge{}, false
	}
	return y, cfgEdge{hdr, 1}, true
}

// countsByOne: i is the range counter (phi(-1, i)+1) or phi(0, i+1).
func countsByOne(v ssa.Value) bool {
	if bo, ok := v.(*ssa.BinOp); ok && bo.Op == token.ADD {
		if ph, ok := bo.X.(*ssa.Phi); ok {
			if k, ok := bo.Y.(*ssa.Const); ok && isIntConst(k) && k.Int64() == 1 {
				for _, e := range ph.Edges {
					if e == v {
						continue
					}
					if kc, ok := e.(*ssa.Const); !ok || !isIntConst(kc) || kc.Int64() != -1 {
						return false
					}
				}
				return true
			}
		}
	}
	if ph, ok := v.(*ssa.Phi); ok {
		okInit, okStep := false, false
		for _, e := range ph.Edges {
			if kc, ok := e.(*ssa.Const); ok && isIntConst(kc) && kc.Int64() == 0 {
				okInit = true
				continue
			}
			if bo, ok := e.(*ssa.BinOp); ok && bo.Op == token.ADD && bo.X == ssa.Value(ph) {
				if k, ok := bo.Y.(*ssa.Const); ok && isIntConst(k) && k.Int64() == 1 {
					okStep = true
					continue
				}
			}
			return false
		}
		return okInit && okStep
	}
	return false
}

// condFact: a comparison that is known to hold on one successor of an If and/or known to fail
// on the other. `if a && b` (lowered by go/ssa to a phi of false … b) makes a and b hold on the
// true successor; `if a || b` makes both fail on the false successor; `!c` swaps.
type condFact struct {
	bo                  *ssa.BinOp
	trueEdge, falseEdge int // successor index where bo holds / fails; −1 when unknown
}

func condFacts(cond ssa.Value, depth int) []condFact {
	if depth > 6 {
		return nil
	}
	switch x := cond.(type) {
	case *ssa.BinOp:
		return []condFact{{x, 0, 1}}
	case *ssa.UnOp:
		if x.Op == token.NOT {
			var out []condFact
			for _, cf := range condFacts(x.X, depth+1) {
				out = append(out, condFact{cf.bo, cf.falseEdge, cf.trueEdge})
			}
			return out
		}
	case *ssa.Phi:
		allFalse, allTrue := true, true
		var rest []ssa.Value
		for _, e := range x.Edges {
			if k, ok := e.(*ssa.Const); ok && k.Value != nil {
				if k.Value.String() == "false" {
					allTrue = false
					continue
				}
				if k.Value.String() == "true" {
					allFalse = false
					continue
				}
			}
			rest = append(rest, e)
		}
		// the conjuncts / disjuncts evaluated before the last one are the conditions of the Ifs
		// that lead into the phi's block; they hold (fail) as well
		var out []condFact
		if allFalse && len(rest) >= 1 { // a && b && …
			for _, e := range rest {
				for _, cf := range condFacts(e, depth+1) {
					out = append(out, condFact{cf.bo, cf.trueEdge, -1})
				}
			}
			for i, e := range x.Edges {
				if k, ok := e.(*ssa.Const); ok && k.Value != nil && k.Value.String() == "false" {
					pred := x.Block().Preds[i]
					if iff, ok := pred.Instrs[len(pred.Instrs)-1].(*ssa.If); ok {
						for _, cf := range condFacts(iff.Cond, depth+1) {
							out = append(out, condFact{cf.bo, cf.trueEdge, -1})
						}
					}
				}
			}
		}
		if allTrue && len(rest) >= 1 { // a || b || …
			for _, e := range rest {
				for _, cf := range condFacts(e, depth+1) {
					out = append(out, condFact{cf.bo, -1, cf.falseEdge})
				}
			}
			for i, e := range x.Edges {
				if k, ok := e.(*ssa.Const); ok && k.Value != nil && k.Value.String() == "true" {
					pred := x.Block().Preds[i]
					if iff, ok := pred.Instrs[len(pred.Instrs)-1].(*ssa.If); ok {
						for _, cf := range condFacts(iff.Cond, depth+1) {
							out = append(out, condFact{cf.bo, -1, cf.falseEdge})
						}
					}
				}
			}
		}
		return out
	}
	return nil
}

// evenConsumeProof: s[:2] or s[2:] where s is known to be non-empty and of even length: s is the
// original string X (a dominating test rejects odd len(X)) or what is left of it after dropping
// two characters at a time.
func evenConsumeProof(f *ssa.Function, sl *ssa.Slice, blk *ssa.BasicBlock) (string, bool) {
	two := func(v ssa.Value) bool {
		k, ok := v.(*ssa.Const)
		return ok && isIntConst(k) && k.Int64() == 2
	}
	if !((sl.Low == nil && two(sl.High)) || (sl.High == nil && two(sl.Low))) {
		return "", false
	}
	if !evenLength(f, sl.X, blk, map[ssa.Value]bool{}) {
		return "", false
	}
	if why, ok := indexCovered(f, sl.X, 0, blk); ok { // non-empty
		return "the string has even length (tested) and is not empty here, so it has at least two characters; " + why, true
	}
	return "", false
}

func evenLength(f *ssa.Function, v ssa.Value, blk *ssa.BasicBlock, seen map[ssa.Value]bool) bool {
	if seen[v] {
		return true
	}
	seen[v] = true
	switch x := v.(type) {
	case *ssa.Phi:
		for _, e := range x.Edges {
			if !evenLength(f, e, blk, seen) {
				return false
			}
		}
		return true
	case *ssa.Slice:
		// w[2:] of an even-length w
		if k, ok := x.Low.(*ssa.Const); ok && isIntConst(k) && k.Int64()%2 == 0 && x.High == nil {
			return evenLength(f, x.X, blk, seen)
		}
		return false
	}
	// a dominating `len(v) % 2 != 0` → exit (or == 0 true edge)
	for _, b := range f.Blocks {
		iff, ok := b.Instrs[len(b.Instrs)-1].(*ssa.If)
		if !ok {
			continue
		}
		for _, cf := range condFacts(iff.Cond, 0) {
			bo := cf.bo
			rem, ok := bo.X.(*ssa.BinOp)
			if !ok || rem.Op != token.REM {
				continue
			}
			l, ok := lenOperand(rem.X)
			if !ok || !(l == v || (lenKey(f, l) != "" && lenKey(f, l) == lenKey(f, v))) {
				continue
			}
			k2, ok := rem.Y.(*ssa.Const)
			if !ok || !isIntConst(k2) || k2.Int64() != 2 {
				continue
			}
			kz, ok := bo.Y.(*ssa.Const)
			if !ok || !isIntConst(kz) || kz.Int64() != 0 {
				continue
			}
			edge := -1
			switch bo.Op {
			case token.NEQ:
				edge = cf.falseEdge
			case token.EQL:
				edge = cf.trueEdge
			}
			if edge >= 0 && edgesDominate(f, []cfgEdge{{b, edge}}, blk) {
				return true
			}
		}
	}
	return false
}

// isLoopHeaderPhi: one of the phi's edges is computed from the phi itself (a loop-carried value).
func isLoopHeaderPhi(p *ssa.Phi) bool {
	for _, e := range p.Edges {
		seen := map[ssa.Value]bool{}
		var dep func(v ssa.Value, d int) bool
		dep = func(v ssa.Value, d int) bool {
			if v == ssa.Value(p) {
				return true
			}
			if d > 6 || seen[v] {
				return false
			}
			seen[v] = true
			if in, ok := v.(ssa.Instruction); ok {
				for _, op := range in.Operands(nil) {
					if *op != nil && dep(*op, d+1) {
						return true
					}
				}
			}
			return false
		}
		if e != ssa.Value(p) && dep(e, 0) {
			return true
		}
	}
	return false
}

// strideWindowProof decides the two ways of walking a string or slice in windows of k elements:
//   - s[k*n : k*n+k] where n is tested to be below len(X) and X was made with len(s)/k elements
//     (k*n+k <= k*(len(s)/k) <= len(s));
//   - s[i : i+k] where i starts at 0, is advanced by k only, is tested to be below len(s), and
//     len(s)%k == 0 has been established (i is a multiple of k below a multiple of k).
func strideWindowProof(f *ssa.Function, sl *ssa.Slice, blk *ssa.BasicBlock) (string, bool) {
	if sl.Low == nil || sl.High == nil || sl.Max != nil {
		return "", false
	}
	same := func(a ssa.Value) bool {
		if a == sl.X {
			return true
		}
		ka, kx := lenKey(f, a), lenKey(f, sl.X)
		return ka != "" && ka == kx
	}
	strip := func(v ssa.Value) ssa.Value {
		for {
			cv, ok := v.(*ssa.Convert)
			if !ok {
				return v
			}
			v = cv.X
		}
	}
	hb, ok := sl.High.(*ssa.BinOp)
	if !ok || hb.Op != token.ADD {
		return "", false
	}
	var k int64
	var hbase ssa.Value
	if kc, ok := hb.Y.(*ssa.Const); ok && isIntConst(kc) {
		k, hbase = kc.Int64(), hb.X
	} else if kc, ok := hb.X.(*ssa.Const); ok && isIntConst(kc) {
		k, hbase = kc.Int64(), hb.Y
	}
	if k < 1 {
		return "", false
	}
	// mulOf: v == k*n
	mulOf := func(v ssa.Value) ssa.Value {
		m, ok := v.(*ssa.BinOp)
		if !ok || m.Op != token.MUL {
			return nil
		}
		if kc, ok := m.X.(*ssa.Const); ok && isIntConst(kc) && kc.Int64() == k {
			return m.Y
		}
		if kc, ok := m.Y.(*ssa.Const); ok && isIntConst(kc) && kc.Int64() == k {
			return m.X
		}
		return nil
	}
	// dominating test  a < len(X)
	boundedBy := func(a ssa.Value, accept func(X ssa.Value) bool) bool {
		for _, b := range f.Blocks {
			iff, ok := b.Instrs[len(b.Instrs)-1].(*ssa.If)
			if !ok {
				continue
			}
			for _, cf := range condFacts(iff.Cond, 0) {
				bo := cf.bo
				edge := -1
				var X ssa.Value
				if l, ok := lenOperand(bo.Y); ok && bo.X == a {
					X = l
					switch bo.Op {
					case token.LSS:
						edge = cf.trueEdge
					case token.GEQ:
						edge = cf.falseEdge
					}
				}
				if l, ok := lenOperand(bo.X); ok && bo.Y == a {
					X = l
					switch bo.Op {
					case token.GTR:
						edge = cf.trueEdge
					case token.LEQ:
						edge = cf.falseEdge
					}
				}
				if edge >= 0 && X != nil && accept(X) && edgesDominate(f, []cfgEdge{{b, edge}}, blk) {
					return true
				}
			}
		}
		return false
	}
	// form 1
	if n := mulOf(sl.Low); n != nil && mulOf(hbase) == n && nonNegative(n, 0) {
		ok := boundedBy(n, func(X ssa.Value) bool {
			ms, ok := X.(*ssa.MakeSlice)
			if !ok {
				return false
			}
			q, ok := strip(ms.Len).(*ssa.BinOp)
			if !ok || q.Op != token.QUO {
				return false
			}
			kc, ok := q.Y.(*ssa.Const)
			if !ok || !isIntConst(kc) || kc.Int64() != k {
				return false
			}
			l, ok := lenOperand(strip(q.X))
			return ok && same(l)
		})
		if ok {
			return fmt.Sprintf("window %d*n of a counter below len/%d of the same value", k, k), true
		}
	}
	// form 2
	if ph, ok := sl.Low.(*ssa.Phi); ok && hbase == ssa.Value(ph) && len(ph.Edges) == 2 {
		zero, step := false, false
		for _, e := range ph.Edges {
			if kc, ok := e.(*ssa.Const); ok && isIntConst(kc) && kc.Int64() == 0 {
				zero = true
			}
			if bo, ok := e.(*ssa.BinOp); ok && bo.Op == token.ADD && bo.X == ssa.Value(ph) {
				if kc, ok := bo.Y.(*ssa.Const); ok && isIntConst(kc) && kc.Int64() == k {
					step = true
				}
			}
		}
		if zero && step && boundedBy(ph, same) && lengthMultipleOf(f, sl.X, k, blk, same) {
			return fmt.Sprintf("index advances by %d below a length tested to be a multiple of %d", k, k), true
		}
	}
	return "", false
}

// lengthMultipleOf: a dominating test establishes len(x)%k == 0.
func lengthMultipleOf(f *ssa.Function, x ssa.Value, k int64, blk *ssa.BasicBlock, same func(ssa.Value) bool) bool {
	for _, b := range f.Blocks {
		iff, ok := b.Instrs[len(b.Instrs)-1].(*ssa.If)
		if !ok {
			continue
		}
		for _, cf := range condFacts(iff.Cond, 0) {
			bo := cf.bo
			rem, ok := bo.X.(*ssa.BinOp)
			zc, ok2 := bo.Y.(*ssa.Const)
			if !ok || !ok2 || rem.Op != token.REM || !isIntConst(zc) || zc.Int64() != 0 {
				continue
			}
			kc, ok := rem.Y.(*ssa.Const)
			if !ok || !isIntConst(kc) || kc.Int64() != k {
				continue
			}
			l, ok := lenOperand(rem.X)
			if !ok || !same(l) {
				continue
			}
			edge := -1
			switch bo.Op {
			case token.EQL:
				edge = cf.trueEdge
			case token.NEQ:
				edge = cf.falseEdge
			}
			if edge >= 0 && edgesDominate(f, []cfgEdge{{b, edge}}, blk) {
				return true
			}
		}
	}
	return false
}
