package main

// goskvet — repository-specific static checker for the gosk properties C01..C19.
//
//   goskvet [-repo /repo] [-verif /verif] <Cxx> <quick|thorough>
//   goskvet -replay <report.json>
//   goskvet -list
//
// Nothing in /repo is executed; the verdict is computed from the type-checked source.

import (
	"encoding/json"
	"flag"
	"fmt"
	"os"
	"runtime/debug"
	"sort"
	"strconv"
	"time"
)

type ruleFn func(c *Ctx)

type propDef struct {
	rules []ruleFn
	note  string
}

var props = map[string]*propDef{}

func register(prop string, note string, rules ...ruleFn) {
	props[prop] = &propDef{rules: rules, note: note}
}

func main() {
	repo := flag.String("repo", "/repo", "repository root")
	verif := flag.String("verif", "/verif", "verification directory")
	replay := flag.String("replay", "", "re-run the rule instance recorded in a violation report")
	list := flag.Bool("list", false, "list properties")
	quiet := flag.Bool("q", false, "do not print per-rule summary")
	dump := flag.Bool("all", false, "print every obligation")
	variantID := flag.String("variant", "", "analyse the tree with one self-test variant applied in memory and print FAILKEY lines (never writes evidence)")
	flag.Parse()

	if *list {
		var ids []string
		for id := range props {
			ids = append(ids, id)
		}
		sort.Strings(ids)
		for _, id := range ids {
			fmt.Println(id)
		}
		return
	}

	var prop, tier, onlyKey string
	if *replay != "" {
		b, err := os.ReadFile(*replay)
		if err != nil {
			fmt.Println("ERROR:", err)
			os.Exit(2)
		}
		var rep struct{ Property, Key, Tier string }
		if err := json.Unmarshal(b, &rep); err != nil {
			fmt.Println("ERROR:", err)
			os.Exit(2)
		}
		prop, tier, onlyKey = rep.Property, rep.Tier, rep.Key
	} else {
		if flag.NArg() < 1 {
			fmt.Println("usage: goskvet <Cxx> <quick|thorough>")
			os.Exit(2)
		}
		prop = flag.Arg(0)
		tier = "quick"
		if flag.NArg() > 1 {
			tier = flag.Arg(1)
		}
		if t := os.Getenv("VERIF_TIER"); t != "" && flag.NArg() < 2 {
			tier = t
		}
	}
	if tier != "quick" && tier != "thorough" {
		fmt.Println("ERROR: tier must be quick or thorough")
		os.Exit(2)
	}
	if prop == "ALL" && *variantID == "" && onlyKey == "" {
		// one load, every property in turn (used for sweeps over seeded changes); each property
		// still gets its own obligations, verdict lines and evidence file
		l, err := loadRepo(*repo, nil)
		var ids []string
		for id := range props {
			ids = append(ids, id)
		}
		sort.Strings(ids)
		rc := 0
		for _, id := range ids {
			procStart = time.Now()
			fbCache = nil
			c := newCtx(id, tier, l, *verif)
			c.quiet = *quiet
			if err != nil {
				c.L = &Loaded{Root: *repo}
				c.doc("load", "the repository loads and type-checks with zero errors")
				c.fail("load", "packages", "", err.Error())
			} else {
				c.ok("load", "packages", "", fmt.Sprintf("%d repository packages", len(l.Pkgs)))
				for _, r := range props[id].rules {
					runRule(c, r)
				}
			}
			if x := c.finish(""); x > rc {
				rc = x
			}
		}
		os.Exit(rc)
	}
	pd := props[prop]
	if pd == nil {
		fmt.Println("ERROR: unknown property", prop)
		os.Exit(2)
	}

	var overlay map[string][]byte
	if *variantID != "" {
		vs, verr := loadVariants(*verif)
		if verr != nil {
			fmt.Println("ERROR:", verr)
			os.Exit(2)
		}
		for _, v := range vs {
			if v.ID == *variantID {
				ov, ok := overlayFor(*repo, v)
				if !ok {
					fmt.Println("SKIPPED variant edit not locatable")
					os.Exit(0)
				}
				overlay = ov
			}
		}
		if overlay == nil {
			fmt.Println("ERROR: unknown variant", *variantID)
			os.Exit(2)
		}
	}
	l, err := loadRepo(*repo, overlay)
	c := newCtx(prop, tier, l, *verif)
	c.variant = *variantID
	c.quiet = *quiet
	c.dump = *dump
	if s, e := strconv.Atoi(os.Getenv("VERIF_SEED")); e == nil {
		c.Seed = s
	}
	if pd.note != "" {
		c.notes = append(c.notes, pd.note)
	}
	if err != nil {
		// a tree that does not load or type-check cannot be judged: fail closed
		c.L = &Loaded{Root: *repo}
		c.doc("load", "the repository loads and type-checks with zero errors")
		c.fail("load", "packages", "", err.Error())
		if *variantID != "" {
			c.printFailKeys()
			os.Exit(0)
		}
		os.Exit(c.finish(onlyKey))
	}
	c.doc("load", "the repository loads and type-checks with zero errors")
	c.ok("load", "packages", "", fmt.Sprintf("%d repository packages, %d packages incl. dependencies", len(l.Pkgs), len(l.ByPth)))
	c.analysed["packages"] = len(l.Pkgs)
	c.analysed["packages_with_deps"] = len(l.ByPth)

	for _, r := range pd.rules {
		runRule(c, r)
	}
	if l.Prog != nil {
		c.analysed["ssa_functions_in_repo"] = len(l.RepoFuncs())
	}
	if c.variant != "" {
		c.printFailKeys()
		os.Exit(0)
	}
	if onlyKey == "" {
		// quick: positive controls for the rules whose expected count on /repo is zero;
		// thorough: the whole self-validation suite
		selfValidate(c, *repo, tier != "thorough")
	}
	os.Exit(c.finish(onlyKey))
}

// runRule runs one rule; a panic inside the analyser is a failed obligation, never a pass.
func runRule(c *Ctx, r ruleFn) {
	defer func() {
		if e := recover(); e != nil {
			c.fail("analyser-panic", fmt.Sprintf("%v", e), "", string(debug.Stack()))
		}
	}()
	r(c)
}
