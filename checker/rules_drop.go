package main

// P2 / P2b / P2c / T12: nothing is dropped silently (C07).

import (
	"fmt"
	"go/ast"
	"go/constant"
	"go/token"
	"go/types"
	"sort"
	"strings"

	"golang.org/x/tools/go/ssa"
)

// pass1Handlers: the functions registered in the handler map plus the same-package functions
// they call that take *Pass1 as first parameter (common bodies).
func pass1Handlers(c *Ctx) (map[*ssa.Function]bool, *handlerMap) {
	p1 := c.L.Pkg("internal/pass1")
	if p1 == nil {
		return nil, nil
	}
	hm := interpretHandlers(p1)
	out := map[*ssa.Function]bool{}
	sp := c.L.SSAPkg("internal/pass1")
	var work []*ssa.Function
	for _, e := range hm.Entries {
		if f := sp.Prog.FuncValue(e.Target); f != nil && !out[f] {
			out[f] = true
			work = append(work, f)
		}
	}
	for len(work) > 0 {
		f := work[len(work)-1]
		work = work[:len(work)-1]
		callsIn(f, func(ci ssa.CallInstruction) {
			g := ci.Common().StaticCallee()
			if g == nil || g.Pkg != sp || out[g] || g.Signature.Params().Len() == 0 {
				return
			}
			// a callee that hands values back leaves the statement with its caller: it computes, the
			// caller still has to emit or diagnose
			if g.Signature.Results().Len() > 0 {
				return
			}
			if namedTypeIs(g.Signature.Params().At(0).Type(), "internal/pass1", "Pass1") && g.Signature.Recv() == nil {
				out[g] = true
				work = append(work, g)
			}
		})
	}
	return out, hm
}

// diagnosingCallees: repo functions returning an error all of whose failing returns are
// preceded by an error-level diagnostic (directly or by propagation from such a callee).
func diagnosingCallees(c *Ctx, d *diagInfo) map[*ssa.Function]bool {
	out := map[*ssa.Function]bool{}
	errT := types.Universe.Lookup("error").Type()
	var cands []*ssa.Function
	for _, f := range c.L.RepoFuncs() {
		if c.isGeneratedFn(f) || f.Blocks == nil {
			continue
		}
		res := f.Signature.Results()
		if res.Len() > 0 && types.Identical(res.At(res.Len()-1).Type(), errT) {
			cands = append(cands, f)
		}
		// (value, ok bool) helpers of this repository: a return with ok == false is the failure
		if res.Len() >= 2 && isBoolType(res.At(res.Len()-1).Type()) && strings.HasPrefix(funcName(f), modPath) {
			cands = append(cands, f)
		}
	}
	for changed := true; changed; {
		changed = false
		for _, f := range cands {
			if out[f] {
				continue
			}
			ok := true
			diag := diagBlocks(d, f, out)
			res := f.Signature.Results()
			for _, b := range f.Blocks {
				ret, isRet := b.Instrs[len(b.Instrs)-1].(*ssa.Return)
				if !isRet {
					continue
				}
				ev := ret.Results[res.Len()-1]
				if k, isK := ev.(*ssa.Const); isK && k.IsNil() {
					continue
				}
				if k, isK := ev.(*ssa.Const); isK && k.Value != nil && k.Value.Kind() == constant.Bool {
					if constant.BoolVal(k.Value) {
						continue // ok == true: success
					}
				} else if isBoolType(ev.Type()) {
					// a computed ok value: not a function whose failures are all diagnosed here
					ok = false
					continue
				}
				if !dominatedByAny(b, diag) {
					ok = false
				}
			}
			if ok {
				out[f] = true
				changed = true
			}
		}
	}
	return out
}

// diagBlocks: blocks of f in which a diagnostic is certain to have been issued: blocks with a
// diagnostic call, and the error branches of calls to diagnosing callees.
func diagBlocks(d *diagInfo, f *ssa.Function, diagnosing map[*ssa.Function]bool) map[*ssa.BasicBlock]bool {
	out := map[*ssa.BasicBlock]bool{}
	for _, b := range f.Blocks {
		for _, in := range b.Instrs {
			ci, ok := in.(ssa.CallInstruction)
			if !ok {
				continue
			}
			if d.isDiagnosticCall(ci.Common()) {
				out[b] = true
			}
			if g := ci.Common().StaticCallee(); g != nil && diagnosing[g] {
				for eb := range errBranchBlocks(ci) {
					out[eb] = true
				}
			}
		}
	}
	return out
}

func dominatedByAny(b *ssa.BasicBlock, set map[*ssa.BasicBlock]bool) bool {
	for x := range set {
		if x.Dominates(b) {
			return true
		}
	}
	return false
}

// emits reports whether a call certainly leads to Client.Emit: the interface method itself,
// or a same-package helper all of whose returns are dominated by such a call.
func emitSummaries(c *Ctx, handlers map[*ssa.Function]bool) map[*ssa.Function]bool {
	sp := c.L.SSAPkg("internal/pass1")
	always := map[*ssa.Function]bool{}
	var fns []*ssa.Function
	for _, m := range sp.Members {
		if f, ok := m.(*ssa.Function); ok && f.Blocks != nil {
			fns = append(fns, f)
		}
	}
	// methods of the package's types as well (a helper may be written as a method of *Pass1)
	for _, f := range c.L.RepoFuncs() {
		if f.Pkg == sp && f.Blocks != nil && f.Signature.Recv() != nil && f.Parent() == nil {
			fns = append(fns, f)
		}
	}
	sortFuncs(fns)
	for changed := true; changed; {
		changed = false
		for _, f := range fns {
			if always[f] {
				continue
			}
			eb := emitBlocks(f, always)
			ok := true
			for _, b := range f.Blocks {
				if _, isRet := b.Instrs[len(b.Instrs)-1].(*ssa.Return); isRet && !dominatedByAny(b, eb) {
					ok = false
				}
			}
			if ok && len(eb) > 0 {
				always[f] = true
				changed = true
			}
		}
	}
	return always
}

func emitBlocks(f *ssa.Function, always map[*ssa.Function]bool) map[*ssa.BasicBlock]bool {
	out := map[*ssa.BasicBlock]bool{}
	for _, b := range f.Blocks {
		for _, in := range b.Instrs {
			ci, ok := in.(ssa.CallInstruction)
			if !ok {
				continue
			}
			cc := ci.Common()
			if cc.IsInvoke() && cc.Method.Name() == "Emit" {
				out[b] = true
			}
			if g := cc.StaticCallee(); g != nil && always[g] {
				out[b] = true
			}
		}
	}
	return out
}

// directives that produce no code by design: their success paths are exempt from "must emit".
var silentDirectives = map[string]string{
	"processORG":    "ORG sets the location counter and emits nothing",
	"processGLOBAL": "GLOBAL records names and emits nothing",
	"processEXTERN": "EXTERN records names and emits nothing",
}

func ruleP2(c *Ctx) {
	c.doc("P2", "every return of a pass-1 handler is preceded on all paths by an Emit (directly or through a helper that always emits), by a delegation to another handler, or by a diagnostic of level >= warning (directly, or the error branch of a callee that always diagnoses its failures)")
	d := loadColog(c)
	if d == nil {
		return
	}
	handlers, hm := pass1Handlers(c)
	if handlers == nil || len(hm.Errs) > 0 {
		c.fail("P2", "handler-map-undecided", "", fmt.Sprint(hm.Errs))
		return
	}
	diagnosing := diagnosingCallees(c, d)
	always := emitSummaries(c, handlers)
	var dn []string
	for f := range diagnosing {
		dn = append(dn, shortName(f))
	}
	sort.Strings(dn)
	c.analysed["P2_callees_that_always_diagnose_failures"] = dn
	var fs []*ssa.Function
	for f := range handlers {
		fs = append(fs, f)
	}
	sortFuncs(fs)
	nret := 0
	for _, f := range fs {
		good := diagBlocks(d, f, diagnosing)
		for b := range emitBlocks(f, always) {
			good[b] = true
		}
		// delegation to another handler
		for _, b := range f.Blocks {
			for _, in := range b.Instrs {
				if ci, ok := in.(ssa.CallInstruction); ok {
					if g := ci.Common().StaticCallee(); g != nil && handlers[g] && g != f {
						good[b] = true
					}
				}
			}
		}
		i := 0
		for _, b := range f.Blocks {
			ret, isRet := b.Instrs[len(b.Instrs)-1].(*ssa.Return)
			if !isRet {
				continue
			}
			i++
			nret++
			key := fmt.Sprintf("%s|return#%d", shortName(f), i)
			pos := c.L.Pos(retPos(ret))
			if dominatedByAny(b, good) {
				c.ok("P2", key, pos, "emits, delegates or diagnoses")
				continue
			}
			if why, ok := silentDirectives[f.Name()]; ok && isNormalExit(f, b) {
				c.ok("P2", key, pos, "exception: "+why)
				continue
			}
			c.fail("P2", key, pos, fmt.Sprintf("%s can return here without having emitted the statement and without a diagnostic of level >= warning: %s", shortName(f), nearestLog(d, f, b)))
		}
	}
	c.analysed["P2_handler_functions"] = len(fs)
	c.analysed["P2_returns"] = nret
	c.floor("P2", 60)
}

func retPos(r *ssa.Return) token.Pos {
	if r.Pos().IsValid() {
		return r.Pos()
	}
	return instrPos(r)
}

// isNormalExit: the return block is not dominated by any block that contains a log call
// (error paths in this code base always log something first).
func isNormalExit(f *ssa.Function, b *ssa.BasicBlock) bool {
	for _, x := range f.Blocks {
		if x == f.Blocks[0] || !x.Dominates(b) {
			continue
		}
		for _, in := range x.Instrs {
			if ci, ok := in.(ssa.CallInstruction); ok {
				if _, isLog := logCallFormat(ci.Common()); isLog {
					// the log must be specific to this path: x is not the entry block
					return false
				}
			}
		}
	}
	return true
}

// nearestLog describes the log call (if any) on the way to block b, to make the report
// diagnosable: typically `log.Printf("Error: …")`, which colog files under info.
func nearestLog(d *diagInfo, f *ssa.Function, b *ssa.BasicBlock) string {
	best := ""
	for _, x := range f.Blocks {
		if !x.Dominates(b) {
			continue
		}
		for _, in := range x.Instrs {
			if ci, ok := in.(ssa.CallInstruction); ok {
				if s, isLog := logCallFormat(ci.Common()); isLog {
					lvl := d.levelOf(s)
					if lvl == "" {
						lvl = "no header → default level info"
					}
					if len(s) > 48 {
						s = s[:48] + "…"
					}
					best = fmt.Sprintf("the path logs %q (%s)", s, lvl)
				}
			}
		}
	}
	if best == "" {
		return "the path logs nothing"
	}
	return best
}

// ---------------------------------------------------------------------------------------
// P2g: codegen handlers
// ---------------------------------------------------------------------------------------

func ruleP2g(c *Ctx) {
	c.doc("P2g", "a code-generation handler that returns no bytes for an ocode either returns an error (which the emission loop logs at error level) or has issued a diagnostic of level >= warning")
	d := loadColog(c)
	if d == nil {
		return
	}
	proc := c.L.SSAFunc("internal/codegen", "processOcode")
	gen := c.L.SSAFunc("internal/codegen", "GenerateX86")
	if proc == nil || gen == nil {
		c.anchorMissing("P2g", "codegen.processOcode / GenerateX86")
		return
	}
	// the dispatcher diagnoses returned errors
	okDisp := false
	callsIn(gen, func(ci ssa.CallInstruction) {
		if ci.Common().StaticCallee() == proc {
			for eb := range errBranchBlocks(ci) {
				for _, in := range eb.Instrs {
					if c2, ok := in.(ssa.CallInstruction); ok && d.isDiagnosticCall(c2.Common()) {
						okDisp = true
					}
				}
			}
		}
	})
	c.check(okDisp, "P2g", "GenerateX86|logs handler errors", c.L.Pos(gen.Pos()), "the emission loop must log an error-level diagnostic when a handler returns an error")
	diagnosing := diagnosingCallees(c, d)
	sp := c.L.SSAPkg("internal/codegen")
	// handlers: static callees of processOcode (and of those, within the package) returning []byte first
	hs := map[*ssa.Function]bool{}
	var work []*ssa.Function
	add := func(g *ssa.Function) {
		if g == nil || g.Pkg != sp || hs[g] || g.Blocks == nil {
			return
		}
		r := g.Signature.Results()
		if r.Len() == 0 {
			return
		}
		if s, ok := r.At(0).Type().Underlying().(*types.Slice); !ok || !isByte(s.Elem()) {
			return
		}
		hs[g] = true
		work = append(work, g)
	}
	callsIn(proc, func(ci ssa.CallInstruction) { add(ci.Common().StaticCallee()) })
	for len(work) > 0 {
		f := work[len(work)-1]
		work = work[:len(work)-1]
		callsIn(f, func(ci ssa.CallInstruction) {
			g := ci.Common().StaticCallee()
			if g != nil && strings.HasPrefix(g.Name(), "handle") || g != nil && strings.HasPrefix(g.Name(), "generate") || g != nil && strings.HasPrefix(g.Name(), "Generate") {
				add(g)
			}
		})
	}
	var fs []*ssa.Function
	for f := range hs {
		fs = append(fs, f)
	}
	sortFuncs(fs)
	n := 0
	for _, f := range fs {
		good := diagBlocks(d, f, diagnosing)
		res := f.Signature.Results()
		hasErr := res.Len() == 2
		i := 0
		for _, b := range f.Blocks {
			ret, isRet := b.Instrs[len(b.Instrs)-1].(*ssa.Return)
			if !isRet {
				continue
			}
			i++
			k, isNil := ret.Results[0].(*ssa.Const)
			if !isNil || !k.IsNil() {
				continue // returns bytes
			}
			if hasErr {
				if e, ok := ret.Results[1].(*ssa.Const); !ok || !e.IsNil() {
					n++
					c.ok("P2g", fmt.Sprintf("%s|return#%d", shortName(f), i), c.L.Pos(retPos(ret)), "returns an error: logged by the emission loop")
					continue
				}
			}
			n++
			key := fmt.Sprintf("%s|return#%d", shortName(f), i)
			if dominatedByAny(b, good) {
				c.ok("P2g", key, c.L.Pos(retPos(ret)), "diagnosed")
				continue
			}
			if why := p2gException(f, b); why != "" {
				c.ok("P2g", key, c.L.Pos(retPos(ret)), "exception: "+why)
				continue
			}
			c.fail("P2g", key, c.L.Pos(retPos(ret)), fmt.Sprintf("%s returns no bytes and no error here without a diagnostic of level >= warning: %s", shortName(f), nearestLog(d, f, b)))
		}
	}
	c.analysed["P2g_handlers"] = len(fs)
	c.floor("P2g", 25)
}

func isByte(t types.Type) bool {
	b, ok := t.Underlying().(*types.Basic)
	return ok && b.Kind() == types.Uint8
}

// p2gException: reasoned exceptions, one line each.
func p2gException(f *ssa.Function, b *ssa.BasicBlock) string {
	switch f.Name() {
	case "handleNoParamOpcode":
		return "only reached when the kind is absent from the table, which its single caller has just tested on the same map"
	case "handleL":
		return "L is an internal stack ocode that produces no bytes by design and is never produced from source text"
	case "GenerateModRM", "getModRMFromOperands":
		return "no ModR/M definition in the selected encoding: the caller tests encoding.ModRM != nil first; an empty result is the correct encoding"
	}
	return ""
}

// ---------------------------------------------------------------------------------------
// P2b: per-operand clauses of the data directives
// ---------------------------------------------------------------------------------------

func ruleP2b(c *Ctx) {
	c.doc("P2b", "in the data directives every operand-kind clause either contributes bytes (append to the ocode list and advance the size) or issues a diagnostic of level >= warning")
	d := loadColog(c)
	if d == nil {
		return
	}
	n := 0
	for _, fn := range []string{"processDB", "processDW", "processDD"} {
		fd, p := c.L.FuncDecl("internal/pass1", fn)
		if fd == nil {
			c.anchorMissing("P2b", "pass1."+fn)
			continue
		}
		info := p.TypesInfo
		var loop *ast.RangeStmt
		ast.Inspect(fd.Body, func(x ast.Node) bool {
			if rs, ok := x.(*ast.RangeStmt); ok && loop == nil {
				loop = rs
			}
			return true
		})
		if loop == nil {
			c.anchorMissing("P2b", fn+": loop over operands")
			continue
		}
		var leaves func(stmts []ast.Stmt, path string)
		leaves = func(stmts []ast.Stmt, path string) {
			// a block is a leaf unless its last structured statement is a (type) switch / if-else that partitions it
			contributes, diag := false, ""
			var nested []func()
			for _, st := range stmts {
				switch s := st.(type) {
				case *ast.AssignStmt:
					if isContribution(s) {
						contributes = true
					}
				case *ast.ExprStmt:
					if call, ok := s.X.(*ast.CallExpr); ok {
						if fnn, ok := calleeOf(info, call).(*types.Func); ok && fnn.Pkg() != nil && fnn.Pkg().Path() == "log" && len(call.Args) > 0 {
							if f, ok := constStr(info, call.Args[0]); ok {
								if isDiagLevel(d.levelOf(f)) {
									diag = "ok"
								} else if diag == "" {
									diag = f
								}
							}
						}
					}
				case *ast.ForStmt, *ast.RangeStmt:
					ast.Inspect(s, func(x ast.Node) bool {
						if as, ok := x.(*ast.AssignStmt); ok && isContribution(as) {
							contributes = true
						}
						return true
					})
				case *ast.TypeSwitchStmt:
					ss := s
					nested = append(nested, func() {
						for _, cl := range ss.Body.List {
							cc := cl.(*ast.CaseClause)
							leaves(cc.Body, path+"/"+clauseName(info, cc))
						}
					})
				case *ast.SwitchStmt:
					ss := s
					nested = append(nested, func() {
						for _, cl := range ss.Body.List {
							cc := cl.(*ast.CaseClause)
							leaves(cc.Body, path+"/"+clauseName(info, cc))
						}
					})
				case *ast.IfStmt:
					is := s
					nested = append(nested, func() {
						leaves(is.Body.List, path+"/if("+shortCond(is.Cond)+")")
						switch e := is.Else.(type) {
						case *ast.BlockStmt:
							leaves(e.List, path+"/else")
						case *ast.IfStmt:
							leaves([]ast.Stmt{e}, path+"/else")
						case nil:
							// fallthrough of the if: what follows in this block decides
						}
					})
				}
			}
			if len(nested) > 0 && !contributes && diag != "ok" {
				for _, f := range nested {
					f()
				}
				// statements after a partial `if` (without else) are judged as the remainder
				return
			}
			n++
			key := fmt.Sprintf("pass1.%s|%s", fn, path)
			pos := ""
			if len(stmts) > 0 {
				pos = c.L.Pos(stmts[0].Pos())
			}
			switch {
			case contributes || diag == "ok":
				c.ok("P2b", key, pos, "")
			case diag != "":
				c.fail("P2b", key, pos, fmt.Sprintf("operand is skipped (no bytes, size not advanced) and the only message %q is filed below warning level", trunc(diag, 60)))
			default:
				c.fail("P2b", key, pos, "operand is skipped without any diagnostic")
			}
		}
		leaves(loop.Body.List, "operand")
	}
	c.floor("P2b", 20)
}

func trunc(s string, n int) string {
	if len(s) > n {
		return s[:n] + "…"
	}
	return s
}

func isContribution(as *ast.AssignStmt) bool {
	// loc += k   |   ocodes = append(ocodes, …)
	if as.Tok == token.ADD_ASSIGN {
		if id, ok := as.Lhs[0].(*ast.Ident); ok && id.Name == "loc" {
			return true
		}
	}
	if len(as.Rhs) == 1 {
		if call, ok := as.Rhs[0].(*ast.CallExpr); ok {
			if id, ok := call.Fun.(*ast.Ident); ok && id.Name == "append" {
				return true
			}
			// loc, ocodes = helper(loc, ocodes, …): a helper that is handed both accumulators and
			// returns both (rule P7 checks what the helper does with them)
			if len(as.Lhs) == 2 && accumulatorHelperCall(as) {
				return true
			}
		}
	}
	return false
}

// accumulatorHelperCall: `loc, ocodes = f(loc, ocodes, …)`.
func accumulatorHelperCall(as *ast.AssignStmt) bool {
	if len(as.Lhs) != 2 || len(as.Rhs) != 1 {
		return false
	}
	call, ok := as.Rhs[0].(*ast.CallExpr)
	if !ok || len(call.Args) < 2 {
		return false
	}
	l0, ok0 := as.Lhs[0].(*ast.Ident)
	l1, ok1 := as.Lhs[1].(*ast.Ident)
	a0, ok2 := call.Args[0].(*ast.Ident)
	a1, ok3 := call.Args[1].(*ast.Ident)
	return ok0 && ok1 && ok2 && ok3 && l0.Name == "loc" && a0.Name == "loc" && l1.Name == a1.Name
}

func clauseName(info *types.Info, cc *ast.CaseClause) string {
	if cc.List == nil {
		return "default"
	}
	var p []string
	for _, e := range cc.List {
		p = append(p, types.ExprString(e))
	}
	return strings.Join(p, ",")
}

func shortCond(e ast.Expr) string {
	s := types.ExprString(e)
	if len(s) > 40 {
		s = s[:40] + "…"
	}
	return s
}

// ---------------------------------------------------------------------------------------
// P2c: messages that announce an error/warning but are filed as info
// ---------------------------------------------------------------------------------------

func ruleP2c(c *Ctx) {
	c.doc("P2c", "a log message whose text announces an error or warning carries a header the log backend classifies at that level (colog matches headers case-sensitively; an unrecognised header means level info)")
	d := loadColog(c)
	if d == nil {
		return
	}
	total, per := 0, map[string]int{}
	logFormatsAST(c, d, func(pkg, fn, format, level string, pos ast.Node) {
		total++
		low := strings.ToLower(format)
		announces := ""
		for _, w := range []string{"error", "warning", "warn"} {
			if strings.HasPrefix(low, w+":") || strings.HasPrefix(low, w+" ") {
				announces = w
				break
			}
		}
		if announces == "" {
			return
		}
		per[pkg+"."+fn]++
		key := fmt.Sprintf("%s.%s|log#%d", pkg, fn, per[pkg+"."+fn])
		if isDiagLevel(level) {
			c.ok("P2c", key, c.L.Pos(pos.Pos()), level)
		} else {
			c.fail("P2c", key, c.L.Pos(pos.Pos()), fmt.Sprintf("message %q announces a %s but colog files it as info (no matching header)", trunc(format, 50), announces))
		}
	})
	c.analysed["P2c_log_formats"] = total
	c.floor("P2c", 100)
}
