package main

// Seventh strengthening round (after seeded round 5).

import (
	"fmt"
	"go/ast"
	"go/token"
	"go/types"
	"strings"

	"golang.org/x/tools/go/ssa"
)

// ---------------------------------------------------------------------------------------
// E7e: Emit succeeds only when it stored an ocode
// ---------------------------------------------------------------------------------------

func ruleE7e(c *Ctx) {
	c.doc("E7e", "ocodeClient.Emit returns nil only on paths that appended an ocode to the list: a line it cannot turn into an ocode (empty, unknown kind) is an error, which the callers log at error level — returning nil for it drops the statement silently")
	f := c.L.SSAFunc("internal/ocode_client", "(*ocodeClient).Emit")
	if f == nil {
		c.anchorMissing("E7e", "internal/ocode_client.(*ocodeClient).Emit")
		return
	}
	var stores []*ssa.BasicBlock
	for _, b := range f.Blocks {
		for _, in := range b.Instrs {
			if st, ok := in.(*ssa.Store); ok {
				if fa, ok := st.Addr.(*ssa.FieldAddr); ok && fieldName(fa) == "Ocodes" {
					stores = append(stores, b)
				}
			}
		}
	}
	c.check(len(stores) >= 1, "E7e", "Emit|appends to Ocodes", c.L.Pos(f.Pos()), "Emit does not store into the ocode list")
	n := 0
	for _, b := range f.Blocks {
		for _, in := range b.Instrs {
			r, ok := in.(*ssa.Return)
			if !ok || len(r.Results) != 1 {
				continue
			}
			k, ok := r.Results[0].(*ssa.Const)
			if !ok || !k.IsNil() {
				continue
			}
			n++
			covered := false
			for _, sb := range stores {
				if sb == b || sb.Dominates(b) {
					covered = true
				}
			}
			c.check(covered, "E7e", fmt.Sprintf("Emit|return nil#%d after an append", n), c.L.Pos(instrPos(in)), "Emit can return nil without having stored an ocode: the statement vanishes and no caller is told")
		}
	}
	c.check(n >= 1, "E7e", "Emit|success return found", c.L.Pos(f.Pos()), fmt.Sprintf("%d", n))
}

// ---------------------------------------------------------------------------------------
// P13r: calls that always panic
// ---------------------------------------------------------------------------------------

func ruleP13r(c *Ctx) {
	c.doc("P13r", "reflect.TypeOf(v).Elem() with v of a struct (non-pointer, non-container) type always panics; a function that contains such a call is not reachable from an assembly")
	reach := c.reach()
	n := 0
	for _, f := range c.L.RepoFuncs() {
		if c.isGeneratedFn(f) || pkgRel(f) == "test" {
			continue
		}
		per := 0
		callsIn(f, func(ci ssa.CallInstruction) {
			cc := ci.Common()
			if !cc.IsInvoke() || cc.Method.Name() != "Elem" || !strings.HasSuffix(cc.Value.Type().String(), "reflect.Type") {
				return
			}
			src, ok := cc.Value.(*ssa.Call)
			if !ok || calleeName(src.Common()) != "reflect.TypeOf" {
				return
			}
			mi, ok := src.Call.Args[0].(*ssa.MakeInterface)
			if !ok {
				return
			}
			switch mi.X.Type().Underlying().(type) {
			case *types.Pointer, *types.Slice, *types.Array, *types.Map, *types.Chan, *types.Interface:
				return
			}
			n++
			per++
			_, isReach := reach[f]
			c.check(!isReach, "P13r", fmt.Sprintf("%s|reflect.TypeOf(%s).Elem()#%d", shortName(f), types.TypeString(mi.X.Type(), func(p *types.Package) string { return p.Name() }), per), c.L.Pos(instrPos(ci)),
				shortName(f)+" always panics (Elem of a non-pointer type) and is reachable from an assembly")
		})
	}
	c.ok("P13r", "always-panicking reflect calls scanned", "", fmt.Sprintf("%d sites (dormant while unreachable)", n))
}

// ---------------------------------------------------------------------------------------
// F8q: one table query per emitter
// ---------------------------------------------------------------------------------------

func ruleF8q(c *Ctx) {
	c.doc("F8q", "an emitter asks the instruction table for an encoding once; only the IMUL emitter has a second, documented query. A second query under a condition on the operand replaces the form pass 1 sized the statement with (and the compact form the table prefers)")
	n := 0
	for _, f := range c.L.RepoFuncs() {
		if pkgRel(f) != "internal/codegen" || c.isGeneratedFn(f) || f.Parent() != nil {
			continue
		}
		cnt := 0
		var pos token.Pos
		callsIn(f, func(ci ssa.CallInstruction) {
			if strings.HasSuffix(calleeName(ci.Common()), ").FindEncoding") {
				cnt++
				pos = instrPos(ci)
			}
		})
		if cnt == 0 {
			continue
		}
		n++
		limit := 1
		if f.Name() == "handleIMUL" {
			limit = 2
		}
		c.check(cnt <= limit, "F8q", shortName(f)+"|table queries", c.L.Pos(pos), fmt.Sprintf("%s calls FindEncoding %d times (at most %d expected)", shortName(f), cnt, limit))
	}
	c.floor("F8q", 4)
	c.analysed["F8q_emitters"] = n
}

// ---------------------------------------------------------------------------------------
// Z3c: displacement size tests use the disp8 bounds only
// ---------------------------------------------------------------------------------------

func ruleZ3c(c *Ctx) {
	c.doc("Z3c", "CalcOffsetByteSize compares the displacement with the disp8 bounds (−128, 127) and zero only; the choice between a 2-byte and a 4-byte offset is made by the addressing mode, never by whether the value happens to fit 16 bits (the emitter writes disp32 for [0x0ff0] in 32-bit code)")
	f := c.L.SSAFunc("pkg/ng_operand", "(*OperandPegImpl).CalcOffsetByteSize")
	if f == nil {
		c.anchorMissing("Z3c", "pkg/ng_operand.(*OperandPegImpl).CalcOffsetByteSize")
		return
	}
	n := 0
	for _, b := range f.Blocks {
		for _, in := range b.Instrs {
			bo, ok := in.(*ssa.BinOp)
			if !ok {
				continue
			}
			switch bo.Op {
			case token.LSS, token.LEQ, token.GTR, token.GEQ, token.EQL, token.NEQ:
			default:
				continue
			}
			var k *ssa.Const
			var other ssa.Value
			if kc, ok := bo.Y.(*ssa.Const); ok && isIntConst(kc) {
				k, other = kc, bo.X
			} else if kc, ok := bo.X.(*ssa.Const); ok && isIntConst(kc) {
				k, other = kc, bo.Y
			}
			if k == nil || !isDisplacementValue(other, 0) {
				continue
			}
			n++
			v := k.Int64()
			c.check(v == -128 || v == 127 || v == 0, "Z3c", fmt.Sprintf("CalcOffsetByteSize|displacement compared with %d", v), c.L.Pos(instrPos(in)),
				fmt.Sprintf("the displacement is compared with %d: the size of an offset must not depend on whether its value fits some other width", v))
		}
	}
	c.check(n >= 2, "Z3c", "CalcOffsetByteSize|comparisons found", c.L.Pos(f.Pos()), fmt.Sprintf("%d", n))
}

// ---------------------------------------------------------------------------------------
// K18p: memory predicates look at the Memory field only
// ---------------------------------------------------------------------------------------

func ruleK18p(c *Ctx) {
	c.doc("K18p", "IsDirectMemory / IsIndirectMemory recognise a memory operand by the presence of its MemoryInfo, not by its resolved type: `DWORD [EBX+8]` (type m32) is as indirect as `[EBX+8]` (type m)")
	for _, fn := range []string{"(*OperandPegImpl).IsDirectMemory", "(*OperandPegImpl).IsIndirectMemory"} {
		f := c.L.SSAFunc("pkg/ng_operand", fn)
		if f == nil {
			c.anchorMissing("K18p", "pkg/ng_operand."+fn)
			continue
		}
		fields := map[string]bool{}
		var walk func(g *ssa.Function)
		seen := map[*ssa.Function]bool{}
		walk = func(g *ssa.Function) {
			if g == nil || seen[g] {
				return
			}
			seen[g] = true
			for _, an := range g.AnonFuncs {
				walk(an)
			}
			for _, b := range g.Blocks {
				for _, in := range b.Instrs {
					if fa, ok := in.(*ssa.FieldAddr); ok {
						if tn, _ := namedOf(fa.X.Type()); tn == "ParsedOperandPeg" {
							fields[fieldName(fa)] = true
						}
					}
				}
			}
		}
		walk(f)
		var extra []string
		for k := range fields {
			if k != "Memory" {
				extra = append(extra, k)
			}
		}
		c.check(fields["Memory"] && len(extra) == 0, "K18p", fn+"|reads ParsedOperandPeg.Memory only", c.L.Pos(f.Pos()), fmt.Sprintf("fields of the parsed operand read: Memory=%v, others=%v", fields["Memory"], extra))
	}
}

// ---------------------------------------------------------------------------------------
// T7h: both spellings of the hex prefix
// ---------------------------------------------------------------------------------------

func ruleT7h(c *Ctx) {
	c.doc("T7h", "parseHex accepts every hexadecimal prefix the grammar's HexFactor rule accepts (0x and 0X): a literal the parser lets through and the evaluator does not understand is dropped with its whole operand")
	g := mainGrammar(c)
	if len(g.Errs) > 0 || g.Rules["HexFactor"] == nil {
		c.anchorMissing("T7h", "grammar rule HexFactor")
		return
	}
	want := map[string]bool{}
	var walk func(e *pegNode)
	walk = func(e *pegNode) {
		if e == nil {
			return
		}
		if e.Kind == "lit" && (e.Val == "x" || e.Val == "X") {
			want["0"+e.Val] = true
			if e.ICase {
				want["0x"], want["0X"] = true, true
			}
		}
		if e.Kind == "lit" && (strings.EqualFold(e.Val, "0x")) {
			want[e.Val] = true
			if e.ICase {
				want["0x"], want["0X"] = true, true
			}
		}
		for _, k := range e.Kids {
			walk(k)
		}
	}
	walk(g.Rules["HexFactor"])
	fd, p := c.L.FuncDecl("internal/ast", "parseHex")
	if fd == nil {
		c.anchorMissing("T7h", "internal/ast.parseHex")
		return
	}
	have := map[string]bool{}
	folds := false
	ast.Inspect(fd.Body, func(n ast.Node) bool {
		switch x := n.(type) {
		case *ast.BasicLit:
			if s, ok := constStr(p.TypesInfo, x); ok && strings.EqualFold(s, "0x") {
				have[s] = true
			}
		case *ast.Ident:
			// a named constant holding the prefix
			if _, isConst := p.TypesInfo.Uses[x].(*types.Const); isConst {
				if s, ok := constStr(p.TypesInfo, x); ok && strings.EqualFold(s, "0x") {
					have[s] = true
				}
			}
		case *ast.CallExpr:
			if fn, ok := calleeOf(p.TypesInfo, x).(*types.Func); ok && (fn.Name() == "ToLower" || fn.Name() == "ToUpper" || fn.Name() == "EqualFold") {
				folds = true
			}
		}
		return true
	})
	for w := range want {
		c.check(have[w] || folds, "T7h", "parseHex|accepts "+w, c.L.Pos(fd.Pos()), "the grammar accepts the prefix "+w+" but parseHex does not look for it")
	}
	c.check(len(want) >= 1, "T7h", "HexFactor|prefixes found", "", fmt.Sprintf("%d", len(want)))
}

// ---------------------------------------------------------------------------------------
// E10m: the macro branch returns the evaluated body
// ---------------------------------------------------------------------------------------

func ruleE10m(c *Ctx) {
	c.doc("E10m", "once ImmExp.Eval has found an EQU for an identifier, every return on that branch hands back the result of evaluating the EQU's body — never the identifier itself: a name whose definition does not reduce to a number (an alias of a label, a string) must still be replaced by its definition")
	f := c.L.SSAFunc("internal/ast", "(*ImmExp).Eval")
	if f == nil {
		c.anchorMissing("E10m", "internal/ast.(*ImmExp).Eval")
		return
	}
	recv := f.Params[0]
	n := 0
	for _, b := range f.Blocks {
		for _, in := range b.Instrs {
			call, ok := in.(*ssa.Call)
			if !ok || !call.Call.IsInvoke() || call.Call.Method.Name() != "LookupMacro" {
				continue
			}
			// the ok flag and its If
			for _, r := range *call.Referrers() {
				ex, ok := r.(*ssa.Extract)
				if !ok || ex.Index != 1 {
					continue
				}
				for _, rr := range *ex.Referrers() {
					iff, ok := rr.(*ssa.If)
					if !ok {
						continue
					}
					found := iff.Block().Succs[0]
					for _, fb := range f.Blocks {
						if fb != found && !found.Dominates(fb) {
							continue
						}
						for _, fi := range fb.Instrs {
							ret, ok := fi.(*ssa.Return)
							if !ok || len(ret.Results) != 2 {
								continue
							}
							n++
							node := ret.Results[0]
							if mi, ok := node.(*ssa.MakeInterface); ok {
								node = mi.X
							}
							c.check(node != ssa.Value(recv), "E10m", fmt.Sprintf("(*ImmExp).Eval|macro branch return#%d", n), c.L.Pos(instrPos(fi)),
								"after a successful EQU lookup this return hands back the identifier node itself: the name is not replaced by its definition")
						}
					}
				}
			}
		}
	}
	c.check(n >= 1, "E10m", "(*ImmExp).Eval|macro branch returns found", c.L.Pos(f.Pos()), fmt.Sprintf("%d", n))
}

// ---------------------------------------------------------------------------------------
// W4o: who classifies displacements
// ---------------------------------------------------------------------------------------

func ruleW4o(c *Ctx) {
	c.doc("W4o", "getOffsetSize — the signed short/near/far classifier of branch displacements — is applied by the branch emitters only (handleJcc, handleCALL and helpers they call): an address or an immediate is not a displacement, and classifying it with signed bounds rejects or widens values from 0x8000 up")
	f := c.L.SSAFunc("internal/codegen", "getOffsetSize")
	if f == nil {
		c.anchorMissing("W4o", "internal/codegen.getOffsetSize")
		return
	}
	allowed := map[*ssa.Function]bool{}
	for _, fn := range []string{"handleJcc", "handleCALL"} {
		if g := c.L.SSAFunc("internal/codegen", fn); g != nil {
			for _, u := range unitOf(g, 3) {
				allowed[u] = true
			}
		}
	}
	n := 0
	for _, g := range c.L.RepoFuncs() {
		if c.isGeneratedFn(g) || pkgRel(g) == "test" {
			continue
		}
		callsIn(g, func(ci ssa.CallInstruction) {
			if ci.Common().StaticCallee() != f {
				return
			}
			n++
			top := outermost(g)
			c.check(allowed[top] || allowed[g], "W4o", shortName(top)+"|calls getOffsetSize", c.L.Pos(instrPos(ci)), shortName(top)+" classifies a value that is not a branch displacement with getOffsetSize")
		})
	}
	c.check(n >= 2, "W4o", "getOffsetSize|callers found", c.L.Pos(f.Pos()), fmt.Sprintf("%d", n))
}

// ---------------------------------------------------------------------------------------
// N15r: register names are not searched for inside operand text
// ---------------------------------------------------------------------------------------

func ruleN15r(c *Ctx) {
	c.doc("N15r", "pass 1 and the emitters never look for a register name as a substring, prefix or suffix of operand text (strings.Contains/HasPrefix/HasSuffix/Index with a register name as the needle): whether a word is a register is decided by the operand grammar on whole tokens, so a label that merely contains `SI` or `BP` is not taken for one")
	o := loadX86(c)
	if o == nil {
		return
	}
	isReg := func(s string) bool {
		_, ok := o.Registers[strings.ToUpper(s)]
		return ok && len(s) >= 2
	}
	n := 0
	for _, g := range c.L.RepoFuncs() {
		pk := pkgRel(g)
		if (pk != "internal/codegen" && pk != "internal/pass1") || c.isGeneratedFn(g) {
			continue
		}
		per := 0
		callsIn(g, func(ci ssa.CallInstruction) {
			name := calleeName(ci.Common())
			if name != "strings.Contains" && name != "strings.HasPrefix" && name != "strings.HasSuffix" && name != "strings.Index" {
				return
			}
			needle := ci.Common().Args[1]
			bad := ""
			if k, ok := needle.(*ssa.Const); ok {
				if s := constantStringVal(k); isReg(s) {
					bad = s
				}
			} else if u, ok := needle.(*ssa.UnOp); ok && u.Op == token.MUL {
				// element of a literal list of register names
				if ia, ok := u.X.(*ssa.IndexAddr); ok {
					src := ia.X
					// a package-level list: the literal stored into the variable by the package initialiser
					if ld, ok := src.(*ssa.UnOp); ok && ld.Op == token.MUL {
						if gl, ok := ld.X.(*ssa.Global); ok && gl.Pkg != nil {
							if init := gl.Pkg.Func("init"); init != nil {
								for _, ib := range init.Blocks {
									for _, iin := range ib.Instrs {
										if st, ok := iin.(*ssa.Store); ok && st.Addr == ssa.Value(gl) {
											src = st.Val
										}
									}
								}
							}
						}
					}
					if sl, ok := src.(*ssa.Slice); ok {
						if al, ok := sl.X.(*ssa.Alloc); ok {
							regs, total := 0, 0
							for _, r := range *al.Referrers() {
								if ia2, ok := r.(*ssa.IndexAddr); ok {
									for _, rr := range *ia2.Referrers() {
										if st, ok := rr.(*ssa.Store); ok {
											total++
											if k, ok := st.Val.(*ssa.Const); ok && isReg(constantStringVal(k)) {
												regs++
											}
										}
									}
								}
							}
							if total > 0 && regs == total {
								bad = "a list of register names"
							}
						}
					}
				}
			}
			if bad == "" {
				return
			}
			n++
			per++
			c.fail("N15r", fmt.Sprintf("%s|%s with %s#%d", shortName(g), name, bad, per), c.L.Pos(instrPos(ci)), shortName(g)+" searches operand text for "+bad+" with "+name+": a label containing those letters is taken for the register")
		})
	}
	c.ok("N15r", "substring searches for register names scanned", "", fmt.Sprintf("%d", n))
}
