package main

// Third strengthening round (seeded round 2, first half): T1e, Z3b, O3, T4d, E3s.

import (
	"fmt"
	"go/ast"
	"go/token"
	"go/types"
	"sort"
	"strings"

	"golang.org/x/tools/go/ssa"
)

// ---------------------------------------------------------------------------------------
// T1e: partial register lists
// ---------------------------------------------------------------------------------------

func ruleT1e(c *Ctx) {
	c.doc("T1e", "a list of register names of one class (a []string / map literal) that names at least four registers of the class names all of them — except lists of the 16-bit address registers, which are a proper subset by the ISA")
	o := loadX86(c)
	if o == nil {
		return
	}
	classSize := map[string]int{}
	for _, r := range o.Registers {
		classSize[r.Class]++
	}
	classSize["r64"] = 8 // RAX..RDI; R8..R15 are listed separately when present
	n := 0
	for _, p := range c.L.Pkgs {
		rel := relPkg(p)
		if rel != "pkg/ng_operand" && rel != "internal/codegen" && rel != "pkg/asmdb" && rel != "internal/pass1" {
			continue
		}
		for _, f := range p.Syntax {
			if c.L.isGeneratedFile(f) {
				continue
			}
			// the same judgement for one case clause that lists register names: `case "EAX", "ECX", …:`
			ast.Inspect(f, func(x ast.Node) bool {
				cc, ok := x.(*ast.CaseClause)
				if !ok || len(cc.List) < 4 {
					return true
				}
				names := map[string]bool{}
				cls := ""
				for _, e := range cc.List {
					s, ok := constStr(p.TypesInfo, e)
					if !ok {
						return true
					}
					r, known := o.Registers[strings.ToUpper(s)]
					if !known || (cls != "" && r.Class != cls) {
						return true
					}
					cls = r.Class
					names[strings.ToUpper(s)] = true
				}
				if cls == "" || len(names) < 4 {
					return true
				}
				n++
				where := ""
				if fd := enclosingFunc(f, cc.Pos()); fd != nil {
					where = fdName(fd)
				}
				var nl []string
				for k := range names {
					nl = append(nl, k)
				}
				sort.Strings(nl)
				key := fmt.Sprintf("%s.%s|%s case list %s", rel, where, cls, strings.Join(nl, ","))
				addr16 := map[string]bool{"BX": true, "BP": true, "SI": true, "DI": true, "SP": true}
				all16 := cls == "r16"
				for k := range names {
					if !addr16[k] {
						all16 = false
					}
				}
				switch {
				case all16:
					c.ok("T1e", key, c.L.Pos(cc.Pos()), "16-bit address registers (proper subset by the ISA)")
				case len(names) >= classSize[cls] || (cls == "r64" && len(names) >= 8):
					c.ok("T1e", key, c.L.Pos(cc.Pos()), "complete")
				default:
					c.fail("T1e", key, c.L.Pos(cc.Pos()), fmt.Sprintf("case lists %d of the %d %s registers: the missing one(s) are silently treated as not belonging to the class (e.g. [ESP+4] loses its address-size prefix)", len(names), classSize[cls], cls))
				}
				return true
			})
			ast.Inspect(f, func(x ast.Node) bool {
				cl, ok := x.(*ast.CompositeLit)
				if !ok || len(cl.Elts) < 4 {
					return true
				}
				// a membership list (slice, array, set) — not a table that maps some registers to values
				if mt, isMap := p.TypesInfo.TypeOf(cl).Underlying().(*types.Map); isMap {
					el := mt.Elem().Underlying()
					_, isStruct := el.(*types.Struct)
					if !isBoolType(el) && !isStruct {
						return true
					}
				}
				names := map[string]bool{}
				cls := ""
				pure := true
				for _, e := range cl.Elts {
					if kv, ok := e.(*ast.KeyValueExpr); ok {
						e = kv.Key
					}
					s, ok := constStr(p.TypesInfo, e)
					if !ok {
						pure = false
						break
					}
					r, known := o.Registers[strings.ToUpper(s)]
					if !known || (cls != "" && r.Class != cls) {
						pure = false
						break
					}
					cls = r.Class
					names[strings.ToUpper(s)] = true
				}
				if !pure || cls == "" || len(names) < 4 {
					return true
				}
				n++
				where := ""
				if fd := enclosingFunc(f, cl.Pos()); fd != nil {
					where = fdName(fd)
				}
				var nl []string
				for k := range names {
					nl = append(nl, k)
				}
				sort.Strings(nl)
				key := fmt.Sprintf("%s.%s|%s list %s", rel, where, cls, strings.Join(nl, ","))
				addr16 := map[string]bool{"BX": true, "BP": true, "SI": true, "DI": true, "SP": true}
				all16 := cls == "r16"
				for k := range names {
					if !addr16[k] {
						all16 = false
					}
				}
				switch {
				case all16:
					c.ok("T1e", key, c.L.Pos(cl.Pos()), "16-bit address registers (proper subset by the ISA)")
				case len(names) >= classSize[cls] || (cls == "r64" && len(names) >= 8):
					c.ok("T1e", key, c.L.Pos(cl.Pos()), "complete")
				default:
					c.fail("T1e", key, c.L.Pos(cl.Pos()), fmt.Sprintf("list names %d of the %d %s registers: the missing one(s) are silently treated as not belonging to the class (e.g. [ESP+4] loses its address-size prefix)", len(names), classSize[cls], cls))
				}
				return true
			})
		}
	}
	c.ok("T1e", "lists scanned", "", fmt.Sprintf("%d register lists", n))
}

// ---------------------------------------------------------------------------------------
// Z3b: both displacement-size computations test the parsed displacement itself
// ---------------------------------------------------------------------------------------

func ruleZ3b(c *Ctx) {
	c.doc("Z3b", "the disp8 range test of the pass-1 sizing and of the ModR/M calculator is made on the parsed displacement itself (MemoryInfo.Displacement, or the literal 0 of the [BP]/[EBP] special case) — not on a value narrowed or wrapped on one side only")
	for _, t := range []struct{ pkg, fn string }{{"pkg/ng_operand", "(*OperandPegImpl).CalcOffsetByteSize"}, {"internal/codegen", "calculateModRM"}} {
		f := c.L.SSAFunc(t.pkg, t.fn)
		if f == nil {
			c.anchorMissing("Z3b", t.pkg+"."+t.fn)
			continue
		}
		n := 0
		for _, b := range f.Blocks {
			for _, in := range b.Instrs {
				bo, ok := in.(*ssa.BinOp)
				if !ok {
					continue
				}
				k, isK := bo.Y.(*ssa.Const)
				if !isK || !isIntConst(k) || (k.Int64() != -128 && k.Int64() != 127) {
					continue
				}
				n++
				c.check(isDisplacementValue(bo.X, 0), "Z3b", fmt.Sprintf("%s|range test#%d operand", t.fn, n), c.L.Pos(instrPos(in)),
					"the value compared with −128/127 is not MemoryInfo.Displacement itself (found "+valName(bo.X)+"): the two size computations disagree for displacements the conversion changes")
			}
		}
		c.check(n >= 2, "Z3b", t.fn+"|range tests found", c.L.Pos(f.Pos()), fmt.Sprintf("%d comparisons with −128/127", n))
	}
	c.floor("Z3b", 6)
}

func isDisplacementValue(v ssa.Value, depth int) bool {
	if depth > 6 {
		return false
	}
	if isFieldLoad(v, "Displacement") {
		return true
	}
	switch x := v.(type) {
	case *ssa.Const:
		return isIntConst(x) && x.Int64() == 0
	case *ssa.Phi:
		for _, e := range x.Edges {
			if !isDisplacementValue(e, depth+1) {
				return false
			}
		}
		return true
	}
	return false
}

// ---------------------------------------------------------------------------------------
// O3: statements are traversed once, in source order
// ---------------------------------------------------------------------------------------

func ruleO3(c *Ctx) {
	c.doc("O3", "pass 1 visits the statements of a program exactly once and in source order (one forward range over Program.Statements that hands every element to TraverseAST unconditionally): the value of `$`, labels and EQU bodies depends on everything before them having been placed")
	fd, p := c.L.FuncDecl("internal/pass1", "TraverseAST")
	if fd == nil {
		c.anchorMissing("O3", "pass1.TraverseAST")
		return
	}
	cc := typeSwitchClause(p.TypesInfo, fd, "Program")
	if cc == nil {
		c.anchorMissing("O3", "TraverseAST: case *ast.Program")
		return
	}
	// a loop over the statements: `for _, s := range X` or `for i := 0; i < len(X); i++` with X
	// n.Statements or a single-assignment local alias of it
	type stmtLoop struct {
		node    ast.Node
		body    *ast.BlockStmt
		elem    func(e ast.Expr) bool // e is the current element
		forward bool
	}
	aliases := selectorAliases(fd)
	isStatements := func(e ast.Expr) (string, bool) {
		e = ast.Unparen(e)
		if id, ok := e.(*ast.Ident); ok {
			if al, ok := aliases[id.Name]; ok && al.Sel.Name == "Statements" {
				return id.Name, true
			}
			return "", false
		}
		if sel, ok := e.(*ast.SelectorExpr); ok && sel.Sel.Name == "Statements" {
			return types.ExprString(sel), true
		}
		return "", false
	}
	var loops []stmtLoop
	for _, st := range cc.Body {
		ast.Inspect(st, func(n ast.Node) bool {
			switch l := n.(type) {
			case *ast.RangeStmt:
				if _, ok := isStatements(l.X); ok {
					vid, _ := l.Value.(*ast.Ident)
					loops = append(loops, stmtLoop{l, l.Body, func(e ast.Expr) bool {
						id, ok := ast.Unparen(e).(*ast.Ident)
						return ok && vid != nil && id.Name == vid.Name
					}, true})
				}
			case *ast.ForStmt:
				cond, ok := l.Cond.(*ast.BinaryExpr)
				if !ok {
					return true
				}
				over := ""
				ast.Inspect(cond, func(m ast.Node) bool {
					if call, ok := m.(*ast.CallExpr); ok && len(call.Args) == 1 {
						if fn, ok := call.Fun.(*ast.Ident); ok && fn.Name == "len" {
							if txt, ok := isStatements(call.Args[0]); ok {
								over = txt
							}
						}
					}
					return true
				})
				if over == "" {
					return true
				}
				idx, fwd := forwardIndexLoopOver(l, "")
				loops = append(loops, stmtLoop{l, l.Body, func(e ast.Expr) bool {
					ix, ok := ast.Unparen(e).(*ast.IndexExpr)
					if !ok || !fwd {
						return false
					}
					id, ok := ix.Index.(*ast.Ident)
					return ok && id.Name == idx && types.ExprString(ast.Unparen(ix.X)) == over
				}, fwd})
			}
			return true
		})
	}
	c.check(len(loops) == 1, "O3", "TraverseAST[Program]|one pass over the statements", c.L.Pos(cc.Pos()), fmt.Sprintf("%d loops over Program.Statements (a pre-pass evaluates some statements before the location counter reaches them)", len(loops)))
	if len(loops) >= 1 {
		l := loops[0]
		uncond := false
		for _, st := range l.body.List {
			var call *ast.CallExpr
			switch s := st.(type) {
			case *ast.AssignStmt:
				if len(s.Rhs) == 1 {
					call, _ = s.Rhs[0].(*ast.CallExpr)
				}
			case *ast.ExprStmt:
				call, _ = s.X.(*ast.CallExpr)
			}
			if call != nil {
				if fn, ok := calleeOf(p.TypesInfo, call).(*types.Func); ok && fn.Name() == "TraverseAST" && len(call.Args) >= 1 {
					if l.elem(call.Args[0]) {
						uncond = true
					}
				}
			}
			if uncond {
				break
			}
			// a `continue` in front of the call filters the statements
			if containsBranch(st, token.CONTINUE) {
				break
			}
		}
		c.check(uncond && l.forward, "O3", "TraverseAST[Program]|every statement traversed", c.L.Pos(l.node.Pos()), "each element of Program.Statements must be handed to TraverseAST at the top level of the loop body, in source order (no filtering, no reordering)")
		jumps := 0
		ast.Inspect(l.body, func(n ast.Node) bool {
			if b, ok := n.(*ast.BranchStmt); ok && (b.Tok == token.BREAK || b.Tok == token.GOTO) {
				jumps++
			}
			return true
		})
		c.check(jumps == 0, "O3", "TraverseAST[Program]|no early exit", c.L.Pos(l.node.Pos()), "the statement loop must not stop early")
	}
	c.floor("O3", 3)
}

// ---------------------------------------------------------------------------------------
// T4d: deviant rows in byte tables of the emitters
// ---------------------------------------------------------------------------------------

func ruleT4d(c *Ctx) {
	c.doc("T4d", "in a table literal of the code generator whose rows carry byte sequences, no row has a nil/empty sequence where its sibling rows have one (an empty row assembles to nothing without a diagnostic)")
	p := c.L.Pkg("internal/codegen")
	if p == nil {
		c.anchorMissing("T4d", "internal/codegen")
		return
	}
	tables := 0
	for _, f := range p.Syntax {
		ast.Inspect(f, func(x ast.Node) bool {
			cl, ok := x.(*ast.CompositeLit)
			if !ok || len(cl.Elts) < 3 {
				return true
			}
			t := p.TypesInfo.TypeOf(cl)
			if t == nil {
				return true
			}
			var elem types.Type
			switch u := t.Underlying().(type) {
			case *types.Map:
				elem = u.Elem()
			case *types.Slice:
				elem = u.Elem()
			default:
				return true
			}
			st, ok := elem.Underlying().(*types.Struct)
			if !ok {
				return true
			}
			// fields of type []byte
			var byteFields []string
			for i := 0; i < st.NumFields(); i++ {
				if s, ok := st.Field(i).Type().Underlying().(*types.Slice); ok && isByte(s.Elem()) {
					byteFields = append(byteFields, st.Field(i).Name())
				}
			}
			if len(byteFields) == 0 {
				return true
			}
			tables++
			for _, bf := range byteFields {
				empty, full := 0, 0
				var emptyRows []ast.Expr
				for _, e := range cl.Elts {
					row := e
					if kv, ok := e.(*ast.KeyValueExpr); ok {
						row = kv.Value
					}
					rl, ok := row.(*ast.CompositeLit)
					if !ok {
						continue
					}
					v := field(rl, bf)
					if v == nil && len(rl.Elts) > 0 {
						if _, keyed := rl.Elts[0].(*ast.KeyValueExpr); !keyed {
							for i := 0; i < st.NumFields() && i < len(rl.Elts); i++ {
								if st.Field(i).Name() == bf {
									v = rl.Elts[i]
								}
							}
						}
					}
					isEmpty := v == nil
					if id, ok := v.(*ast.Ident); ok && id.Name == "nil" {
						isEmpty = true
					}
					if vl, ok := v.(*ast.CompositeLit); ok && len(vl.Elts) == 0 {
						isEmpty = true
					}
					if isEmpty {
						empty++
						emptyRows = append(emptyRows, e)
					} else {
						full++
					}
				}
				for i, e := range emptyRows {
					if full >= 2 {
						where := ""
						if fd := enclosingFunc(f, cl.Pos()); fd != nil {
							where = fdName(fd)
						}
						c.fail("T4d", fmt.Sprintf("internal/codegen.%s|table field %s empty row#%d", where, bf, i+1), c.L.Pos(e.Pos()),
							fmt.Sprintf("row %s has no bytes for %s while %d sibling rows do: that combination assembles to nothing", types.ExprString(keyOf(e)), bf, full))
					}
				}
			}
			return true
		})
	}
	c.ok("T4d", "tables scanned", "", fmt.Sprintf("%d byte tables", tables))
}

func keyOf(e ast.Expr) ast.Expr {
	if kv, ok := e.(*ast.KeyValueExpr); ok {
		return kv.Key
	}
	return e
}

// ---------------------------------------------------------------------------------------
// E3s: slices held by shared objects are not appended to / written in place
// ---------------------------------------------------------------------------------------

func ruleE3s(c *Ctx) {
	c.doc("E3s", "a slice stored in a syntax-tree / table / operand object that the function did not allocate is never appended to, re-sliced-and-appended, copied into or element-assigned: append may write into the object's own backing array")
	chain := initChain(c)
	n := 0
	for _, f := range c.L.RepoFuncs() {
		if c.isGeneratedFn(f) || chain[f] {
			continue
		}
		pk := pkgRel(f)
		if pk == "test" || strings.HasPrefix(pk, "cmd/") {
			continue
		}
		tainted := map[ssa.Value]string{}
		for changed := true; changed; {
			changed = false
			for _, b := range f.Blocks {
				for _, in := range b.Instrs {
					v, ok := in.(ssa.Value)
					if !ok || tainted[v] != "" {
						continue
					}
					src := ""
					switch x := v.(type) {
					case *ssa.UnOp:
						if x.Op == token.MUL {
							if fa, ok := x.X.(*ssa.FieldAddr); ok {
								if tn, shared := declaredInSharedPkg(fa.X.Type()); shared {
									if !freshObject(rootOf(fa.X)) {
										if _, isSlice := x.Type().Underlying().(*types.Slice); isSlice {
											src = tn + "." + fieldName(fa)
										}
									}
								}
							}
						}
					case *ssa.Slice:
						src = tainted[x.X]
						if src == "" {
							// p[:k] of a slice parameter whose elements are table / tree objects:
							// appending to it overwrites the caller's backing array
							if prm, ok := x.X.(*ssa.Parameter); ok {
								if sl, ok := prm.Type().Underlying().(*types.Slice); ok {
									et := sl.Elem()
									if pt, ok := et.Underlying().(*types.Pointer); ok {
										et = pt.Elem()
									}
									if tn, shared := declaredInSharedPkg(et); shared {
										src = "parameter " + prm.Name() + " ([]" + tn + ")"
									}
								}
							}
						}
					case *ssa.Phi:
						for _, e := range x.Edges {
							if tainted[e] != "" {
								src = tainted[e]
							}
						}
					}
					if src != "" {
						tainted[v] = src
						changed = true
					}
				}
			}
		}
		if len(tainted) == 0 {
			continue
		}
		per := 0
		for _, b := range f.Blocks {
			for _, in := range b.Instrs {
				how, src := "", ""
				switch x := in.(type) {
				case *ssa.Call:
					if bi, ok := x.Call.Value.(*ssa.Builtin); ok && (bi.Name() == "append" || bi.Name() == "copy") {
						if s := tainted[x.Call.Args[0]]; s != "" {
							how, src = bi.Name(), s
						}
					} else if name := calleeName(x.Common()); inPlaceSliceFunc(name) && len(x.Call.Args) > 0 {
						a0 := x.Call.Args[0]
						if mi, ok := a0.(*ssa.MakeInterface); ok {
							a0 = mi.X
						}
						if s := tainted[a0]; s != "" {
							how, src = name, s
						}
					}
				case *ssa.Store:
					if ia, ok := x.Addr.(*ssa.IndexAddr); ok {
						if s := tainted[ia.X]; s != "" {
							how, src = "element store", s
						}
					}
				}
				if how == "" {
					continue
				}
				per++
				n++
				c.fail("E3s", fmt.Sprintf("%s|%s on %s#%d", shortName(f), how, src, per), c.L.Pos(instrPos(in)),
					fmt.Sprintf("%s applies %s to the slice %s of an object it did not allocate: the parsed tree (or table) is modified in place and a second evaluation sees different data", shortName(f), how, src))
			}
		}
	}
	c.ok("E3s", "functions scanned", "", fmt.Sprintf("%d in-place slice writes on shared objects", n))
}

// freshObject: allocated by this function and not a by-value copy of something passed in (a
// shallow struct copy shares the backing arrays of its slice fields with the original).
func freshObject(root ssa.Value) bool {
	a, ok := root.(*ssa.Alloc)
	if !ok {
		return false
	}
	for _, r := range *a.Referrers() {
		if st, ok := r.(*ssa.Store); ok && st.Addr == a {
			switch v := st.Val.(type) {
			case *ssa.Parameter:
				return false
			case *ssa.UnOp:
				if v.Op == token.MUL {
					if _, isAlloc := rootOf(v.X).(*ssa.Alloc); !isAlloc {
						return false // *p copied into a local
					}
				}
			}
		}
	}
	return true
}

// inPlaceSliceFunc: library functions that rearrange or overwrite the elements of their first argument.
func inPlaceSliceFunc(name string) bool {
	for _, p := range []string{"slices.Delete", "slices.Insert", "slices.Sort", "slices.Reverse", "slices.Compact", "slices.Replace", "sort.Slice", "sort.Sort", "sort.Stable", "sort.Strings", "sort.Ints"} {
		if strings.HasPrefix(name, p) {
			return true
		}
	}
	return false
}

func containsBranch(st ast.Stmt, tok token.Token) bool {
	found := false
	ast.Inspect(st, func(n ast.Node) bool {
		if b, ok := n.(*ast.BranchStmt); ok && b.Tok == tok {
			found = true
		}
		return true
	})
	return found
}
