package main

// Tenth strengthening round (after the seventh seeded round).

import (
	"fmt"
	"go/token"
	"go/types"
	"strings"

	"golang.org/x/tools/go/ssa"
)

// ---------------------------------------------------------------------------------------
// N13if: no method call on an interface variable that may still be nil
// ---------------------------------------------------------------------------------------

func ruleN13if(c *Ctx) {
	c.doc("N13if", "a method is not invoked on an interface value that is the nil interface on some way in (a variable declared without a value and assigned only in some branches of a switch): the call panics for the inputs that take the other branches")
	n := 0
	for _, f := range c.L.RepoFuncs() {
		if c.isGeneratedFn(f) || pkgRel(f) == "test" {
			continue
		}
		per := 0
		callsIn(f, func(ci ssa.CallInstruction) {
			cc := ci.Common()
			if !cc.IsInvoke() {
				return
			}
			ph, ok := cc.Value.(*ssa.Phi)
			if !ok {
				return
			}
			nilEdge := false
			for _, e := range ph.Edges {
				if k, ok := e.(*ssa.Const); ok && k.IsNil() {
					nilEdge = true
				}
			}
			if !nilEdge {
				return
			}
			n++
			per++
			// a test `x != nil` on the way
			var edges []cfgEdge
			for _, b := range f.Blocks {
				iff, ok := b.Instrs[len(b.Instrs)-1].(*ssa.If)
				if !ok {
					continue
				}
				for i := 0; i < 2; i++ {
					if impliesPresent(iff.Cond, i, nil, ph, 0) {
						edges = append(edges, cfgEdge{b, i})
					}
				}
			}
			guarded := len(edges) > 0 && edgesDominate(f, edges, ci.Block())
			c.check(guarded, "N13if", fmt.Sprintf("%s|invoke %s on a possibly nil interface#%d", shortName(f), cc.Method.Name(), per), c.L.Pos(instrPos(ci)), shortName(f)+" calls "+cc.Method.Name()+" on an interface variable that is still nil on one of the ways in (no value was assigned on that branch): nil pointer dereference")
		})
	}
	c.ok("N13if", "invokes on possibly nil interface joins", "", fmt.Sprintf("%d", n))
}

// ---------------------------------------------------------------------------------------
// L14a: the driver appends what the handler returned, whole
// ---------------------------------------------------------------------------------------

func ruleL14a(c *Ctx) {
	c.doc("L14a", "GenerateX86 appends each handler's bytes to the image exactly as returned: the appended value is the handler's result (or empty on error), not a re-slice of it and not a value chosen by looking at the bytes emitted so far — what a statement contributes does not depend on its neighbours")
	f := c.L.SSAFunc("internal/codegen", "GenerateX86")
	if f == nil {
		c.anchorMissing("L14a", "internal/codegen.GenerateX86")
		return
	}
	n := 0
	for _, b := range f.Blocks {
		for _, in := range b.Instrs {
			call, ok := in.(*ssa.Call)
			if !ok {
				continue
			}
			bi, ok := call.Call.Value.(*ssa.Builtin)
			if !ok || bi.Name() != "append" || len(call.Call.Args) != 2 {
				continue
			}
			if _, isByte := call.Type().Underlying().(*types.Slice); !isByte {
				continue
			}
			n++
			// the appended slice: result of a call (or a join of such results / nil)
			bad := ""
			seen := map[ssa.Value]bool{}
			var walk func(v ssa.Value, d int)
			walk = func(v ssa.Value, d int) {
				if d > 6 || seen[v] || bad != "" {
					return
				}
				seen[v] = true
				switch x := v.(type) {
				case *ssa.Extract, *ssa.Call, *ssa.Const:
				case *ssa.Phi:
					for _, e := range x.Edges {
						walk(e, d+1)
					}
				case *ssa.Slice:
					if x.Low != nil || x.High != nil {
						bad = "a re-slice of the handler's bytes"
					} else {
						walk(x.X, d+1)
					}
				case *ssa.Alloc, *ssa.MakeSlice:
				default:
					bad = valueText(v)
				}
			}
			walk(call.Call.Args[1], 0)
			c.check(bad == "", "L14a", fmt.Sprintf("GenerateX86|append#%d takes the handler's bytes whole", n), c.L.Pos(instrPos(in)), "the driver appends "+bad+": a statement's bytes then depend on what was emitted before it")
		}
	}
	// no branch of the loop inspects the image built so far
	loads := 0
	for _, b := range f.Blocks {
		for _, in := range b.Instrs {
			ia, ok := in.(*ssa.IndexAddr)
			if !ok {
				continue
			}
			if ph, ok := ia.X.(*ssa.Phi); ok {
				// indexing the accumulated image (the loop-carried slice)
				for _, e := range ph.Edges {
					if call, ok := e.(*ssa.Call); ok {
						if bi, ok := call.Call.Value.(*ssa.Builtin); ok && bi.Name() == "append" {
							loads++
							c.fail("L14a", fmt.Sprintf("GenerateX86|reads the image built so far#%d", loads), c.L.Pos(instrPos(in)), "the driver looks at a byte it has already emitted: the encoding of the next statement depends on the previous one")
						}
					}
				}
			}
		}
	}
	c.check(n >= 1, "L14a", "GenerateX86|appends found", c.L.Pos(f.Pos()), fmt.Sprintf("%d", n))
}

// ---------------------------------------------------------------------------------------
// G16l: `$` is the location counter itself
// ---------------------------------------------------------------------------------------

func ruleG16l(c *Ctx) {
	c.doc("G16l", "(*Pass1).GetLOC — the value of `$` — returns the location counter field unchanged on every path: no masking, narrowing or mode-dependent rewriting, so `$` and a label defined at the same place are the same number at every origin")
	f := c.L.SSAFunc("internal/pass1", "(*Pass1).GetLOC")
	if f == nil {
		c.anchorMissing("G16l", "internal/pass1.(*Pass1).GetLOC")
		return
	}
	n := 0
	for _, b := range f.Blocks {
		ret, ok := b.Instrs[len(b.Instrs)-1].(*ssa.Return)
		if !ok || len(ret.Results) != 1 {
			continue
		}
		n++
		c.check(isFieldLoad(ret.Results[0], "LOC"), "G16l", fmt.Sprintf("GetLOC|return#%d", n), c.L.Pos(retPos(ret)), "GetLOC returns "+valueText(ret.Results[0])+" instead of the LOC field itself")
	}
	c.check(n == 1, "G16l", "GetLOC|single return", c.L.Pos(f.Pos()), fmt.Sprintf("%d returns (a second return means `$` depends on something besides the counter)", n))
}

// ---------------------------------------------------------------------------------------
// O19w: every successful return of Exec has written the image
// ---------------------------------------------------------------------------------------

func ruleO19w(c *Ctx) {
	c.doc("O19w", "every return of frontend.Exec that is not an error path lies behind a write of the image (the raw file write or FileFormat.Write): no short-cut (`nothing was generated`) returns before the output has its content — an empty program is a 0-byte flat binary, but a COFF object with headers")
	f := c.L.SSAFunc("internal/frontend", "Exec")
	if f == nil {
		c.anchorMissing("O19w", "internal/frontend.Exec")
		return
	}
	var writers []*ssa.BasicBlock
	callsIn(f, func(ci ssa.CallInstruction) {
		cc := ci.Common()
		name := calleeOrDyn(cc)
		if (cc.IsInvoke() && cc.Method.Name() == "Write") || strings.HasSuffix(name, "(*os.File).Write") || strings.HasSuffix(name, "os.WriteFile") {
			writers = append(writers, ci.Block())
		}
	})
	c.check(len(writers) >= 2, "O19w", "Exec|writers found", c.L.Pos(f.Pos()), fmt.Sprintf("%d (raw write and format writer expected)", len(writers)))
	n := 0
	for _, b := range f.Blocks {
		if b == f.Recover {
			continue
		}
		ret, ok := b.Instrs[len(b.Instrs)-1].(*ssa.Return)
		if !ok {
			continue
		}
		// an error path: the block (or a dominator within two steps) calls os.Exit / logs at error level and exits
		n++
		wrote := false
		for _, w := range writers {
			if w.Dominates(b) || w == b {
				wrote = true
			}
		}
		// returns reached only through one of the writers' branches: a writer in some predecessor chain
		if !wrote {
			// every path into b passes a writer block?
			var edges []cfgEdge
			for _, w := range writers {
				for i := range w.Succs {
					edges = append(edges, cfgEdge{w, i})
				}
			}
			wrote = len(edges) > 0 && edgesDominate(f, edges, b)
		}
		c.check(wrote, "O19w", fmt.Sprintf("Exec|return#%d after a write", n), c.L.Pos(retPos(ret)), "Exec can return here without having written the image: the output file is left empty (or untouched) although assembly succeeded")
	}
	c.check(n >= 1, "O19w", "Exec|returns found", c.L.Pos(f.Pos()), fmt.Sprintf("%d", n))
}

// ---------------------------------------------------------------------------------------
// D13m: only a division is guarded by a zero test
// ---------------------------------------------------------------------------------------

func ruleD13m(c *Ctx) {
	c.doc("D13m", "in MultExp.Eval the test `operand == 0` that refuses to fold is made only where the operator is / or %: a zero test placed in front of the operator switch also refuses `7*0`, which is then handed on unevaluated and dropped by the consumer")
	f := c.L.SSAFunc("internal/ast", "(*MultExp).Eval")
	if f == nil {
		c.anchorMissing("D13m", "internal/ast.(*MultExp).Eval")
		return
	}
	divisors := map[ssa.Value]bool{}
	for _, b := range f.Blocks {
		for _, in := range b.Instrs {
			if bo, ok := in.(*ssa.BinOp); ok && (bo.Op == token.QUO || bo.Op == token.REM) && isIntType(bo.Type()) {
				divisors[bo.Y] = true
			}
		}
	}
	// blocks reached only when the operator is / or %
	var divEdges []cfgEdge
	for _, b := range f.Blocks {
		iff, ok := b.Instrs[len(b.Instrs)-1].(*ssa.If)
		if !ok {
			continue
		}
		if bo, ok := iff.Cond.(*ssa.BinOp); ok && (bo.Op == token.EQL || bo.Op == token.NEQ) {
			for _, side := range []ssa.Value{bo.X, bo.Y} {
				if k, ok := side.(*ssa.Const); ok && (constantStringVal(k) == "/" || constantStringVal(k) == "%") {
					if bo.Op == token.EQL {
						divEdges = append(divEdges, cfgEdge{b, 0})
					} else {
						divEdges = append(divEdges, cfgEdge{b, 1})
					}
				}
			}
		}
	}
	n := 0
	for _, b := range f.Blocks {
		iff, ok := b.Instrs[len(b.Instrs)-1].(*ssa.If)
		if !ok {
			continue
		}
		bo, ok := iff.Cond.(*ssa.BinOp)
		if !ok || (bo.Op != token.EQL && bo.Op != token.NEQ) {
			continue
		}
		k, isK := bo.Y.(*ssa.Const)
		if !isK || !isIntConst(k) || k.Int64() != 0 || !divisors[bo.X] {
			continue
		}
		n++
		c.check(len(divEdges) > 0 && edgesDominate(f, divEdges, b), "D13m", fmt.Sprintf("(*MultExp).Eval|zero test#%d inside a division clause", n), c.L.Pos(instrPos(iff)), "the operand is tested against 0 before the operator is known to be / or %: a product with a zero factor is refused as if it were a division by zero")
	}
	c.check(n >= 1, "D13m", "(*MultExp).Eval|zero tests found", c.L.Pos(f.Pos()), fmt.Sprintf("%d", n))
}

// ---------------------------------------------------------------------------------------
// Z18b: the fits predicates depend on the immediate only
// ---------------------------------------------------------------------------------------

func ruleZ18b(c *Ctx) {
	c.doc("Z18b", "whether an immediate fits in N signed bits is a property of its value: the ImmediateValueFits* predicates do not ask what kind of operand the destination is (IsR16Type, IsR32Type, register or memory classes), otherwise `ADD WORD [BX],127` loses the sign-extended imm8 form that `ADD BX,127` gets")
	n := 0
	for _, f := range c.L.RepoFuncs() {
		if pkgRel(f) != "pkg/ng_operand" || !strings.HasPrefix(f.Name(), "ImmediateValueFits") {
			continue
		}
		for _, g := range append([]*ssa.Function{f}, f.AnonFuncs...) {
			callsIn(g, func(ci ssa.CallInstruction) {
				sc := ci.Common().StaticCallee()
				if sc == nil {
					return
				}
				nm := sc.Name()
				if strings.HasPrefix(nm, "IsR") && strings.HasSuffix(nm, "Type") || strings.HasPrefix(nm, "isR") && strings.HasSuffix(nm, "Type") || nm == "isRegisterType" {
					n++
					c.fail("Z18b", fmt.Sprintf("%s|asks %s#%d", shortName(g), nm, n), c.L.Pos(instrPos(ci)), shortName(g)+" asks "+nm+" of an operand while deciding whether the immediate fits: the answer then depends on the kind of destination, and the destinations the predicate does not know lose the short form")
				}
			})
		}
	}
	c.ok("Z18b", "fits predicates|no operand-class question", "", fmt.Sprintf("%d", n))
}

// ---------------------------------------------------------------------------------------
// N11s: a name is never looked for inside the text of an expression
// ---------------------------------------------------------------------------------------

func ruleN11s(c *Ctx) {
	c.doc("N11s", "pass 1 does not search the text of an expression (TokenLiteral) for a name with strings.Contains / Index / HasPrefix / HasSuffix: `LEN` is a substring of `MAXLEN-1` and of `0xA0`… whether an expression mentions a name is decided on its identifiers")
	n := 0
	for _, f := range c.L.RepoFuncs() {
		pk := pkgRel(f)
		if (pk != "internal/pass1" && pk != "internal/ast") || c.isGeneratedFn(f) {
			continue
		}
		per := 0
		callsIn(f, func(ci ssa.CallInstruction) {
			name := calleeName(ci.Common())
			if name != "strings.Contains" && name != "strings.Index" && name != "strings.HasPrefix" && name != "strings.HasSuffix" {
				return
			}
			args := ci.Common().Args
			// haystack: the text of an expression; needle: not a constant
			hay, isCall := args[0].(*ssa.Call)
			if !isCall || !hay.Call.IsInvoke() || hay.Call.Method.Name() != "TokenLiteral" {
				return
			}
			if _, isK := args[1].(*ssa.Const); isK {
				return
			}
			n++
			per++
			c.fail("N11s", fmt.Sprintf("%s|%s of a name in expression text#%d", shortName(f), name, per), c.L.Pos(instrPos(ci)), shortName(f)+" looks for a name inside the text of an expression with "+name+": names that are substrings of other tokens of the expression match as well")
		})
	}
	c.ok("N11s", "substring searches of names in expression text", "", fmt.Sprintf("%d", n))
}

// ---------------------------------------------------------------------------------------
// S6s: in the SIB byte the shifted field is the index register, the low field the base
// ---------------------------------------------------------------------------------------

func ruleS6s(c *Ctx) {
	c.doc("S6s", "in ss | index<<3 | base the value shifted by 3 is computed from MemoryInfo.IndexReg and the unshifted one from MemoryInfo.BaseReg (followed through the parameters of a helper that assembles the byte): swapped arguments encode [ECX+EBX*8] for [EBX+ECX*8]")
	f := c.L.SSAFunc("internal/codegen", "calculateModRM")
	if f == nil {
		c.anchorMissing("S6s", "internal/codegen.calculateModRM")
		return
	}
	n := 0
	for _, g := range unitOf(f, 2) {
		for _, b := range g.Blocks {
			for _, in := range b.Instrs {
				bo, ok := in.(*ssa.BinOp)
				if !ok || bo.Op != token.OR {
					continue
				}
				inner, ok := bo.X.(*ssa.BinOp)
				if !ok || inner.Op != token.OR {
					continue
				}
				sh, ok := inner.Y.(*ssa.BinOp)
				if !ok || sh.Op != token.SHL {
					continue
				}
				if k, ok := sh.Y.(*ssa.Const); !ok || k.Int64() != 3 {
					continue
				}
				n++
				fromIdx := func(v ssa.Value) bool { return dependsOnFieldLoadDeep(v, "IndexReg") }
				fromBase := func(v ssa.Value) bool { return dependsOnFieldLoadDeep(v, "BaseReg") }
				idxOK := valueThroughParams(c, sh.X, fromIdx, 0) && !valueThroughParams(c, sh.X, fromBase, 0)
				baseOK := valueThroughParams(c, bo.Y, fromBase, 0) && !valueThroughParams(c, bo.Y, fromIdx, 0)
				c.check(idxOK, "S6s", fmt.Sprintf("%s|SIB#%d index field from IndexReg", shortName(g), n), c.L.Pos(instrPos(in)), "the field shifted into bits 5-3 of the SIB byte is not computed from the index register (and only from it)")
				c.check(baseOK, "S6s", fmt.Sprintf("%s|SIB#%d base field from BaseReg", shortName(g), n), c.L.Pos(instrPos(in)), "the low field of the SIB byte is not computed from the base register (and only from it)")
			}
		}
	}
	c.check(n >= 1, "S6s", "SIB expressions found", "", fmt.Sprintf("%d", n))
}

// valueThroughParams: pred holds for v, for a value v is converted / joined from, or — when v is
// a parameter — for what every caller passes.
func valueThroughParams(c *Ctx, v ssa.Value, pred func(ssa.Value) bool, depth int) bool {
	if depth > 6 {
		return false
	}
	if pred(v) {
		return true
	}
	switch x := v.(type) {
	case *ssa.Convert:
		return valueThroughParams(c, x.X, pred, depth+1)
	case *ssa.Phi:
		for _, e := range x.Edges {
			if _, isK := e.(*ssa.Const); isK {
				continue
			}
			if valueThroughParams(c, e, pred, depth+1) {
				return true
			}
		}
	case *ssa.Parameter:
		args := c.boundArgs(x)
		if len(args) == 0 {
			return false
		}
		for _, a := range args {
			if !valueThroughParams(c, a, pred, depth+1) {
				return false
			}
		}
		return true
	}
	return false
}

// ---------------------------------------------------------------------------------------
// L19s: the source is read whole, not into a buffer sized by Stat
// ---------------------------------------------------------------------------------------

func ruleL19s(c *Ctx) {
	c.doc("L19s", "readAssets obtains the source bytes with a whole-file read (os.ReadFile / io.ReadAll): it does not size a buffer from FileInfo.Size(), which is 0 for pipes and /dev/stdin — the program would then be read as empty and an empty image written with exit status 0")
	ra := c.L.SSAFunc("cmd/gosk", "readAssets")
	if ra == nil {
		c.anchorMissing("L19s", "cmd/gosk.readAssets")
		return
	}
	n := 0
	main := c.L.SSAFunc("cmd/gosk", "main")
	fns := unitOf(ra, 2)
	if main != nil {
		fns = append(fns, main)
	}
	isSize := func(v ssa.Value) bool {
		call, ok := v.(*ssa.Call)
		return ok && call.Call.IsInvoke() && call.Call.Method.Name() == "Size" && strings.Contains(call.Call.Value.Type().String(), "FileInfo")
	}
	for _, g := range fns {
		for _, b := range g.Blocks {
			for _, in := range b.Instrs {
				ms, ok := in.(*ssa.MakeSlice)
				if !ok {
					continue
				}
				for _, l := range []ssa.Value{ms.Len, ms.Cap} {
					if l != nil && valueThroughParams(c, l, isSize, 0) {
						n++
						c.fail("L19s", fmt.Sprintf("%s|buffer sized from FileInfo.Size#%d", shortName(g), n), c.L.Pos(instrPos(in)), "the source buffer is allocated with the size reported by Stat: 0 for a pipe or /dev/stdin, so the program is read as empty")
						break
					}
				}
			}
		}
	}
	c.ok("L19s", "readAssets|no buffer sized from Stat", c.L.Pos(ra.Pos()), fmt.Sprintf("%d", n))
}

// ---------------------------------------------------------------------------------------
// W11: the head of a sum or product is never taken for the whole
// ---------------------------------------------------------------------------------------

func ruleW11(c *Ctx) {
	c.doc("W11", "a function that reads HeadExp of an *ast.AddExp / *ast.MultExp also reads that node's Operators or TailExps: looking through the wrapper to its head alone takes `2+3` for `2` (an EQU constant or a segment part silently loses its tail)")
	n := 0
	for _, f := range c.L.RepoFuncs() {
		if c.isGeneratedFn(f) || pkgRel(f) == "test" {
			continue
		}
		type acc struct {
			head  ssa.Instruction
			other bool
			tn    string
		}
		per := map[string]*acc{}
		var order []string
		var pathKey func(v ssa.Value, d int) string
		pathKey = func(v ssa.Value, d int) string {
			if u, ok := v.(*ssa.UnOp); ok && u.Op == token.MUL && d < 6 {
				if fa, ok := u.X.(*ssa.FieldAddr); ok {
					return pathKey(fa.X, d+1) + "." + fieldName(fa)
				}
			}
			return v.Name()
		}
		for _, b := range f.Blocks {
			for _, in := range b.Instrs {
				fa, ok := in.(*ssa.FieldAddr)
				if !ok {
					continue
				}
				pt, ok := fa.X.Type().Underlying().(*types.Pointer)
				if !ok {
					continue
				}
				nt, ok := pt.Elem().(*types.Named)
				if !ok || (nt.Obj().Name() != "AddExp" && nt.Obj().Name() != "MultExp") || nt.Obj().Pkg() == nil || !strings.HasSuffix(nt.Obj().Pkg().Path(), "internal/ast") {
					continue
				}
				st := nt.Underlying().(*types.Struct)
				fn := st.Field(fa.Field).Name()
				key := pathKey(fa.X, 0)
				a := per[key]
				if a == nil {
					a = &acc{tn: nt.Obj().Name()}
					per[key] = a
					order = append(order, key)
				}
				switch fn {
				case "HeadExp":
					isRead := false
					if fa.Referrers() != nil {
						for _, r := range *fa.Referrers() {
							if u, ok := r.(*ssa.UnOp); ok && u.Op == token.MUL {
								isRead = true
							}
						}
					}
					if _, fresh := fa.X.(*ssa.Alloc); fresh {
						isRead = false
					}
					if isRead && a.head == nil {
						a.head = in
					}
				case "Operators", "TailExps":
					a.other = true
				}
			}
		}
		k := 0
		for _, v := range order {
			a := per[v]
			if a.head == nil {
				continue
			}
			n++
			k++
			c.check(a.other, "W11", fmt.Sprintf("%s|head of %s read with its tail#%d", shortName(f), a.tn, k), c.L.Pos(instrPos(a.head)), shortName(f)+" reads HeadExp of an "+a.tn+" without looking at its Operators / TailExps: an expression with a tail is taken for its first term")
		}
	}
	c.check(n >= 4, "W11", "HeadExp readers found", "", fmt.Sprintf("%d", n))
}

// ---------------------------------------------------------------------------------------
// S17f: the far-jump size differs by the mode's prefix only
// ---------------------------------------------------------------------------------------

func ruleS17f(c *Ctx) {
	c.doc("S17f", "where pass 1 chooses between the two far-jump sizes (with and without 66h) the choice is made on the bit mode alone — the emitter writes 66h for every far jump in 16-bit mode, whatever the operand's size keyword")
	f := c.L.SSAFunc("internal/pass1", "processCalcJcc")
	if f == nil {
		c.anchorMissing("S17f", "internal/pass1.processCalcJcc")
		return
	}
	n := 0
	for _, g := range unitOf(f, 2) {
		var far []*ssa.BasicBlock
		for _, b := range g.Blocks {
			for _, in := range b.Instrs {
				ta, ok := in.(*ssa.TypeAssert)
				if !ok || !strings.HasSuffix(ta.AssertedType.String(), "ast.SegmentExp") {
					continue
				}
				if !ta.CommaOk {
					far = append(far, b)
					continue
				}
				for _, r := range *ta.Referrers() {
					if ex, ok := r.(*ssa.Extract); ok && ex.Index == 1 && ex.Referrers() != nil {
						for _, r2 := range *ex.Referrers() {
							if iff, ok := r2.(*ssa.If); ok {
								far = append(far, iff.Block().Succs[0])
							}
						}
					}
				}
			}
		}
		for _, prm := range g.Params {
			if strings.HasSuffix(prm.Type().String(), "ast.SegmentExp") && len(g.Blocks) > 0 {
				far = append(far, g.Blocks[0])
			}
		}
		for _, b := range g.Blocks {
			inFar := false
			for _, fb := range far {
				if fb.Dominates(b) {
					inFar = true
				}
			}
			if !inFar {
				continue
			}
			for _, in := range b.Instrs {
				ph, ok := in.(*ssa.Phi)
				if !ok || !isIntType(ph.Type()) {
					continue
				}
				vals := map[int64]bool{}
				allK := true
				for _, e := range ph.Edges {
					if k, ok := e.(*ssa.Const); ok && isIntConst(k) {
						vals[k.Int64()] = true
					} else {
						allK = false
					}
				}
				if !allK || len(vals) != 2 {
					continue
				}
				var lo, hi int64 = 1 << 40, -1
				for v := range vals {
					if v < lo {
						lo = v
					}
					if v > hi {
						hi = v
					}
				}
				if hi-lo != 1 || lo < 5 {
					continue
				}
				n++
				// the branches between the dominator of the join and the join
				top := b.Idom()
				var bad []string
				var badPos token.Pos
				for _, x := range g.Blocks {
					if x == b || top == nil || !top.Dominates(x) || b.Dominates(x) || !reaches(x, b, nil) {
						continue
					}
					iff, ok := x.Instrs[len(x.Instrs)-1].(*ssa.If)
					if !ok {
						continue
					}
					for _, s := range condSource(iff.Cond, map[ssa.Value]bool{}, 0) {
						if !(s == "field:BitMode" || strings.HasSuffix(s, "GetBitMode")) {
							bad = append(bad, s)
							badPos = instrPos(iff)
						}
					}
				}
				pos := instrPos(ph)
				if badPos != token.NoPos {
					pos = badPos
				}
				c.check(len(bad) == 0, "S17f", fmt.Sprintf("%s|far size %d/%d chosen by mode#%d", shortName(g), lo, hi, n), c.L.Pos(pos), fmt.Sprintf("the size of a far jump depends on %v besides the bit mode: the emitter writes the 66h form for every far jump in 16-bit mode, so the sizes disagree for the other operands", bad))
			}
		}
	}
	c.check(n >= 1, "S17f", "far size choices found", c.L.Pos(f.Pos()), fmt.Sprintf("%d", n))
}

// ---------------------------------------------------------------------------------------
// N13c: a result that is tested for nil at one call is tested at every call
// ---------------------------------------------------------------------------------------

func ruleN13c(c *Ctx) {
	c.doc("N13c", "a helper that returns a pointer and has an explicit `return nil` has its result compared with nil at every call site that goes on to use it, once any call site does so (a belief stated at one call and contradicted at the next): the unchecked site stores or dereferences the nil")
	type site struct {
		call    *ssa.Call
		checked bool
		used    bool
	}
	n := 0
	for _, g := range c.L.RepoFuncs() {
		if c.isGeneratedFn(g) || pkgRel(g) == "test" || g.Signature.Results().Len() != 1 {
			continue
		}
		if _, isPtr := g.Signature.Results().At(0).Type().Underlying().(*types.Pointer); !isPtr {
			continue
		}
		retNil, retOther := false, false
		for _, b := range g.Blocks {
			if ret, ok := b.Instrs[len(b.Instrs)-1].(*ssa.Return); ok && len(ret.Results) == 1 {
				if k, ok := ret.Results[0].(*ssa.Const); ok && k.IsNil() {
					retNil = true
				} else {
					retOther = true
				}
			}
		}
		if !retNil || !retOther {
			continue
		}
		var sites []site
		for _, cs := range c.callIndex().sites[g] {
			call, ok := cs.(*ssa.Call)
			if !ok || call.Referrers() == nil || c.isGeneratedFn(call.Parent()) || pkgRel(call.Parent()) == "test" {
				continue
			}
			s := site{call: call}
			var look func(v ssa.Value, d int)
			seen := map[ssa.Value]bool{}
			look = func(v ssa.Value, d int) {
				if d > 3 || seen[v] || v.Referrers() == nil {
					return
				}
				seen[v] = true
				for _, r := range *v.Referrers() {
					switch u := r.(type) {
					case *ssa.BinOp:
						if (u.Op == token.EQL || u.Op == token.NEQ) && (isNilConst(u.X) || isNilConst(u.Y)) {
							s.checked = true
						}
					case *ssa.Phi:
						look(u, d+1)
					case *ssa.Return:
					case *ssa.DebugRef:
					case *ssa.MakeInterface, *ssa.ChangeInterface:
						s.used = true
					default:
						s.used = true
					}
				}
			}
			look(call, 0)
			sites = append(sites, s)
		}
		anyChecked := false
		for _, s := range sites {
			if s.checked {
				anyChecked = true
			}
		}
		if !anyChecked {
			continue
		}
		k := 0
		for _, s := range sites {
			if !s.used {
				continue
			}
			n++
			k++
			c.check(s.checked, "N13c", fmt.Sprintf("%s|result of %s tested for nil#%d", shortName(s.call.Parent()), g.Name(), k), c.L.Pos(instrPos(s.call)), shortName(s.call.Parent())+" uses the result of "+g.Name()+" without the nil test its other call sites make: "+g.Name()+" returns nil for the inputs it cannot handle")
		}
	}
	c.ok("N13c", "call sites of nil-returning helpers whose result is tested somewhere", "", fmt.Sprintf("%d", n))
}

func isNilConst(v ssa.Value) bool {
	k, ok := v.(*ssa.Const)
	return ok && k.IsNil()
}

// ---------------------------------------------------------------------------------------
// K18m: candidate encodings are not filtered by the bit mode
// ---------------------------------------------------------------------------------------

func ruleK18m(c *Ctx) {
	c.doc("K18m", "filterEncodings keeps or drops an encoding by its own fields and the shape of the operands, never by the bit mode: every encoding is available in both modes (the mode only adds a prefix, which the size comparison accounts for), so a mode-dependent filter removes the shortest candidate in one of the modes")
	f := c.L.SSAFunc("pkg/asmdb", "filterEncodings")
	if f == nil {
		c.anchorMissing("K18m", "pkg/asmdb.filterEncodings")
		return
	}
	n := 0
	for _, g := range append([]*ssa.Function{f}, f.AnonFuncs...) {
		callsIn(g, func(ci ssa.CallInstruction) {
			cc := ci.Common()
			nm := ""
			if cc.IsInvoke() {
				nm = cc.Method.Name()
			} else if sc := cc.StaticCallee(); sc != nil {
				nm = sc.Name()
			}
			if nm == "GetBitMode" {
				n++
				c.fail("K18m", fmt.Sprintf("%s|asks the bit mode#%d", shortName(g), n), c.L.Pos(instrPos(ci)), "the candidate filter asks the bit mode: an encoding that is valid (with a prefix) in the other mode is removed before the sizes are compared")
			}
		})
	}
	c.ok("K18m", "filterEncodings|mode-blind", c.L.Pos(f.Pos()), fmt.Sprintf("%d", n))
}
