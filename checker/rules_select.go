package main

// C18 (compact encodings): selection machinery. I1 (canonical boundary intervals, shared
// with C02/C04), F8c (comparators), F8a (pass 1 and emitters ask the table the same way).

import (
	"fmt"
	"go/ast"
	"go/token"
	"go/types"
	"sort"
	"strings"

	"golang.org/x/tools/go/ssa"
)

var canonicalPairs = map[[2]int64]string{
	{-128, 127}:               "signed 8-bit",
	{-32768, 32767}:           "signed 16-bit",
	{-2147483648, 2147483647}: "signed 32-bit",
	{0, 255}:                  "unsigned 8-bit",
	{0, 65535}:                "unsigned 16-bit",
	{-32768, 65535}:           "16-bit signed or unsigned",
	{-128, 255}:               "8-bit signed or unsigned",
}
var canonicalBoundaries = []int64{-128, 127, -32768, 32767, -2147483648, 2147483647, 255, 65535}

func nearBoundary(v int64) bool {
	for _, b := range canonicalBoundaries {
		if v >= b-2 && v <= b+2 {
			return true
		}
	}
	return false
}

// rangeTest recognises `x >= a && x <= b` (any mix of strict/non-strict, either operand
// order) and `x < a || x > b`, returning the closed in-range interval.
func rangeTest(info *types.Info, be *ast.BinaryExpr) (expr string, lo, hi int64, ok bool) {
	if be.Op != token.LAND && be.Op != token.LOR {
		return
	}
	type bound struct {
		expr   string
		isLo   bool
		v      int64
		strict bool
	}
	one := func(e ast.Expr) (b bound, ok bool) {
		c, isBin := ast.Unparen(e).(*ast.BinaryExpr)
		if !isBin {
			return
		}
		op := c.Op
		x, y := c.X, c.Y
		kv, isConst := constInt(info, y)
		if !isConst {
			kv, isConst = constInt(info, x)
			if !isConst {
				return
			}
			x = y
			switch op {
			case token.LSS:
				op = token.GTR
			case token.LEQ:
				op = token.GEQ
			case token.GTR:
				op = token.LSS
			case token.GEQ:
				op = token.LEQ
			}
		}
		if _, selfConst := constInt(info, x); selfConst {
			return
		}
		b.expr = types.ExprString(x)
		switch op {
		case token.GEQ:
			b.isLo, b.v = true, kv
		case token.GTR:
			b.isLo, b.v = true, kv+1
		case token.LEQ:
			b.isLo, b.v = false, kv
		case token.LSS:
			b.isLo, b.v = false, kv-1
		default:
			return b, false
		}
		return b, true
	}
	l, ok1 := one(be.X)
	r, ok2 := one(be.Y)
	if !ok1 || !ok2 || l.expr != r.expr || l.isLo == r.isLo {
		return
	}
	if be.Op == token.LOR {
		// x < a || x > b : out of range; in-range is [a, b] = complement
		// one(x < a) gave hi = a-1 (isLo=false); complement lower bound = a
		if !l.isLo {
			l, r = r, l
		}
		// now l.isLo (x > b → lo=b+1) is actually the upper out-of-range part
		lo = r.v + 1
		hi = l.v - 1
		return l.expr, lo, hi, true
	}
	if !l.isLo {
		l, r = r, l
	}
	return l.expr, l.v, r.v, true
}

func ruleI1(c *Ctx) {
	c.doc("I1", "every range test whose bounds lie at (or within ±2 of) an 8/16/32-bit boundary uses exactly the canonical bounds of that width: [-128,127], [-32768,32767], [-2^31,2^31-1] (or the unsigned / either-signedness variants)")
	n := 0
	c.L.AllFuncDecls(func(p *packagesPackage, f *ast.File, fd *ast.FuncDecl) {
		if c.L.isGeneratedFile(f) {
			return
		}
		rel := relPkg(p)
		if rel == "test" || strings.HasPrefix(rel, "cmd/codegen") {
			return
		}
		per := 0
		ast.Inspect(fd.Body, func(x ast.Node) bool {
			be, ok := x.(*ast.BinaryExpr)
			if !ok {
				return true
			}
			expr, lo, hi, ok := rangeTest(p.TypesInfo, be)
			if !ok {
				return true
			}
			if !nearBoundary(lo) && !nearBoundary(hi) {
				return true
			}
			n++
			per++
			key := fmt.Sprintf("%s.%s|range test#%d on %s", rel, fdName(fd), per, expr)
			name, canon := canonicalPairs[[2]int64{lo, hi}]
			if canon {
				c.ok("I1", key, c.L.Pos(be.Pos()), fmt.Sprintf("[%d,%d] %s", lo, hi, name))
			} else {
				c.fail("I1", key, c.L.Pos(be.Pos()), fmt.Sprintf("range [%d,%d] is next to a width boundary but is not a canonical 8/16/32-bit range: values at the boundary get the wrong width", lo, hi))
			}
			return true
		})
	})
	c.analysed["I1_range_tests"] = n
	c.floor("I1", 14)
}

// ---------------------------------------------------------------------------------------
// F8c: comparators of the encoding selection
// ---------------------------------------------------------------------------------------

func ruleF8c(c *Ctx) {
	c.doc("F8c", "encoding selection: the candidate with the smaller encoded size wins (a is preferred when size(a) < size(b)), invalid imm8 candidates lose, accumulator and imm8 forms win ties, the minimum (not maximum) is taken; the imm8 preference applies exactly to the group-1 ALU mnemonics")
	p := c.L.Pkg("pkg/asmdb")
	if p == nil {
		c.anchorMissing("F8c", "pkg/asmdb")
		return
	}
	info := p.TypesInfo
	// sign-extendable set
	if fd, _ := c.L.FuncDecl("pkg/asmdb", "isSignExtendable"); fd == nil {
		c.anchorMissing("F8c", "asmdb.isSignExtendable")
	} else {
		got := map[string]bool{}
		for _, sw := range switchesIn(fd.Body) {
			for _, row := range rowsOf(sw) {
				ret := firstReturn(row.Body)
				isTrue := false
				if ret != nil && len(ret.Results) == 1 {
					if id, ok := ret.Results[0].(*ast.Ident); ok && id.Name == "true" {
						isTrue = true
					}
				}
				if !isTrue {
					continue
				}
				for _, k := range row.Keys {
					if s, ok := constStr(info, k); ok {
						got[s] = true
					}
				}
			}
		}
		// the same set kept as a read-only map[string]bool
		if len(got) == 0 {
			for _, kv := range readOnlyStringTable(c, p, fd) {
				if isMemberValue(kv.Value) {
					if s, ok := constStr(info, kv.Key); ok {
						got[s] = true
					}
				}
			}
		}
		want := []string{"ADC", "ADD", "AND", "CMP", "OR", "SBB", "SUB", "XOR"}
		var gl []string
		for k := range got {
			gl = append(gl, k)
		}
		sort.Strings(gl)
		c.check(strings.Join(gl, ",") == strings.Join(want, ","), "F8c", "isSignExtendable|set", c.L.Pos(fd.Pos()), fmt.Sprintf("mnemonics with a sign-extended imm8 form (opcode 83 /n) are %v; the function lists %v", want, gl))
	}
	for _, fn := range []string{"findBestEncodingForSignExtendable", "findBestEncodingForNonSignExtendable"} {
		fd, _ := c.L.FuncDecl("pkg/asmdb", fn)
		if fd == nil {
			c.anchorMissing("F8c", "asmdb."+fn)
			continue
		}
		if fd.Type.Params.NumFields() < 2 {
			c.fail("F8c", fn+"|signature", c.L.Pos(fd.Pos()), "comparator must take (a, b, …)")
			continue
		}
		aObj := info.Defs[fd.Type.Params.List[0].Names[0]]
		var bObj types.Object
		if len(fd.Type.Params.List[0].Names) > 1 {
			bObj = info.Defs[fd.Type.Params.List[0].Names[1]]
		} else {
			bObj = info.Defs[fd.Type.Params.List[1].Names[0]]
		}
		// the comparator's body and the plain helpers of its package it hands (a, b) to: for each,
		// which of its own parameters stand for a and for b
		type cmpBody struct {
			body *ast.BlockStmt
			a, b types.Object
		}
		cmpBodies := []cmpBody{{fd.Body, aObj, bObj}}
		ast.Inspect(fd.Body, func(n ast.Node) bool {
			call, ok := n.(*ast.CallExpr)
			if !ok || len(call.Args) < 2 {
				return true
			}
			hfn, ok := calleeOf(info, call).(*types.Func)
			if !ok || hfn.Pkg() != p.Types {
				return true
			}
			hd := funcDeclOf(p, hfn)
			if hd == nil || hd.Body == nil || hd.Recv != nil || hd == fd || hd.Type.Params == nil {
				return true
			}
			a0, ok0 := ast.Unparen(call.Args[0]).(*ast.Ident)
			a1, ok1 := ast.Unparen(call.Args[1]).(*ast.Ident)
			if !ok0 || !ok1 || info.Uses[a0] != aObj || info.Uses[a1] != bObj {
				return true
			}
			var ps []types.Object
			for _, fld := range hd.Type.Params.List {
				for _, nm := range fld.Names {
					ps = append(ps, info.Defs[nm])
				}
			}
			if len(ps) >= 2 {
				cmpBodies = append(cmpBodies, cmpBody{hd.Body, ps[0], ps[1]})
			}
			return true
		})
		// size variables
		sizeOf := map[types.Object]types.Object{} // local var -> which param's GetOutputSize
		toAB := map[types.Object]types.Object{}   // a helper's own parameters -> the comparator's a / b
		for _, cb := range cmpBodies {
			toAB[cb.a], toAB[cb.b] = aObj, bObj
		}
		for _, cb := range cmpBodies {
			ast.Inspect(cb.body, func(n ast.Node) bool {
				as, ok := n.(*ast.AssignStmt)
				if !ok || len(as.Lhs) != 1 || len(as.Rhs) != 1 {
					return true
				}
				call, ok := as.Rhs[0].(*ast.CallExpr)
				if !ok {
					return true
				}
				sel, ok := call.Fun.(*ast.SelectorExpr)
				if !ok || sel.Sel.Name != "GetOutputSize" {
					return true
				}
				if rid, ok := sel.X.(*ast.Ident); ok {
					if lid, ok := as.Lhs[0].(*ast.Ident); ok {
						sizeOf[info.Defs[lid]] = toAB[info.Uses[rid]]
					}
				}
				return true
			})
		}
		sizeRet := false
		var sizePos, accPos, immPos, validPos token.Pos
		for _, cb := range cmpBodies {
			ast.Inspect(cb.body, func(n ast.Node) bool {
				switch x := n.(type) {
				case *ast.ReturnStmt:
					if len(x.Results) < 1 || len(x.Results) > 2 {
						return true
					}
					be, ok := ast.Unparen(x.Results[0]).(*ast.BinaryExpr)
					if !ok {
						return true
					}
					l, lok := be.X.(*ast.Ident)
					r, rok := be.Y.(*ast.Ident)
					if !lok || !rok {
						return true
					}
					lp, rp := sizeOf[info.Uses[l]], sizeOf[info.Uses[r]]
					if lp == nil || rp == nil {
						return true
					}
					sizeRet = true
					sizePos = x.Pos()
					good := (be.Op == token.LSS && lp == aObj && rp == bObj) || (be.Op == token.GTR && lp == bObj && rp == aObj)
					c.check(good, "F8c", fn+"|smaller size wins", c.L.Pos(x.Pos()), fmt.Sprintf("a must be preferred when size(a) < size(b); the comparator returns %s", types.ExprString(be)))
				case *ast.AssignStmt:
					if len(x.Lhs) == 1 {
						if id, ok := x.Lhs[0].(*ast.Ident); ok {
							switch {
							case strings.HasPrefix(id.Name, "validity"):
								validPos = x.Pos()
							case strings.HasPrefix(id.Name, "accPreference"):
								accPos = x.Pos()
							case strings.HasPrefix(id.Name, "imm8Preference"):
								immPos = x.Pos()
							}
						}
					}
				}
				return true
			})
		}
		if !sizeRet {
			c.fail("F8c", fn+"|smaller size wins", c.L.Pos(fd.Pos()), "no `return sizeA < sizeB` on GetOutputSize results")
		}
		// lo.Switch rows
		rows := 0
		ast.Inspect(fd.Body, func(n ast.Node) bool {
			call, ok := n.(*ast.CallExpr)
			if !ok || len(call.Args) != 2 {
				return true
			}
			sel, ok := call.Fun.(*ast.SelectorExpr)
			if !ok || sel.Sel.Name != "Case" {
				return true
			}
			cl, ok := call.Args[0].(*ast.CompositeLit)
			if !ok || len(cl.Elts) != 2 {
				return true
			}
			bv := func(e ast.Expr) (bool, bool) {
				id, ok := e.(*ast.Ident)
				if !ok {
					return false, false
				}
				return id.Name == "true", id.Name == "true" || id.Name == "false"
			}
			a, ok1 := bv(cl.Elts[0])
			b, ok2 := bv(cl.Elts[1])
			res, ok3 := false, false
			if rc, ok := call.Args[1].(*ast.CallExpr); ok && len(rc.Args) == 1 {
				res, ok3 = bv(rc.Args[0])
			}
			if !ok1 || !ok2 || !ok3 {
				c.fail("F8c", fmt.Sprintf("%s|preference row#%d", fn, rows+1), c.L.Pos(call.Pos()), "undecided: non-literal preference row")
				rows++
				return true
			}
			rows++
			key := fmt.Sprintf("%s|preference row#%d (%v,%v)", fn, rows, a, b)
			switch {
			case a && !b:
				c.check(res, "F8c", key, c.L.Pos(call.Pos()), "when only a has the preferred property, a must win (return true)")
			case !a && b:
				c.check(!res, "F8c", key, c.L.Pos(call.Pos()), "when only b has the preferred property, b must win (return false)")
			default:
				c.check(!res, "F8c", key, c.L.Pos(call.Pos()), "when both candidates have (or both lack) the property the row must not prefer a (return false): a comparator that is true on a tie makes the choice depend on the order of the table rows")
			}
			return true
		})
		// order of criteria: each if is classified by what its condition is computed from
		// (chasing single-assignment locals): the fits-in-imm8 predicate, encoding sizes, the
		// ModRM field (accumulator form), the immediate's size (imm8 form)
		defs := map[types.Object]ast.Expr{}
		for _, cb := range cmpBodies {
			ast.Inspect(cb.body, func(n ast.Node) bool {
				if as, ok := n.(*ast.AssignStmt); ok && as.Tok == token.DEFINE && len(as.Lhs) == len(as.Rhs) {
					for i, l := range as.Lhs {
						if id, ok := l.(*ast.Ident); ok && info.Defs[id] != nil {
							defs[info.Defs[id]] = as.Rhs[i]
						}
					}
				}
				// x, ok := helper(a, b): both names are computed from the call
				if as, ok := n.(*ast.AssignStmt); ok && as.Tok == token.DEFINE && len(as.Rhs) == 1 && len(as.Lhs) > 1 {
					for _, l := range as.Lhs {
						if id, ok := l.(*ast.Ident); ok && info.Defs[id] != nil {
							defs[info.Defs[id]] = as.Rhs[0]
						}
					}
				}
				return true
			})
		}
		calleeDepth := 0
		var tagsOf func(e ast.Expr, seen map[types.Object]bool, out map[string]bool)
		tagsOf = func(e ast.Expr, seen map[types.Object]bool, out map[string]bool) {
			ast.Inspect(e, func(n ast.Node) bool {
				switch x := n.(type) {
				case *ast.SelectorExpr:
					switch x.Sel.Name {
					case "ImmediateValueFitsInSigned8Bits":
						out["fits"] = true
					case "GetOutputSize":
						out["size"] = true
					case "ModRM":
						out["modrm"] = true
					case "Size":
						if in, ok := x.X.(*ast.SelectorExpr); ok && in.Sel.Name == "Immediate" {
							out["immsize"] = true
						}
					}
				case *ast.Ident:
					if obj := info.Uses[x]; obj != nil && !seen[obj] {
						if d, ok := defs[obj]; ok {
							seen[obj] = true
							tagsOf(d, seen, out)
						}
					}
				case *ast.CallExpr:
					// a helper of this package: what its body is computed from
					if fn, ok := calleeOf(info, x).(*types.Func); ok && fn.Pkg() != nil && fn.Pkg().Path() == modPath+"/pkg/asmdb" && calleeDepth < 3 {
						if hp := c.L.Pkg("pkg/asmdb"); hp != nil {
							if hd := funcDeclOf(hp, fn); hd != nil && hd.Body != nil && hd != fd && hd.Recv == nil {
								calleeDepth++
								tagsOf(&ast.FuncLit{Type: hd.Type, Body: hd.Body}, seen, out)
								calleeDepth--
							}
						}
					}
				}
				return true
			})
		}
		type critIf struct {
			pos  token.Pos // a sequence number: the order in which the tests are made
			tags map[string]bool
		}
		var ifs []critIf
		seq := token.Pos(0)
		next := func() token.Pos { seq++; return seq }
		inlineDepth := 0
		// helperOf: the plain helper of this package that the condition of an if is the result of
		// (`if less, decided := helper(a, b); decided { return less }`)
		helperOf := func(is *ast.IfStmt) *ast.FuncDecl {
			var hd *ast.FuncDecl
			visit := func(e ast.Node) {
				ast.Inspect(e, func(n ast.Node) bool {
					call, ok := n.(*ast.CallExpr)
					if !ok {
						return true
					}
					if hfn, ok := calleeOf(info, call).(*types.Func); ok && hfn.Pkg() == p.Types {
						if d := funcDeclOf(p, hfn); d != nil && d.Body != nil && d.Recv == nil && d != fd {
							hd = d
						}
					}
					return true
				})
			}
			if is.Init != nil {
				visit(is.Init)
			}
			visit(is.Cond)
			return hd
		}
		var collect func(list []ast.Stmt, outer map[string]bool)
		collect = func(list []ast.Stmt, outer map[string]bool) {
			for _, st := range list {
				// a test delegated to a helper that makes several tests itself: they count in its order
				if is, ok := st.(*ast.IfStmt); ok && inlineDepth < 2 {
					if hd := helperOf(is); hd != nil {
						nIfs := 0
						ast.Inspect(hd.Body, func(n ast.Node) bool {
							if _, ok := n.(*ast.IfStmt); ok {
								nIfs++
							}
							return true
						})
						if nIfs >= 1 {
							inlineDepth++
							collect(hd.Body.List, outer)
							inlineDepth--
							continue
						}
					}
				}
				// a tagless switch whose clauses return is a test on all of its case conditions
				if sw, ok := st.(*ast.SwitchStmt); ok && sw.Tag == nil {
					tags := map[string]bool{}
					for k := range outer {
						tags[k] = true
					}
					returns := false
					for _, cl := range sw.Body.List {
						cc, ok := cl.(*ast.CaseClause)
						if !ok {
							continue
						}
						for _, e := range cc.List {
							tagsOf(e, map[types.Object]bool{}, tags)
						}
						for _, bs := range cc.Body {
							if _, ok := bs.(*ast.ReturnStmt); ok {
								returns = true
							}
						}
					}
					if returns {
						ifs = append(ifs, critIf{next(), tags})
					}
					continue
				}
				is, ok := st.(*ast.IfStmt)
				if !ok {
					continue
				}
				tags := map[string]bool{}
				for k := range outer {
					tags[k] = true
				}
				tagsOf(is.Cond, map[types.Object]bool{}, tags)
				returns := false
				for _, bs := range is.Body.List {
					if _, ok := bs.(*ast.ReturnStmt); ok {
						returns = true
					}
				}
				if returns {
					ifs = append(ifs, critIf{next(), tags})
				}
				collect(is.Body.List, tags)
			}
		}
		collect(fd.Body.List, map[string]bool{})
		first := func(pred func(critIf) bool, after token.Pos) token.Pos {
			for _, ci := range ifs {
				if ci.pos > after && pred(ci) {
					return ci.pos
				}
			}
			return token.NoPos
		}
		sizeIf := first(func(ci critIf) bool { return ci.tags["size"] }, token.NoPos)
		accIf := first(func(ci critIf) bool { return ci.tags["modrm"] }, token.NoPos)
		if fn == "findBestEncodingForSignExtendable" {
			validIf := first(func(ci critIf) bool { return ci.tags["fits"] && ci.tags["immsize"] }, token.NoPos)
			immIf := token.NoPos
			if accIf.IsValid() {
				immIf = first(func(ci critIf) bool { return ci.tags["immsize"] && !ci.tags["modrm"] }, accIf)
			}
			ord := validIf.IsValid() && sizeIf.IsValid() && accIf.IsValid() && immIf.IsValid() && validIf < sizeIf && sizeIf < accIf && accIf < immIf
			c.check(ord, "F8c", fn+"|criteria order", c.L.Pos(fd.Pos()), "criteria must be applied in the order validity, size, accumulator form, imm8 form")
		} else {
			ord := sizeIf.IsValid() && accIf.IsValid() && sizeIf < accIf
			c.check(ord, "F8c", fn+"|criteria order", c.L.Pos(fd.Pos()), "criteria must be applied in the order size, accumulator form")
		}
		_, _, _, _ = sizePos, accPos, immPos, validPos
		// the same preference written as `if pA != pB { return pA }`: the a-side flag is returned
		side := func(e ast.Expr) types.Object {
			var got types.Object
			both := false
			var walk func(e ast.Expr, seen map[types.Object]bool)
			walk = func(e ast.Expr, seen map[types.Object]bool) {
				ast.Inspect(e, func(n ast.Node) bool {
					id, ok := n.(*ast.Ident)
					if !ok {
						return true
					}
					obj := info.Uses[id]
					if obj == aObj || obj == bObj {
						if got != nil && got != obj {
							both = true
						}
						got = obj
					} else if d, ok := defs[obj]; ok && !seen[obj] {
						seen[obj] = true
						walk(d, seen)
					}
					return true
				})
			}
			walk(e, map[types.Object]bool{})
			if both {
				return nil
			}
			return got
		}
		nd := 0
		// `P && !Q` (only the candidate P belongs to has the property) must return whether that candidate is a
		onlyOne := func(cond ast.Expr, body []ast.Stmt, pos token.Pos) {
			be, ok := ast.Unparen(cond).(*ast.BinaryExpr)
			if !ok || be.Op != token.LAND || len(body) != 1 {
				return
			}
			ret, ok := body[0].(*ast.ReturnStmt)
			if !ok || len(ret.Results) != 1 {
				return
			}
			lit, ok := ast.Unparen(ret.Results[0]).(*ast.Ident)
			if !ok || (lit.Name != "true" && lit.Name != "false") {
				return
			}
			var pos1, neg1 *ast.Ident
			for _, e := range []ast.Expr{be.X, be.Y} {
				switch y := ast.Unparen(e).(type) {
				case *ast.Ident:
					pos1 = y
				case *ast.UnaryExpr:
					if id, ok := ast.Unparen(y.X).(*ast.Ident); ok && y.Op == token.NOT {
						neg1 = id
					}
				}
			}
			if pos1 == nil || neg1 == nil || !isBoolType(info.TypeOf(pos1)) {
				return
			}
			sp, sn := side(pos1), side(neg1)
			if sp == nil || sn == nil || sp == sn {
				return
			}
			nd++
			c.check((lit.Name == "true") == (sp == aObj), "F8c", fmt.Sprintf("%s|preference direction#%d", fn, nd), c.L.Pos(pos), fmt.Sprintf("when only %s holds (not %s) the comparator must return %v; it returns %s", pos1.Name, neg1.Name, sp == aObj, lit.Name))
		}
		ast.Inspect(fd.Body, func(n ast.Node) bool {
			switch x := n.(type) {
			case *ast.IfStmt:
				onlyOne(x.Cond, x.Body.List, x.Pos())
			case *ast.CaseClause:
				for _, e := range x.List {
					onlyOne(e, x.Body, x.Pos())
				}
			}
			return true
		})
		ast.Inspect(fd.Body, func(n ast.Node) bool {
			is, ok := n.(*ast.IfStmt)
			if !ok || len(is.Body.List) != 1 {
				return true
			}
			ret, ok := is.Body.List[0].(*ast.ReturnStmt)
			if !ok || len(ret.Results) != 1 {
				return true
			}
			var ne *ast.BinaryExpr
			var find func(e ast.Expr)
			find = func(e ast.Expr) {
				if be, ok := ast.Unparen(e).(*ast.BinaryExpr); ok {
					if be.Op == token.NEQ {
						ne = be
					} else if be.Op == token.LAND {
						find(be.X)
						find(be.Y)
					}
				}
			}
			find(is.Cond)
			rid, isId := ast.Unparen(ret.Results[0]).(*ast.Ident)
			if ne == nil || !isId {
				return true
			}
			l, lok := ast.Unparen(ne.X).(*ast.Ident)
			r, rok := ast.Unparen(ne.Y).(*ast.Ident)
			if !lok || !rok || !isBoolType(info.TypeOf(l)) {
				return true
			}
			sl, sr := side(l), side(r)
			if sl == nil || sr == nil || sl == sr {
				return true
			}
			nd++
			aFlag := l
			if sr == aObj {
				aFlag = r
			}
			c.check(info.Uses[rid] == info.Uses[aFlag], "F8c", fmt.Sprintf("%s|preference direction#%d", fn, nd), c.L.Pos(is.Pos()), fmt.Sprintf("when exactly one of %s / %s holds the comparator must return the flag of a (%s); it returns %s", l.Name, r.Name, aFlag.Name, rid.Name))
			return true
		})
	}
	// validity definition and the signed-8 predicate feeding it
	if fd, _ := c.L.FuncDecl("pkg/asmdb", "findBestEncodingForSignExtendable"); fd != nil {
		fits, imm1 := false, 0
		ast.Inspect(fd.Body, func(n ast.Node) bool {
			switch x := n.(type) {
			case *ast.CallExpr:
				if sel, ok := x.Fun.(*ast.SelectorExpr); ok && sel.Sel.Name == "ImmediateValueFitsInSigned8Bits" {
					fits = true
				}
			case *ast.BinaryExpr:
				if x.Op == token.EQL {
					if sel, ok := ast.Unparen(x.X).(*ast.SelectorExpr); ok && sel.Sel.Name == "Size" {
						if v, ok := constInt(info, x.Y); ok && v == 1 {
							imm1++
						}
					}
				}
			}
			return true
		})
		c.check(fits, "F8c", "findBestEncodingForSignExtendable|validity uses the signed-8 test", c.L.Pos(fd.Pos()), "an imm8 candidate is valid only if the immediate fits in a signed byte")
		c.check(imm1 >= 2, "F8c", "findBestEncodingForSignExtendable|imm8 = Immediate.Size 1", c.L.Pos(fd.Pos()), "imm8 candidates are those with Immediate.Size == 1 (for a and b)")
	}
	// FindEncoding takes the minimum with these comparators
	if f := c.L.SSAFunc("pkg/asmdb", "(*InstructionDB).FindEncoding"); f == nil {
		c.anchorMissing("F8c", "asmdb.FindEncoding")
	} else {
		mins, others := 0, 0
		// FindEncoding together with the helpers of its package it calls (selection may be a phase of its own)
		for _, g := range unitOf(f, 2) {
			callsIn(g, func(ci ssa.CallInstruction) {
				n := calleeName(ci.Common())
				if strings.Contains(n, "samber/lo.MinBy") {
					mins++
				}
				if strings.Contains(n, "samber/lo.MaxBy") || strings.Contains(n, "samber/lo.First") || strings.Contains(n, "samber/lo.Last") {
					others++
				}
			})
		}
		// the same selection written as a loop: best = first; for each candidate, if less(candidate, best) { best = candidate }
		if mins == 0 {
			for _, g := range unitOf(f, 2) {
				callsIn(g, func(ci ssa.CallInstruction) {
					cc := ci.Common()
					sig, ok := cc.Value.Type().Underlying().(*types.Signature)
					if !ok || cc.IsInvoke() || sig.Results().Len() != 1 || !isBoolType(sig.Results().At(0).Type()) || len(cc.Args) < 2 {
						return
					}
					// a comparator of two encodings: one of the two named comparators, or a function value
					n0, _ := namedOf(cc.Args[0].Type())
					n1, _ := namedOf(cc.Args[1].Type())
					if n0 != "Encoding" || n1 != "Encoding" {
						return
					}
					if sc := cc.StaticCallee(); sc != nil && !strings.HasPrefix(sc.Name(), "findBestEncoding") && sc.Parent() == nil {
						return
					}
					v, isVal := ci.(ssa.Value)
					if !isVal || loopHeaderOf(ci.Block()) == nil || v.Referrers() == nil {
						return
					}
					for _, r := range *v.Referrers() {
						if _, isIf := r.(*ssa.If); isIf {
							mins++
						}
					}
				})
			}
		}
		c.check(mins >= 1 && others == 0, "F8c", "FindEncoding|takes the minimum", c.L.Pos(f.Pos()), fmt.Sprintf("the best candidate is lo.MinBy under the comparator (found MinBy x%d, other selectors x%d)", mins, others))
	}
	c.floor("F8c", 16)
}

// ---------------------------------------------------------------------------------------
// F8a: pass 1 and the emitters query the table the same way
// ---------------------------------------------------------------------------------------

func ruleF8a(c *Ctx) {
	c.doc("F8a", "for a mnemonic sized through the instruction table, the emitter's first table query uses the same matchAnyImm flag as the sizing query and the same operand flags (WithForceRelAsImm)")
	fm := c.L.SSAFunc("pkg/asmdb", "(*InstructionDB).FindMinOutputSize")
	if fm == nil {
		c.anchorMissing("F8a", "asmdb.FindMinOutputSize")
		return
	}
	var firstFlag func(f *ssa.Function) (val int, pos token.Pos, ok bool)
	flagDepth := 0
	firstFlag = func(f *ssa.Function) (val int, pos token.Pos, ok bool) {
		// the FindEncoding call whose block dominates all other FindEncoding calls
		var calls []ssa.CallInstruction
		callsIn(f, func(ci ssa.CallInstruction) {
			if strings.HasSuffix(calleeName(ci.Common()), ".FindEncoding") {
				calls = append(calls, ci)
			}
		})
		// the query made by a phase helper of the same package on this function's behalf
		if len(calls) == 0 && flagDepth < 2 && pkgRel(f) == "pkg/asmdb" {
			var helpers []*ssa.Function
			callsIn(f, func(ci ssa.CallInstruction) {
				if g := ci.Common().StaticCallee(); g != nil && g.Pkg == f.Pkg && g != f && len(g.Blocks) > 0 {
					helpers = append(helpers, g)
				}
			})
			for _, g := range helpers {
				flagDepth++
				v, p, k := firstFlag(g)
				flagDepth--
				if p != token.NoPos {
					return v, p, k
				}
			}
		}
		for _, a := range calls {
			first := true
			for _, b := range calls {
				if a != b && !(a.Block().Dominates(b.Block())) {
					first = false
				}
			}
			if first {
				args := a.Common().Args
				k, isK := args[len(args)-1].(*ssa.Const)
				if !isK {
					return 0, instrPos(a), false
				}
				if k.Value.String() == "true" {
					return 1, instrPos(a), true
				}
				return 0, instrPos(a), true
			}
		}
		return 0, token.NoPos, false
	}
	want, _, ok := firstFlag(fm)
	if !ok {
		c.fail("F8a", "FindMinOutputSize|first query flag", c.L.Pos(fm.Pos()), "undecided")
		return
	}
	n := 0
	for _, f := range c.L.RepoFuncs() {
		if pkgRel(f) != "internal/codegen" || f.Parent() != nil {
			continue
		}
		got, pos, ok := firstFlag(f)
		if pos == token.NoPos {
			continue
		}
		n++
		key := shortName(f) + "|matchAnyImm of the first table query"
		if !ok {
			// a different key from the constant-flag case: a known finding about a constant
			// flag must not hide a flag that has since become data-dependent
			c.fail("F8a", key+" is computed", c.L.Pos(pos), "undecided: the matchAnyImm flag of the first table query is not a constant, so the emitter's choice of form depends on the operand while pass 1 sized the statement with a fixed flag")
			continue
		}
		c.check(got == want, "F8a", key, c.L.Pos(pos), fmt.Sprintf("pass 1 sizes with matchAnyImm=%v first, this emitter selects with matchAnyImm=%v first: the two can pick encodings of different length", want == 1, got == 1))
	}
	// operand flags: WithForceRelAsImm used in pass 1 ⇔ used in the emitter of the same mnemonic
	p1 := map[string]bool{}
	for _, f := range c.L.RepoFuncs() {
		if pkgRel(f) != "internal/pass1" {
			continue
		}
		callsIn(f, func(ci ssa.CallInstruction) {
			if ci.Common().IsInvoke() && ci.Common().Method.Name() == "WithForceRelAsImm" {
				p1[strings.TrimPrefix(f.Name(), "process")] = true
			}
		})
	}
	gen := map[string]bool{}
	for _, f := range c.L.RepoFuncs() {
		if pkgRel(f) != "internal/codegen" {
			continue
		}
		callsIn(f, func(ci ssa.CallInstruction) {
			if ci.Common().IsInvoke() && ci.Common().Method.Name() == "WithForceRelAsImm" {
				gen[strings.TrimPrefix(f.Name(), "handle")] = true
			}
		})
	}
	all := map[string]bool{}
	for k := range p1 {
		all[k] = true
	}
	for k := range gen {
		all[k] = true
	}
	for _, k := range sortedKeys(all) {
		c.check(p1[k] == gen[k], "F8a", k+"|WithForceRelAsImm on both sides", "", fmt.Sprintf("pass 1 uses WithForceRelAsImm: %v, emitter: %v", p1[k], gen[k]))
	}
	c.floor("F8a", 5)
}
