package main

// Sixth strengthening round (after seeded round 4).

import (
	"fmt"
	"go/ast"
	"go/token"
	"go/types"
	"sort"
	"strings"

	"golang.org/x/tools/go/ssa"
)

// ---------------------------------------------------------------------------------------
// D13z: a zero divisor leaves the expression unreduced
// ---------------------------------------------------------------------------------------

func ruleD13z(c *Ctx) {
	c.doc("D13z", "in the evaluator, the branch taken when a divisor is zero ends in `return receiver, false` — the expression stays unevaluated and the handler that needs a constant reports it; it never reaches a return that hands back a folded number (10/0 must not become 10)")
	n := 0
	for _, f := range c.L.RepoFuncs() {
		if pkgRel(f) != "internal/ast" || f.Name() != "Eval" || len(f.Params) == 0 {
			continue
		}
		recv := f.Params[0]
		per := 0
		for _, b := range f.Blocks {
			for _, in := range b.Instrs {
				bo, ok := in.(*ssa.BinOp)
				if !ok || (bo.Op != token.QUO && bo.Op != token.REM) || !isIntType(bo.Type()) {
					continue
				}
				if _, isK := bo.Y.(*ssa.Const); isK {
					continue
				}
				n++
				per++
				key := fmt.Sprintf("%s|division#%d zero branch", shortName(f), per)
				// the guard: If (divisor == 0) / (divisor != 0)
				var zeroSucc *ssa.BasicBlock
				for _, gb := range f.Blocks {
					iff, ok := gb.Instrs[len(gb.Instrs)-1].(*ssa.If)
					if !ok {
						continue
					}
					cond, ok := iff.Cond.(*ssa.BinOp)
					if !ok || cond.X != bo.Y {
						continue
					}
					k, ok := cond.Y.(*ssa.Const)
					if !ok || !isIntConst(k) || k.Int64() != 0 {
						continue
					}
					// the guard of *this* division: the test lies on every way to the division
					// (two divisions by the same value each have their own)
					if !gb.Dominates(b) {
						continue
					}
					switch cond.Op {
					case token.EQL:
						zeroSucc = gb.Succs[0]
					case token.NEQ:
						zeroSucc = gb.Succs[1]
					}
				}
				if zeroSucc == nil {
					c.ok("D13z", key, c.L.Pos(instrPos(in)), "no `== 0` guard on this divisor in the function (rule D13 decides whether one is needed)")
					continue
				}
				bad, found := "", false
				seen := map[*ssa.BasicBlock]bool{}
				st := []*ssa.BasicBlock{zeroSucc}
				for len(st) > 0 && !found {
					x := st[len(st)-1]
					st = st[:len(st)-1]
					if seen[x] || x == b {
						continue
					}
					seen[x] = true
					for _, xi := range x.Instrs {
						if r, ok := xi.(*ssa.Return); ok && len(r.Results) == 2 {
							node := r.Results[0]
							if mi, ok := node.(*ssa.MakeInterface); ok {
								node = mi.X
							}
							k, isK := r.Results[1].(*ssa.Const)
							if node != recv || !isK || k.Value == nil || k.Value.String() != "false" {
								bad, found = c.L.Pos(instrPos(xi)), true
							}
						}
					}
					st = append(st, x.Succs...)
				}
				c.check(!found, "D13z", key, c.L.Pos(instrPos(in)), "the zero-divisor branch reaches a return ("+bad+") that hands back something other than the unreduced receiver")
			}
		}
	}
	c.floor("D13z", 2)
	c.analysed["D13z_divisions"] = n
}

// ---------------------------------------------------------------------------------------
// R9: who reads the output format
// ---------------------------------------------------------------------------------------

func ruleR9(c *Ctx) {
	c.doc("R9", "the output format chosen by [FORMAT] is read only where the image is written (frontend.Exec) and where it is copied from pass 1 to pass 2: no handler, evaluator or emitter behaves differently under WCOFF, so the bytes of .text are the flat binary's bytes")
	n := 0
	for _, f := range c.L.RepoFuncs() {
		if c.isGeneratedFn(f) || pkgRel(f) == "test" {
			continue
		}
		per := 0
		for _, b := range f.Blocks {
			for _, in := range b.Instrs {
				u, ok := in.(*ssa.UnOp)
				if !ok || u.Op != token.MUL {
					continue
				}
				fa, ok := u.X.(*ssa.FieldAddr)
				if !ok || fieldName(fa) != "OutputFormat" {
					continue
				}
				n++
				per++
				top := shortName(outermost(f))
				key := fmt.Sprintf("%s|reads OutputFormat#%d", top, per)
				onlyLogged := true
				for _, r := range *u.Referrers() {
					switch x := r.(type) {
					case *ssa.MakeInterface:
						// logged / formatted
					case *ssa.Store:
						if fa2, ok := x.Addr.(*ssa.FieldAddr); !ok || fieldName(fa2) != "OutputFormat" {
							onlyLogged = false
						}
					case *ssa.DebugRef:
					default:
						onlyLogged = false
					}
				}
				allowed := top == "internal/frontend.Exec" || onlyLogged
				c.check(allowed, "R9", key, c.L.Pos(instrPos(in)), top+" makes a decision on the output format: what it does differs between flat and COFF output")
			}
		}
	}
	c.floor("R9", 2)
	c.analysed["R9_reads"] = n
}

// ---------------------------------------------------------------------------------------
// T10c / T10w: comment introducers and mandatory blanks
// ---------------------------------------------------------------------------------------

func ruleT10c(c *Ctx) {
	c.doc("T10c", "a rule of the source grammar that names one of the comment introducers `;` and `#` names both, and the set of rules that demand at least one blank is the one confirmed on today's grammar: a look-ahead that lists `;` but not `#`, or a keyword that insists on a following blank, makes one layout of a program unparsable")
	g := mainGrammar(c)
	if len(g.Errs) > 0 {
		c.anchorMissing("T10c", fmt.Sprintf("source grammar (%v)", g.Errs))
		return
	}
	semi := map[string]bool{}
	hash := map[string]bool{}
	mand := map[string]bool{}
	var walk func(r string, e *pegNode, inPlus bool)
	walk = func(r string, e *pegNode, inPlus bool) {
		if e == nil {
			return
		}
		switch e.Kind {
		case "lit":
			if e.Val == ";" {
				semi[r] = true
			}
			if e.Val == "#" {
				hash[r] = true
			}
		case "class":
			if inPlus && classIsBlank(e) {
				mand[r] = true
			}
		case "plus":
			for _, k := range e.Kids {
				walk(r, k, true)
			}
			return
		}
		for _, k := range e.Kids {
			walk(r, k, false)
		}
	}
	for _, r := range g.Order {
		walk(r, g.Rules[r], false)
	}
	var sl []string
	for r := range semi {
		sl = append(sl, r)
	}
	for r := range hash {
		if !semi[r] {
			sl = append(sl, r)
		}
	}
	sort.Strings(sl)
	for _, r := range sl {
		c.check(semi[r] && hash[r], "T10c", "comment introducers in rule "+r, c.L.Pos(g.Rules[r].Pos.Pos()), fmt.Sprintf("rule %s names one comment introducer without the other (`;`: %v, `#`: %v): a comment written with the other one is not accepted there", r, semi[r], hash[r]))
	}
	c.check(semi["Comment"] && hash["Comment"], "T10c", "Comment rule names the introducers", "", "rule Comment must contain the `;` and `#` literals")
	var ml []string
	for r := range mand {
		ml = append(ml, r)
	}
	sort.Strings(ml)
	for _, r := range ml {
		_, known := mandatoryBlankRules[r]
		c.check(known, "T10c", "mandatory blank in rule "+r, c.L.Pos(g.Rules[r].Pos.Pos()), "rule "+r+" requires at least one blank; on the confirmed grammar only "+strings.Join(keysOfReasons(mandatoryBlankRules), ", ")+" do")
	}
	// (b) the comment characters have a meaning only in the rules that implement comments and
	// line ends: a character class or literal with `;` or `#` anywhere else (a cheap look-ahead
	// that "stops at a comment") takes them away from string literals, where they are data
	special := map[string]bool{}
	var walk2 func(r string, e *pegNode)
	walk2 = func(r string, e *pegNode) {
		if e == nil {
			return
		}
		switch e.Kind {
		case "lit":
			if e.Val == ";" || e.Val == "#" {
				special[r] = true
			}
		case "class":
			for _, ch := range e.Chars {
				if ch == ';' || ch == '#' {
					special[r] = true
				}
			}
			for i := 0; i+1 < len(e.Ranges); i += 2 {
				if (e.Ranges[i] <= ';' && ';' <= e.Ranges[i+1]) || (e.Ranges[i] <= '#' && '#' <= e.Ranges[i+1]) {
					if !e.Inverted {
						// a printable range that merely contains them (string contents) is not special
						continue
					}
					special[r] = true
				}
			}
		}
		for _, k := range e.Kids {
			walk2(r, k)
		}
	}
	for _, r := range g.Order {
		walk2(r, g.Rules[r])
	}
	var spl []string
	for r := range special {
		spl = append(spl, r)
	}
	sort.Strings(spl)
	for _, r := range spl {
		_, known := commentCharRules[r]
		c.check(known, "T10c", "comment characters named in rule "+r, c.L.Pos(g.Rules[r].Pos.Pos()), "rule "+r+" gives `;` or `#` a meaning of its own; on the confirmed grammar only "+strings.Join(keysOfReasons(commentCharRules), ", ")+" do — elsewhere (a look-ahead that stops at a comment character) they are cut out of string literals")
	}
	// (c) brackets accept blanks inside: the rules that on the confirmed grammar allow optional
	// white space right after the opening and right before the closing bracket still do
	padded := map[string]bool{}
	var walk3 func(r string, e *pegNode)
	walk3 = func(r string, e *pegNode) {
		if e == nil {
			return
		}
		if e.Kind == "seq" {
			for i, k := range e.Kids {
				if k.Kind != "lit" || (k.Val != "(" && k.Val != "[") {
					continue
				}
				closer := map[string]string{"(": ")", "[": "]"}[k.Val]
				for j := i + 1; j < len(e.Kids); j++ {
					if e.Kids[j].Kind == "lit" && e.Kids[j].Val == closer {
						isWS := func(x *pegNode) bool {
							return x != nil && x.Kind == "ref" && (x.Name == "_" || x.Name == "WS") && g.Rules[x.Name] != nil && g.nullable(g.Rules[x.Name], map[string]bool{})
						}
						if j-i >= 3 && isWS(e.Kids[i+1]) && isWS(e.Kids[j-1]) && e.Kids[i+1].Name == "_" && e.Kids[j-1].Name == "_" {
							padded[r+" "+k.Val+closer] = true
						}
						break
					}
				}
			}
		}
		for _, k := range e.Kids {
			walk3(r, k)
		}
	}
	for _, r := range g.Order {
		walk3(r, g.Rules[r])
	}
	for _, want := range keysOfReasons(bracketPaddedRules) {
		c.check(padded[want], "T10c", "blanks inside brackets of "+want, "", "rule "+want+" no longer accepts optional white space (blanks, newlines, comments: `_`) right after its opening and right before its closing bracket: `( 1+2 )` and `(1+2)` must assemble alike")
	}
	c.analysed["T10c_padded_bracket_rules"] = len(padded)
}

// rules of the source grammar in which `;` / `#` legitimately appear (confirmed by reading)
var commentCharRules = map[string]string{
	"Comment":       "the comment rule itself",
	"TrailingWsEOL": "end-of-statement look-ahead: a comment may follow",
}

// rule + bracket pair that accept `_` on both inner sides on the confirmed grammar
var bracketPaddedRules = map[string]string{
	"PrimaryParen ()": "'(' _ e:AddExp _ ')' — blanks, newlines and comments may follow `(` and precede `)`",
}

// rules of the source grammar that legitimately require one or more blanks (confirmed by reading)
var mandatoryBlankRules = map[string]string{
	"__": "the mandatory-blank helper itself",
	"WS": "matches [ \\t]* — listed in case it is written as a plus",
}

func keysOfReasons(m map[string]string) []string {
	var out []string
	for k := range m {
		out = append(out, k)
	}
	sort.Strings(out)
	return out
}

func classIsBlank(e *pegNode) bool {
	if e.Inverted {
		return false
	}
	for _, r := range e.Chars {
		if r != ' ' && r != '\t' {
			return false
		}
	}
	return len(e.Chars) > 0 && len(e.Ranges) == 0
}

// ---------------------------------------------------------------------------------------
// K13: locks are released
// ---------------------------------------------------------------------------------------

func ruleK13(c *Ctx) {
	c.doc("K13", "every Lock / RLock in gosk's own code is released on every path to a return (deferred, or an Unlock on each path): a lock left held by an error return blocks the next statement for ever (hang; `all goroutines are asleep` in the CLI)")
	n := 0
	for _, f := range c.L.RepoFuncs() {
		if c.isGeneratedFn(f) || pkgRel(f) == "test" {
			continue
		}
		per := 0
		hasDeferUnlock := false
		for _, b := range f.Blocks {
			for _, in := range b.Instrs {
				if d, ok := in.(*ssa.Defer); ok && strings.HasSuffix(calleeName(d.Common()), "Unlock") {
					hasDeferUnlock = true
				}
			}
		}
		for _, b := range f.Blocks {
			for i, in := range b.Instrs {
				call, ok := in.(*ssa.Call)
				if !ok {
					continue
				}
				name := calleeName(call.Common())
				if !strings.HasPrefix(name, "(*sync.") || !(strings.HasSuffix(name, ").Lock") || strings.HasSuffix(name, ").RLock")) {
					continue
				}
				n++
				per++
				key := fmt.Sprintf("%s|%s#%d", shortName(f), name, per)
				if hasDeferUnlock {
					c.ok("K13", key, c.L.Pos(instrPos(in)), "released by a deferred Unlock")
					continue
				}
				// search a path from here to a Return that meets no Unlock
				leak := ""
				type pos struct {
					b *ssa.BasicBlock
					i int
				}
				seen := map[*ssa.BasicBlock]bool{}
				st := []pos{{b, i + 1}}
				for len(st) > 0 && leak == "" {
					p := st[len(st)-1]
					st = st[:len(st)-1]
					unlocked := false
					for _, xi := range p.b.Instrs[p.i:] {
						if cc, ok := xi.(*ssa.Call); ok && strings.HasSuffix(calleeName(cc.Common()), "Unlock") {
							unlocked = true
							break
						}
						if _, ok := xi.(*ssa.Return); ok {
							leak = c.L.Pos(instrPos(xi))
							break
						}
					}
					if unlocked || leak != "" {
						continue
					}
					for _, s := range p.b.Succs {
						if !seen[s] {
							seen[s] = true
							st = append(st, pos{s, 0})
						}
					}
				}
				c.check(leak == "", "K13", key, c.L.Pos(instrPos(in)), "the return at "+leak+" is reachable with the lock still held")
			}
		}
	}
	c.ok("K13", "locks scanned", "", fmt.Sprintf("%d Lock/RLock calls", n))
}

// ---------------------------------------------------------------------------------------
// E1c: shallow copies of package-level structs
// ---------------------------------------------------------------------------------------

func ruleE1c(c *Ctx) {
	c.doc("E1c", "outside package initialisation no function copies a package-level struct value that holds maps, slices or pointers (a template / defaults object): the copy shares those with every other copy, so what one assembly stores through it (EQU table, symbol lists) is still there for the next")
	chain := initChain(c)
	n := 0
	for _, f := range c.L.RepoFuncs() {
		if c.isGeneratedFn(f) || chain[f] || pkgRel(f) == "test" {
			continue
		}
		per := 0
		for _, b := range f.Blocks {
			for _, in := range b.Instrs {
				u, ok := in.(*ssa.UnOp)
				if !ok || u.Op != token.MUL {
					continue
				}
				g, ok := u.X.(*ssa.Global)
				if !ok || g.Pkg == nil || !strings.HasPrefix(g.Pkg.Pkg.Path(), modPath) {
					continue
				}
				st, ok := u.Type().Underlying().(*types.Struct)
				if !ok {
					continue
				}
				var refs []string
				for i := 0; i < st.NumFields(); i++ {
					switch st.Field(i).Type().Underlying().(type) {
					case *types.Map, *types.Slice, *types.Pointer:
						refs = append(refs, st.Field(i).Name())
					}
				}
				if len(refs) == 0 {
					continue
				}
				n++
				per++
				c.fail("E1c", fmt.Sprintf("%s|copies package-level %s#%d", shortName(f), g.Name(), per), c.L.Pos(instrPos(in)),
					fmt.Sprintf("%s copies the package-level struct %s by value; its fields %s are shared with every other copy", shortName(f), g.Name(), strings.Join(refs, ", ")))
			}
		}
	}
	c.ok("E1c", "struct copies scanned", "", fmt.Sprintf("%d shallow copies of package-level structs with reference fields", n))
}

// ---------------------------------------------------------------------------------------
// N15b: names are compared exactly in the EQU table
// ---------------------------------------------------------------------------------------

func ruleN15b(c *Ctx) {
	c.doc("N15b", "an implementation of LookupMacro / DefineMacro compares or looks up the name as a whole (== or a map index): no substring, prefix, suffix or case-folding function is applied to it, so names that contain one another stay distinct")
	n := 0
	for _, f := range c.L.RepoFuncs() {
		if c.isGeneratedFn(f) || (f.Name() != "LookupMacro" && f.Name() != "DefineMacro") || f.Signature.Recv() == nil {
			continue
		}
		var nameParam *ssa.Parameter
		for _, prm := range f.Params {
			if bt, ok := prm.Type().Underlying().(*types.Basic); ok && bt.Kind() == types.String {
				nameParam = prm
			}
		}
		if nameParam == nil {
			continue
		}
		n++
		bad := ""
		callsIn(f, func(ci ssa.CallInstruction) {
			name := calleeName(ci.Common())
			if !strings.HasPrefix(name, "strings.") && !strings.HasPrefix(name, "regexp.") && !strings.HasPrefix(name, "(*regexp.") && !strings.HasPrefix(name, "unicode.") {
				return
			}
			for _, a := range ci.Common().Args {
				if a == ssa.Value(nameParam) {
					bad = name
				}
			}
		})
		c.check(bad == "", "N15b", shortName(f)+"|name used whole", c.L.Pos(f.Pos()), shortName(f)+" applies "+bad+" to the name: names that contain, start or end with one another are confused")
	}
	c.floor("N15b", 3)
}

// ---------------------------------------------------------------------------------------
// V17: a directive's value is evaluated like any expression
// ---------------------------------------------------------------------------------------

func ruleV17(c *Ctx) {
	c.doc("V17", "the value of a bracket directive reaches its clause through the evaluator (TraverseAST of the factor, then Eval): `[BITS 0x20]` and `[BITS MODE]` with MODE EQU 32 select the same mode as `[BITS 32]`")
	f := c.L.SSAFunc("internal/pass1", "TraverseAST")
	if f == nil {
		c.anchorMissing("V17", "pass1.TraverseAST")
		return
	}
	n := 0
	callsIn(f, func(ci ssa.CallInstruction) {
		if !strings.HasSuffix(calleeName(ci.Common()), "cpu.NewBitMode") || len(ci.Common().Args) != 1 {
			return
		}
		n++
		evaluated := sliceHasCallSuffix(ci.Common().Args[0], ").Eval", map[ssa.Value]bool{}, 0) || sliceHasInvoke(ci.Common().Args[0], "Eval", map[ssa.Value]bool{}, 0)
		c.check(evaluated, "V17", "TraverseAST[BITS]|value comes from the evaluator", c.L.Pos(instrPos(ci)), "the BITS value handed to cpu.NewBitMode is not the result of evaluating the directive's factor: hexadecimal values and EQU names are not understood")
	})
	c.check(n == 1, "V17", "TraverseAST[BITS]|NewBitMode call", c.L.Pos(f.Pos()), fmt.Sprintf("%d calls", n))
}

func sliceHasCallSuffix(v ssa.Value, suffix string, seen map[ssa.Value]bool, depth int) bool {
	if v == nil || seen[v] || depth > 30 {
		return false
	}
	seen[v] = true
	if call, ok := v.(*ssa.Call); ok && strings.HasSuffix(calleeName(call.Common()), suffix) {
		return true
	}
	if in, ok := v.(ssa.Instruction); ok {
		for _, op := range in.Operands(nil) {
			if op != nil && *op != nil && sliceHasCallSuffix(*op, suffix, seen, depth+1) {
				return true
			}
		}
	}
	return false
}

func sliceHasInvoke(v ssa.Value, method string, seen map[ssa.Value]bool, depth int) bool {
	if v == nil || seen[v] || depth > 30 {
		return false
	}
	seen[v] = true
	if call, ok := v.(*ssa.Call); ok && call.Call.IsInvoke() && call.Call.Method.Name() == method {
		return true
	}
	if in, ok := v.(ssa.Instruction); ok {
		for _, op := range in.Operands(nil) {
			if op != nil && *op != nil && sliceHasInvoke(*op, method, seen, depth+1) {
				return true
			}
		}
	}
	return false
}

// ---------------------------------------------------------------------------------------
// S5s: strings are not numbers
// ---------------------------------------------------------------------------------------

func ruleS5s(c *Ctx) {
	c.doc("S5s", "ImmExp.Eval leaves a string factor as it is (returns its receiver, unreduced): the data directives expand strings byte for byte from the factor, so a string turned into a number loses all but its low byte")
	fd, p := c.L.FuncDecl("internal/ast", "(*ImmExp).Eval")
	if fd == nil {
		c.anchorMissing("S5s", "internal/ast.(*ImmExp).Eval")
		return
	}
	cc := typeSwitchClause(p.TypesInfo, fd, "StringFactor")
	if cc == nil {
		// no clause names the string factor: it takes the default clause of the switch over the
		// factor kinds (the one with a NumberFactor clause)
		if sib := typeSwitchClause(p.TypesInfo, fd, "NumberFactor"); sib != nil {
			ast.Inspect(fd.Body, func(n ast.Node) bool {
				ts, ok := n.(*ast.TypeSwitchStmt)
				if !ok {
					return true
				}
				mine := false
				var def *ast.CaseClause
				for _, st := range ts.Body.List {
					k := st.(*ast.CaseClause)
					if k == sib {
						mine = true
					}
					if k.List == nil {
						def = k
					}
				}
				if mine && def != nil {
					cc = def
				}
				return true
			})
		}
	}
	if cc == nil {
		c.anchorMissing("S5s", "(*ImmExp).Eval: case *StringFactor")
		return
	}
	recvName := ""
	if fd.Recv != nil && len(fd.Recv.List) == 1 && len(fd.Recv.List[0].Names) == 1 {
		recvName = fd.Recv.List[0].Names[0].Name
	}
	n, good := 0, true
	for _, st := range cc.Body {
		ast.Inspect(st, func(x ast.Node) bool {
			r, ok := x.(*ast.ReturnStmt)
			if !ok || len(r.Results) != 2 {
				return true
			}
			n++
			id, ok1 := r.Results[0].(*ast.Ident)
			fl, ok2 := r.Results[1].(*ast.Ident)
			if !ok1 || !ok2 || id.Name != recvName || fl.Name != "false" {
				good = false
			}
			return true
		})
	}
	c.check(n >= 1 && good, "S5s", "(*ImmExp).Eval[StringFactor]|returns the receiver unreduced", c.L.Pos(cc.Pos()), "the string-factor clause must only `return "+recvName+", false`")
}

// ---------------------------------------------------------------------------------------
// S3j: pass 1 does not size a branch by its distance
// ---------------------------------------------------------------------------------------

func ruleS3j(c *Ctx) {
	c.doc("S3j", "the pass-1 handler of JMP/Jcc/CALL takes the size of a branch from the mode and the mnemonic only: no ordering comparison in it involves the target value or the location counter. (The emitter chooses short or near by distance — known finding S3 — and a second, separately written distance test in pass 1 draws the short/near boundary at a different place.)")
	f := c.L.SSAFunc("internal/pass1", "processCalcJcc")
	if f == nil {
		c.anchorMissing("S3j", "internal/pass1.processCalcJcc")
		return
	}
	n := 0
	for _, b := range f.Blocks {
		for _, in := range b.Instrs {
			bo, ok := in.(*ssa.BinOp)
			if !ok {
				continue
			}
			switch bo.Op {
			case token.LSS, token.LEQ, token.GTR, token.GEQ:
			default:
				continue
			}
			n++
			dep := ""
			for _, v := range []ssa.Value{bo.X, bo.Y} {
				if d := dependsOnField(v, map[string]bool{"Value": true, "LOC": true, "DollarPosition": true}, map[ssa.Value]bool{}, 0); d != "" {
					dep = d
				}
			}
			c.check(dep == "", "S3j", fmt.Sprintf("processCalcJcc|comparison#%d", n), c.L.Pos(instrPos(in)), "pass 1 compares a value derived from "+dep+" to decide a branch size: its boundary is not the emitter's")
		}
	}
	c.ok("S3j", "processCalcJcc|comparisons scanned", c.L.Pos(f.Pos()), fmt.Sprintf("%d ordering comparisons", n))
}

func dependsOnField(v ssa.Value, fields map[string]bool, seen map[ssa.Value]bool, depth int) string {
	if v == nil || seen[v] || depth > 12 {
		return ""
	}
	seen[v] = true
	switch x := v.(type) {
	case *ssa.FieldAddr:
		if fields[fieldName(x)] {
			n, _ := namedOf(x.X.Type())
			return n + "." + fieldName(x)
		}
	case *ssa.Call:
		if bi, ok := x.Call.Value.(*ssa.Builtin); ok && bi.Name() == "len" {
			return ""
		}
	}
	if in, ok := v.(ssa.Instruction); ok {
		for _, op := range in.Operands(nil) {
			if op != nil && *op != nil {
				if s := dependsOnField(*op, fields, seen, depth+1); s != "" {
					return s
				}
			}
		}
	}
	return ""
}
