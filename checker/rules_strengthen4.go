package main

// Fourth strengthening round (seeded round 2, second half).

import (
	"fmt"
	"go/ast"
	"go/token"
	"go/types"
	"golang.org/x/tools/go/ssa"
	"sort"
	"strings"
)

// ---------------------------------------------------------------------------------------
// X13: an index that ranges over one slice is used on another only under a length guard
// ---------------------------------------------------------------------------------------

type x13Verdict struct {
	ok   bool
	why  string
	over string
}

var x13Cache = map[token.Pos]x13Verdict{}

// x13Verdicts runs the X13 analysis silently (on a scratch context) and returns its verdicts
// keyed by the position of the `[` of the index expression.
func x13Verdicts(c *Ctx) map[token.Pos]x13Verdict {
	if len(x13Cache) == 0 {
		sc := newCtx(c.Prop, c.Tier, c.L, c.Verif)
		ruleX13(sc)
	}
	return x13Cache
}

func ruleX13(c *Ctx) {
	c.doc("X13", "when the index variable of a loop (or of an indexed callback such as lo.EveryBy) over one slice is used to index a different slice, an earlier statement of the function rejects the case where the second slice is shorter (len(A) != len(B) → return, B made with len(A), …): otherwise an input with fewer operands is an index-out-of-range panic")
	n := 0
	for _, p := range c.L.Pkgs {
		rel := relPkg(p)
		if rel == "test" || strings.HasPrefix(rel, "cmd/") || !strings.HasPrefix(p.PkgPath, modPath) {
			continue
		}
		for _, f := range p.Syntax {
			if c.L.isGeneratedFile(f) || strings.HasSuffix(c.L.Fset.Position(f.Pos()).Filename, "_test.go") {
				continue
			}
			for _, d := range f.Decls {
				fd, ok := d.(*ast.FuncDecl)
				if !ok || fd.Body == nil {
					continue
				}
				per := 0
				type loop struct {
					over ast.Expr
					idx  types.Object
					body ast.Node
					pos  token.Pos
				}
				var loops []loop
				ast.Inspect(fd.Body, func(x ast.Node) bool {
					switch s := x.(type) {
					case *ast.RangeStmt:
						if id, ok := s.Key.(*ast.Ident); ok && id.Name != "_" && isSliceLike(p.TypesInfo.TypeOf(s.X)) {
							if o := p.TypesInfo.ObjectOf(id); o != nil {
								loops = append(loops, loop{s.X, o, s.Body, s.Pos()})
							}
						}
					case *ast.ForStmt:
						// for i := 0; i < len(A); i++
						if _, ok := forwardIndexLoopOver(s, ""); ok {
							as := s.Init.(*ast.AssignStmt)
							id := as.Lhs[0].(*ast.Ident)
							over := s.Cond.(*ast.BinaryExpr).Y.(*ast.CallExpr).Args[0]
							if o := p.TypesInfo.ObjectOf(id); o != nil && isSliceLike(p.TypesInfo.TypeOf(over)) {
								loops = append(loops, loop{over, o, s.Body, s.Pos()})
							}
						}
					case *ast.AssignStmt:
						// i := lo.IndexOf(A, item)
						if len(s.Lhs) == 1 && len(s.Rhs) == 1 {
							if call, ok := s.Rhs[0].(*ast.CallExpr); ok && len(call.Args) == 2 && isSliceLike(p.TypesInfo.TypeOf(call.Args[0])) {
								if fn, ok := calleeOf(p.TypesInfo, call).(*types.Func); ok && fn.Name() == "IndexOf" {
									if id, ok := s.Lhs[0].(*ast.Ident); ok {
										if o := p.TypesInfo.ObjectOf(id); o != nil {
											loops = append(loops, loop{call.Args[0], o, fd.Body, s.Pos()})
										}
									}
								}
							}
						}
					case *ast.CallExpr:
						// f(A, func(item T, i int) …)
						if len(s.Args) >= 2 {
							if fl, ok := s.Args[len(s.Args)-1].(*ast.FuncLit); ok && isSliceLike(p.TypesInfo.TypeOf(s.Args[0])) {
								ps := fl.Type.Params.List
								var names []*ast.Ident
								for _, f := range ps {
									names = append(names, f.Names...)
								}
								if len(names) == 2 {
									if o := p.TypesInfo.ObjectOf(names[1]); o != nil && isIntType(o.Type()) {
										loops = append(loops, loop{s.Args[0], o, fl.Body, s.Pos()})
									}
								}
							}
						}
					}
					return true
				})
				for _, l := range loops {
					aTxt := types.ExprString(l.over)
					seen := map[string]bool{}
					seenAt := map[string]token.Pos{}
					ast.Inspect(l.body, func(x ast.Node) bool {
						ie, ok := x.(*ast.IndexExpr)
						if !ok {
							return true
						}
						id, ok := ast.Unparen(ie.Index).(*ast.Ident)
						if !ok || p.TypesInfo.ObjectOf(id) != l.idx {
							return true
						}
						t := p.TypesInfo.TypeOf(ie.X)
						if !isSliceLike(t) {
							return true
						}
						bTxt := types.ExprString(ie.X)
						if bTxt == aTxt {
							x13Cache[ie.Lbrack] = x13Verdict{true, "the loop runs over this very slice", aTxt}
							return true
						}
						if seen[bTxt] {
							if v, ok := x13Cache[seenAt[bTxt]]; ok {
								x13Cache[ie.Lbrack] = v
							}
							return true
						}
						seenAt[bTxt] = ie.Lbrack
						seen[bTxt] = true
						per++
						n++
						key := fmt.Sprintf("%s.%s|%s[%s] inside loop over %s", rel, fdName(fd), bTxt, id.Name, aTxt)
						why, ok := sameSource(p, fd, l.over, ie.X)
						if !ok {
							why, ok = lengthGuarded(p, fd, l.pos, l.over, ie.X)
						}
						if !ok {
							why, ok = inLoopGuard(l.body, ie, id.Name, bTxt)
						}
						x13Cache[ie.Lbrack] = x13Verdict{ok, why, aTxt}
						if ok {
							c.ok("X13", key, c.L.Pos(ie.Pos()), why)
						} else {
							c.fail("X13", key, c.L.Pos(ie.Pos()), fmt.Sprintf("%s is indexed with the index of a loop over %s but nothing before the loop rejects len(%s) < len(%s): index out of range for inputs where they differ", bTxt, aTxt, bTxt, aTxt))
						}
						return true
					})
				}
			}
		}
	}
	c.analysed["X13_cross_indexes"] = n
	c.floor("X13", 10)
}

func isSliceLike(t types.Type) bool {
	if t == nil {
		return false
	}
	switch u := t.Underlying().(type) {
	case *types.Slice:
		return true
	case *types.Basic:
		return u.Info()&types.IsString != 0
	}
	return false
}

// lengthGuarded: before pos, the function (a) returns/continues when len(A) and len(B) differ
// (or B is shorter), or (b) defines B as make(T, len(A)) / as a slice of the same length.
func lengthGuarded(p *packagesPackage, fd *ast.FuncDecl, pos token.Pos, a, b ast.Expr) (string, bool) {
	aT, bT := types.ExprString(a), types.ExprString(b)
	lenOf := func(e ast.Expr) string {
		if call, ok := ast.Unparen(e).(*ast.CallExpr); ok && len(call.Args) == 1 {
			if id, ok := call.Fun.(*ast.Ident); ok && id.Name == "len" {
				return types.ExprString(call.Args[0])
			}
		}
		return ""
	}
	found := ""
	ast.Inspect(fd.Body, func(x ast.Node) bool {
		if found != "" || x == nil || x.Pos() >= pos {
			return found == "" && (x == nil || x.Pos() < pos)
		}
		switch s := x.(type) {
		case *ast.IfStmt:
			if s.End() > pos { // the loop is inside this if: its condition guards differently
				// `if len(A) == len(B) { loop }`
				ok := false
				ast.Inspect(s.Cond, func(y ast.Node) bool {
					if be, okb := y.(*ast.BinaryExpr); okb && be.Op == token.EQL {
						l, r := lenOf(be.X), lenOf(be.Y)
						if (l == aT && r == bT) || (l == bT && r == aT) {
							ok = true
						}
					}
					return true
				})
				if ok && pos < s.Body.End() {
					found = "inside `if len(" + aT + ") == len(" + bT + ")`"
				}
				return true
			}
			if !endsInExit(s.Body) {
				return true
			}
			ast.Inspect(s.Cond, func(y ast.Node) bool {
				be, okb := y.(*ast.BinaryExpr)
				if !okb {
					return true
				}
				if be.Op == token.LAND {
					return false // a conjunct does not reject on its own
				}
				l, r := lenOf(be.X), lenOf(be.Y)
				switch {
				case be.Op == token.NEQ && ((l == aT && r == bT) || (l == bT && r == aT)):
					found = "guard `" + types.ExprString(be) + "` exits first"
				case (be.Op == token.LSS && l == bT && r == aT) || (be.Op == token.GTR && l == aT && r == bT):
					found = "guard `" + types.ExprString(be) + "` exits first"
				}
				return true
			})
		case *ast.AssignStmt:
			// B := make([]T, len(A))
			if len(s.Lhs) == 1 && len(s.Rhs) == 1 && types.ExprString(s.Lhs[0]) == bT {
				if call, ok := s.Rhs[0].(*ast.CallExpr); ok {
					if id, ok := call.Fun.(*ast.Ident); ok && id.Name == "make" && len(call.Args) >= 2 && lenOf(call.Args[1]) == aT {
						found = bT + " is made with len(" + aT + ")"
					}
				}
			}
		}
		return true
	})
	return found, found != ""
}

func endsInExit(b *ast.BlockStmt) bool {
	if b == nil || len(b.List) == 0 {
		return false
	}
	switch s := b.List[len(b.List)-1].(type) {
	case *ast.ReturnStmt:
		return true
	case *ast.BranchStmt:
		return s.Tok == token.CONTINUE || s.Tok == token.BREAK
	}
	return false
}

// sameSource: the two slices cannot differ in length for reasons visible in the function:
// the same slice under two names (range value vs indexed element), two literals of equal
// element count, or two fields of one object (a shape invariant of that type's constructors,
// which this rule does not decide and says so).
func sameSource(p *packagesPackage, fd *ast.FuncDecl, a, b ast.Expr) (string, bool) {
	return sameSourceDepth(p, fd, a, b, 0)
}

// paramIndex: e is an identifier naming a parameter of fd that the body never reassigns.
func paramIndex(p *packagesPackage, fd *ast.FuncDecl, e ast.Expr) int {
	id, ok := ast.Unparen(e).(*ast.Ident)
	if !ok || fd.Type.Params == nil {
		return -1
	}
	obj := p.TypesInfo.Uses[id]
	if obj == nil {
		obj = p.TypesInfo.Defs[id]
	}
	idx, i := -1, 0
	for _, fld := range fd.Type.Params.List {
		for _, nm := range fld.Names {
			if p.TypesInfo.Defs[nm] == obj && obj != nil {
				idx = i
			}
			i++
		}
	}
	if idx < 0 || fd.Type.Params.List[len(fd.Type.Params.List)-1].Type == nil {
		return -1
	}
	if _, variadic := fd.Type.Params.List[len(fd.Type.Params.List)-1].Type.(*ast.Ellipsis); variadic {
		return -1
	}
	reassigned := false
	ast.Inspect(fd.Body, func(n ast.Node) bool {
		switch s := n.(type) {
		case *ast.AssignStmt:
			for _, l := range s.Lhs {
				if lid, ok := l.(*ast.Ident); ok && (p.TypesInfo.Uses[lid] == obj) {
					reassigned = true
				}
			}
		case *ast.UnaryExpr:
			if lid, ok := s.X.(*ast.Ident); ok && s.Op == token.AND && p.TypesInfo.Uses[lid] == obj {
				reassigned = true
			}
		}
		return true
	})
	if reassigned {
		return -1
	}
	return idx
}

// sameSourceAtCallers: a and b are parameters of the unexported function fd, which is only
// ever called (never used as a value), and at every call site the two arguments are
// same-source in the caller.
func sameSourceAtCallers(p *packagesPackage, fd *ast.FuncDecl, a, b ast.Expr, depth int) (string, bool) {
	ia, ib := paramIndex(p, fd, a), paramIndex(p, fd, b)
	if ia < 0 || ib < 0 || depth >= 2 || fd.Recv != nil || fd.Name.IsExported() {
		return "", false
	}
	fn := p.TypesInfo.Defs[fd.Name]
	sites, okAll := 0, true
	var why string
	for _, file := range p.Syntax {
		for _, d := range file.Decls {
			caller, ok := d.(*ast.FuncDecl)
			if !ok || caller.Body == nil {
				// a package-level initialiser mentioning fn
				ast.Inspect(d, func(n ast.Node) bool {
					if id, ok := n.(*ast.Ident); ok && p.TypesInfo.Uses[id] == fn {
						okAll = false
					}
					return true
				})
				continue
			}
			called := map[*ast.Ident]bool{}
			ast.Inspect(caller.Body, func(n ast.Node) bool {
				call, ok := n.(*ast.CallExpr)
				if !ok {
					return true
				}
				fun := ast.Unparen(call.Fun)
				if ix, ok := fun.(*ast.IndexExpr); ok { // explicit instantiation f[T](…)
					fun = ix.X
				}
				id, ok := fun.(*ast.Ident)
				if !ok || p.TypesInfo.Uses[id] != fn {
					return true
				}
				called[id] = true
				sites++
				if ia >= len(call.Args) || ib >= len(call.Args) || call.Ellipsis.IsValid() {
					okAll = false
					return true
				}
				w, ok := sameSourceDepth(p, caller, call.Args[ia], call.Args[ib], depth+1)
				if !ok {
					okAll = false
				}
				why = w
				return true
			})
			ast.Inspect(caller.Body, func(n ast.Node) bool {
				if id, ok := n.(*ast.Ident); ok && p.TypesInfo.Uses[id] == fn && !called[id] {
					okAll = false // used as a value
				}
				return true
			})
		}
	}
	if sites == 0 || !okAll {
		return "", false
	}
	return fmt.Sprintf("parameters bound at all %d call sites of %s to %s", sites, fd.Name.Name, why), true
}

func sameSourceDepth(p *packagesPackage, fd *ast.FuncDecl, a, b ast.Expr, depth int) (string, bool) {
	if why, ok := sameSourceAtCallers(p, fd, a, b, depth); ok {
		return why, true
	}
	aT, bT := types.ExprString(a), types.ExprString(b)
	// definitions: name -> make(len(X)) source, literal sizes, range aliases
	madeFrom := map[string]string{}
	litLen := map[string]int{}
	alias := map[string]string{} // range value ident -> "X[i]"
	ast.Inspect(fd.Body, func(x ast.Node) bool {
		switch s := x.(type) {
		case *ast.AssignStmt:
			if len(s.Lhs) == 1 && len(s.Rhs) == 1 {
				name := types.ExprString(s.Lhs[0])
				switch r := s.Rhs[0].(type) {
				case *ast.CallExpr:
					if id, ok := r.Fun.(*ast.Ident); ok && id.Name == "make" && len(r.Args) >= 2 {
						if call, ok := r.Args[1].(*ast.CallExpr); ok && len(call.Args) == 1 {
							if lid, ok := call.Fun.(*ast.Ident); ok && lid.Name == "len" {
								madeFrom[name] = types.ExprString(call.Args[0])
							}
						}
					}
				case *ast.CompositeLit:
					if s.Tok == token.DEFINE {
						litLen[name] = len(r.Elts)
					} else {
						delete(litLen, name)
						litLen[name] = -1
					}
				}
			}
		case *ast.RangeStmt:
			if k, ok := s.Key.(*ast.Ident); ok && k.Name != "_" && s.Value != nil {
				if v, ok := s.Value.(*ast.Ident); ok {
					alias[v.Name] = types.ExprString(s.X) + "[" + k.Name + "]"
				}
			}
		}
		return true
	})
	rootOfTxt := func(s string) string {
		if i := strings.IndexAny(s, ".["); i >= 0 {
			return s[:i]
		}
		return s
	}
	selAl := selectorAliases(fd)
	expand := func(s string) string {
		r := rootOfTxt(s)
		if al, ok := alias[r]; ok {
			return al + s[len(r):]
		}
		// ops := a.Operators — a local name for a field of the object
		if sel, ok := selAl[r]; ok {
			return types.ExprString(sel) + s[len(r):]
		}
		return s
	}
	if expand(aT) == expand(bT) {
		return "the same slice under two names (" + expand(aT) + ")", true
	}
	if la, ok := litLen[aT]; ok && la > 0 {
		if lb, ok := litLen[bT]; ok && lb == la {
			return fmt.Sprintf("both are literals of %d elements", la), true
		}
	}
	a2, b2 := expand(aT), expand(bT)
	if m, ok := madeFrom[aT]; ok {
		a2 = m
	}
	if m, ok := madeFrom[bT]; ok {
		b2 = m
	}
	if a2 == b2 {
		return bT + " is made with len(" + a2 + ")", true
	}
	if strings.Contains(a2, ".") && strings.Contains(b2, ".") && rootOfTxt(a2) == rootOfTxt(b2) && !strings.Contains(a2, "[") && !strings.Contains(b2, "[") {
		return "paired fields of one object (" + a2 + " / " + b2 + "): equal length is a shape invariant of the object's constructors, not decided by this rule", true
	}
	return "", false
}

// ---------------------------------------------------------------------------------------
// M13: computed make lengths
// ---------------------------------------------------------------------------------------

func ruleM13(c *Ctx) {
	c.doc("M13", "a make([]T, n) whose length is a difference a−b of run-time values is dominated by a comparison between a and b (a negative length is a run-time panic); make with a constant, a len(), a sum or a product needs nothing")
	reach := c.reach()
	makes, diffs := 0, 0
	for _, f := range c.L.RepoFuncs() {
		if _, ok := reach[f]; !ok || c.isGeneratedFn(f) {
			continue
		}
		per := 0
		for _, b := range f.Blocks {
			for _, in := range b.Instrs {
				ms, ok := in.(*ssa.MakeSlice)
				if !ok {
					continue
				}
				makes++
				for li, lv := range []ssa.Value{ms.Len, ms.Cap} {
					if li == 1 && ms.Cap == ms.Len {
						continue
					}
					v := lv
					for {
						if cv, ok := v.(*ssa.Convert); ok {
							v = cv.X
							continue
						}
						if cv, ok := v.(*ssa.ChangeType); ok {
							v = cv.X
							continue
						}
						break
					}
					bo, ok := v.(*ssa.BinOp)
					if !ok || bo.Op != token.SUB {
						continue
					}
					if _, k := bo.X.(*ssa.Const); k {
						if _, k2 := bo.Y.(*ssa.Const); k2 {
							continue
						}
					}
					diffs++
					per++
					key := fmt.Sprintf("%s|make length difference#%d", shortName(f), per)
					c.check(comparedBefore(f, bo.X, bo.Y, b), "M13", key, c.L.Pos(instrPos(in)), fmt.Sprintf("%s makes a slice of length %s − %s without a dominating comparison of the two: when the second exceeds the first this is `makeslice: len out of range`", shortName(f), valName(bo.X), valName(bo.Y)))
				}
			}
		}
	}
	c.analysed["M13_makes"] = makes
	c.ok("M13", "makes scanned", "", fmt.Sprintf("%d make([]T) sites in reachable code, %d with a difference as length", makes, diffs))
	c.floor("M13", 1)
}

// comparedBefore: some If whose condition orders x against y (either operand order) has a
// successor that dominates blk. Values are compared by identity or by equal linear form
// (go/ssa has no CSE: len(s) evaluated twice gives two values).
func comparedBefore(f *ssa.Function, x, y ssa.Value, blk *ssa.BasicBlock) bool {
	same := func(a, b ssa.Value) bool {
		if a == b {
			return true
		}
		ca, oka := a.(*ssa.Const)
		cb, okb := b.(*ssa.Const)
		if oka && okb {
			return isIntConst(ca) && isIntConst(cb) && ca.Int64() == cb.Int64()
		}
		return valueKey(a) != "" && valueKey(a) == valueKey(b)
	}
	for _, b := range f.Blocks {
		iff, ok := b.Instrs[len(b.Instrs)-1].(*ssa.If)
		if !ok {
			continue
		}
		bo, ok := iff.Cond.(*ssa.BinOp)
		if !ok {
			continue
		}
		switch bo.Op {
		case token.LSS, token.LEQ, token.GTR, token.GEQ:
		default:
			continue
		}
		if !((same(bo.X, x) && same(bo.Y, y)) || (same(bo.X, y) && same(bo.Y, x))) {
			continue
		}
		for _, s := range b.Succs {
			if s.Dominates(blk) && len(s.Preds) == 1 {
				return true
			}
		}
	}
	// x − k with x a length (≥ 0): a dominating test that bounds x from below by k
	if ky, ok := y.(*ssa.Const); ok && isIntConst(ky) && isLenCall(x) {
		k := ky.Int64()
		if k <= 0 {
			return true
		}
		for _, b := range f.Blocks {
			iff, ok := b.Instrs[len(b.Instrs)-1].(*ssa.If)
			if !ok {
				continue
			}
			bo, ok := iff.Cond.(*ssa.BinOp)
			if !ok || !same(bo.X, x) {
				continue
			}
			kc, ok := bo.Y.(*ssa.Const)
			if !ok || !isIntConst(kc) {
				continue
			}
			cv := kc.Int64()
			var safe *ssa.BasicBlock
			switch bo.Op {
			case token.EQL: // x == 0 false ⇒ x ≥ 1
				if cv == 0 && k <= 1 {
					safe = b.Succs[1]
				}
			case token.NEQ:
				if cv == 0 && k <= 1 {
					safe = b.Succs[0]
				}
			case token.GTR:
				if cv+1 >= k {
					safe = b.Succs[0]
				}
			case token.GEQ:
				if cv >= k {
					safe = b.Succs[0]
				}
			case token.LSS:
				if cv >= k {
					safe = b.Succs[1]
				}
			case token.LEQ:
				if cv+1 >= k {
					safe = b.Succs[1]
				}
			}
			if safe != nil && safe.Dominates(blk) && len(safe.Preds) == 1 {
				return true
			}
		}
	}
	return false
}

func isLenCall(v ssa.Value) bool {
	if c, ok := v.(*ssa.Call); ok {
		if bi, ok := c.Call.Value.(*ssa.Builtin); ok && bi.Name() == "len" {
			return true
		}
	}
	return false
}

// valueKey: a structural name for len(x)/field loads/params so that two evaluations compare equal.
func valueKey(v ssa.Value) string {
	switch x := v.(type) {
	case *ssa.Parameter:
		return "param:" + x.Name()
	case *ssa.Call:
		if bi, ok := x.Call.Value.(*ssa.Builtin); ok && bi.Name() == "len" && len(x.Call.Args) == 1 {
			if k := valueKey(x.Call.Args[0]); k != "" {
				return "len(" + k + ")"
			}
			return "len(" + x.Call.Args[0].Name() + ")" // same SSA value, same length
		}
	case *ssa.UnOp:
		if x.Op == token.MUL {
			if fa, ok := x.X.(*ssa.FieldAddr); ok {
				if k := valueKey(fa.X); k != "" {
					return k + "." + fieldName(fa)
				}
			}
			if a, ok := x.X.(*ssa.Alloc); ok {
				return "local:" + a.Comment
			}
		}
	case *ssa.Convert:
		return valueKey(x.X)
	case *ssa.ChangeType:
		return valueKey(x.X)
	}
	return ""
}

// ---------------------------------------------------------------------------------------
// R13: recursion through the EQU table is cut
// ---------------------------------------------------------------------------------------

func ruleR13(c *Ctx) {
	c.doc("R13", "the body of an EQU fetched with LookupMacro is evaluated in an environment that differs from the caller's (the name being expanded is hidden): recursion over the syntax tree is bounded by the tree, recursion through the table is not, and `A EQU A+1` would overflow the stack (fatal, not recoverable)")
	n := 0
	for _, f := range c.L.RepoFuncs() {
		if c.isGeneratedFn(f) || pkgRel(f) == "test" {
			continue
		}
		for _, b := range f.Blocks {
			for _, in := range b.Instrs {
				call, ok := in.(ssa.CallInstruction)
				if !ok {
					continue
				}
				cm := call.Common()
				if !cm.IsInvoke() || cm.Method.Name() != "Eval" || len(cm.Args) != 1 {
					continue
				}
				ex, ok := cm.Value.(*ssa.Extract)
				if !ok {
					continue
				}
				src, ok := ex.Tuple.(*ssa.Call)
				if !ok || !src.Call.IsInvoke() || src.Call.Method.Name() != "LookupMacro" {
					continue
				}
				n++
				key := shortName(f) + "|evaluates a looked-up EQU body"
				envArg := cm.Args[0]
				if envArg == src.Call.Value {
					c.fail("R13", key, c.L.Pos(instrPos(in)), "the EQU body is evaluated in the very environment it was looked up in: a definition that mentions its own name (directly or through another EQU) recurses until the stack overflows")
					continue
				}
				// the new environment must come from a function that wraps the old one and
				// whose type answers LookupMacro itself
				w, ok := envArg.(*ssa.Call)
				good := false
				why := "environment is " + valName(envArg)
				if ok {
					if callee := w.Call.StaticCallee(); callee != nil && len(w.Call.Args) >= 2 && w.Call.Args[0] == src.Call.Value {
						for _, t := range returnedConcreteTypes(callee) {
							if m := c.L.SSA().LookupMethod(t, callee.Pkg.Pkg, "LookupMacro"); m != nil && m.Synthetic == "" && hasIf(m) {
								good = true
								why = "wrapped by " + shortName(callee) + "; " + shortName(m) + " filters the name"
							}
						}
						// every expansion adds one mask: the wrapper returns, on every path, a new
						// struct holding its own env argument (masks nest, so each name on the
						// expansion path stays hidden); re-using an existing mask hides only the
						// innermost name and a two-name cycle recurses for ever
						if good {
							if bad := notAFreshWrapper(callee); bad != "" {
								good = false
								why = shortName(callee) + " " + bad
							}
						}
					}
				}
				c.check(good, "R13", key, c.L.Pos(instrPos(in)), why)
			}
		}
	}
	// lookups whose result is not evaluated at all (returned as is) start no recursion; any
	// other use of a looked-up body is undecided
	lookups := 0
	for _, f := range c.L.RepoFuncs() {
		if c.isGeneratedFn(f) || pkgRel(f) == "test" || f.Name() == "LookupMacro" {
			continue
		}
		for _, b := range f.Blocks {
			for _, in := range b.Instrs {
				call, ok := in.(*ssa.Call)
				if !ok || !call.Call.IsInvoke() || call.Call.Method.Name() != "LookupMacro" {
					continue
				}
				lookups++
				for _, r := range *call.Referrers() {
					ex, ok := r.(*ssa.Extract)
					if !ok || ex.Index != 0 {
						continue
					}
					for _, u := range *ex.Referrers() {
						switch x := u.(type) {
						case *ssa.Return, *ssa.DebugRef:
						case ssa.CallInstruction:
							if x.Common().IsInvoke() && x.Common().Value == ex && x.Common().Method.Name() == "Eval" {
								continue // decided above
							}
							c.fail("R13", shortName(f)+"|looked-up EQU body passed on", c.L.Pos(instrPos(u)), "the looked-up body is handed to "+calleeOrDyn(x.Common())+": whether that evaluates it in the same environment is not decided here")
						default:
							c.fail("R13", shortName(f)+"|looked-up EQU body used", c.L.Pos(instrPos(u)), fmt.Sprintf("unclassified use (%T) of a looked-up EQU body", u))
						}
					}
				}
			}
		}
	}
	c.ok("R13", "lookups classified", "", fmt.Sprintf("%d LookupMacro call sites, %d evaluate the body", lookups, n))
	c.check(lookups >= 1, "R13", "lookups found", "", "no LookupMacro call site found in the evaluator")
}

func returnedConcreteTypes(f *ssa.Function) []types.Type {
	var out []types.Type
	for _, b := range f.Blocks {
		for _, in := range b.Instrs {
			if r, ok := in.(*ssa.Return); ok {
				for _, v := range r.Results {
					if mi, ok := v.(*ssa.MakeInterface); ok {
						out = append(out, mi.X.Type())
					}
				}
			}
		}
	}
	return out
}

func hasIf(f *ssa.Function) bool {
	for _, b := range f.Blocks {
		if len(b.Instrs) > 0 {
			if _, ok := b.Instrs[len(b.Instrs)-1].(*ssa.If); ok {
				return true
			}
		}
	}
	return false
}

// ---------------------------------------------------------------------------------------
// C2P: codegen classifies the operand text it was given
// ---------------------------------------------------------------------------------------

func ruleC2P(c *Ctx) {
	c.doc("C2P", "the text an emitter hands to the operand classifier (ng_operand.FromString) is the operand text of its ocode, joined or indexed but not rewritten: pass 1 sized the statement from that very text, so substituting symbol values or otherwise editing it first makes the classification (imm8/16/32, prefixes) depend on addresses and disagree with the size pass 1 counted")
	p := c.L.Pkg("internal/codegen")
	if p == nil {
		c.anchorMissing("C2P", "internal/codegen")
		return
	}
	n := 0
	for _, f := range c.L.RepoFuncs() {
		if pkgRel(f) != "internal/codegen" || c.isGeneratedFn(f) {
			continue
		}
		per := 0
		callsIn(f, func(ci ssa.CallInstruction) {
			cc := ci.Common()
			if !strings.HasSuffix(calleeName(cc), "ng_operand.FromString") || len(cc.Args) != 1 {
				return
			}
			per++
			n++
			key := fmt.Sprintf("%s|FromString#%d argument", shortName(f), per)
			bad := rewrittenBy(cc.Args[0], map[ssa.Value]bool{}, 0)
			c.check(bad == "", "C2P", key, c.L.Pos(instrPos(ci)), "the classified text passes through "+bad+" first")
		})
	}
	c.floor("C2P", 10)
	c.analysed["C2P_sites"] = n
}

// rewrittenBy follows the backward slice of a string value and names the first construct that
// can change the text in a data-dependent way: a call into the module, a map lookup, a global.
func rewrittenBy(v ssa.Value, seen map[ssa.Value]bool, depth int) string {
	if v == nil || seen[v] || depth > 40 {
		return ""
	}
	seen[v] = true
	switch x := v.(type) {
	case *ssa.Parameter, *ssa.Const, *ssa.FreeVar:
		return ""
	case *ssa.Global:
		return "package-level variable " + x.Name()
	case *ssa.Lookup:
		if _, isMap := x.X.Type().Underlying().(*types.Map); isMap {
			return "a map lookup (" + valName(x.X) + ")"
		}
		return firstNonEmpty(rewrittenBy(x.X, seen, depth+1), rewrittenBy(x.Index, seen, depth+1))
	case *ssa.Call:
		if callee := x.Call.StaticCallee(); callee != nil && callee.Pkg != nil {
			if strings.HasPrefix(callee.Pkg.Pkg.Path(), modPath) {
				return "a call of " + shortName(callee)
			}
		} else if _, isBuiltin := x.Call.Value.(*ssa.Builtin); !isBuiltin {
			return "a dynamic call"
		}
		for _, a := range x.Call.Args {
			if s := rewrittenBy(a, seen, depth+1); s != "" {
				return s
			}
		}
		return ""
	case *ssa.Alloc:
		for _, r := range *x.Referrers() {
			if st, ok := r.(*ssa.Store); ok && st.Addr == x {
				if s := rewrittenBy(st.Val, seen, depth+1); s != "" {
					return s
				}
			}
		}
		return ""
	case *ssa.Extract:
		return rewrittenBy(x.Tuple, seen, depth+1)
	case ssa.Instruction:
		for _, op := range x.Operands(nil) {
			if op != nil && *op != nil {
				if s := rewrittenBy(*op, seen, depth+1); s != "" {
					return s
				}
			}
		}
	}
	return ""
}

func firstNonEmpty(a ...string) string {
	for _, s := range a {
		if s != "" {
			return s
		}
	}
	return ""
}

// ---------------------------------------------------------------------------------------
// K18: direct/indirect memory classification reads registers only
// ---------------------------------------------------------------------------------------

func ruleK18(c *Ctx) {
	c.doc("K18", "IsDirectMemory / IsIndirectMemory decide by the presence of a base or index register and read nothing else of the memory operand (not its displacement): [0] is as direct as [0x1000], and the accumulator moffs forms are filtered by these predicates")
	for _, fn := range []string{"(*OperandPegImpl).IsDirectMemory", "(*OperandPegImpl).IsIndirectMemory"} {
		f := c.L.SSAFunc("pkg/ng_operand", fn)
		if f == nil {
			c.anchorMissing("K18", "pkg/ng_operand."+fn)
			continue
		}
		fields := map[string]token.Pos{}
		seen := map[*ssa.Function]bool{}
		var walk func(g *ssa.Function, d int)
		walk = func(g *ssa.Function, d int) {
			if g == nil || seen[g] || d > 4 {
				return
			}
			seen[g] = true
			for _, an := range g.AnonFuncs {
				walk(an, d)
			}
			for _, b := range g.Blocks {
				for _, in := range b.Instrs {
					if fa, ok := in.(*ssa.FieldAddr); ok {
						if tn, _ := namedOf(fa.X.Type()); tn == "MemoryInfo" {
							fields[fieldName(fa)] = fa.Pos()
						}
					}
					if ci, ok := in.(ssa.CallInstruction); ok {
						if callee := ci.Common().StaticCallee(); callee != nil && callee.Pkg != nil && strings.HasSuffix(callee.Pkg.Pkg.Path(), "pkg/ng_operand") {
							walk(callee, d+1)
						}
					}
				}
			}
		}
		walk(f, 0)
		var extra []string
		for k := range fields {
			if k != "BaseReg" && k != "IndexReg" {
				extra = append(extra, k)
			}
		}
		sort.Strings(extra)
		_, hasB := fields["BaseReg"]
		_, hasI := fields["IndexReg"]
		c.check(hasB && hasI, "K18", fn+"|reads BaseReg and IndexReg", c.L.Pos(f.Pos()), fmt.Sprintf("fields read: %v", keysOf(fields)))
		c.check(len(extra) == 0, "K18", fn+"|reads nothing else", c.L.Pos(f.Pos()), fmt.Sprintf("also depends on MemoryInfo.%s: operands that differ only there (e.g. [0] vs [0x1000]) are classified differently", strings.Join(extra, ", ")))
	}
	c.floor("K18", 4)
}

func keysOf(m map[string]token.Pos) []string {
	var out []string
	for k := range m {
		out = append(out, k)
	}
	sort.Strings(out)
	return out
}

func namedOf(t types.Type) (string, bool) {
	if pt, ok := t.Underlying().(*types.Pointer); ok {
		t = pt.Elem()
	}
	if n, ok := t.(*types.Named); ok {
		return n.Obj().Name(), true
	}
	return "", false
}

// ---------------------------------------------------------------------------------------
// A18: the accumulator matcher distinguishes register classes only
// ---------------------------------------------------------------------------------------

func ruleA18(c *Ctx) {
	c.doc("A18", "in the accumulator-form matcher the operand type asked for is compared with register classes only (r8/r16/r32); immediates are recognised by the `imm` prefix whatever their size class, so a 32-bit constant with the top bit set (classified imm64 by signed range) still gets the short accumulator form")
	fd, p := c.L.FuncDecl("pkg/asmdb", "matchOperandsWithAccumulator")
	if fd == nil {
		c.anchorMissing("A18", "pkg/asmdb.matchOperandsWithAccumulator")
		return
	}
	n := 0
	// the matcher, the plain helpers of its package it calls, and the read-only tables they look
	// things up in: every operand-type constant an operand type is compared with (or mapped to)
	bodies := []*ast.FuncDecl{fd}
	ast.Inspect(fd.Body, func(x ast.Node) bool {
		if call, ok := x.(*ast.CallExpr); ok {
			if fn, ok := calleeOf(p.TypesInfo, call).(*types.Func); ok && fn.Pkg() == p.Types {
				if hd := funcDeclOf(p, fn); hd != nil && hd.Body != nil && hd.Recv == nil && hd != fd {
					bodies = append(bodies, hd)
				}
			}
		}
		return true
	})
	seenPos := map[token.Pos]bool{}
	judge := func(s string, pos token.Pos) {
		if seenPos[pos] {
			return
		}
		seenPos[pos] = true
		if regClassTypes[s] || strings.HasPrefix(s, "imm") {
			n++
			c.check(!strings.HasPrefix(s, "imm"), "A18", "matchOperandsWithAccumulator|operand type compared with "+s, c.L.Pos(pos),
				"the accumulator matcher singles out the immediate size class "+s+": constants of that class lose the short accumulator encoding")
		}
	}
	for _, body := range bodies {
		ast.Inspect(body.Body, func(x ast.Node) bool {
			be, ok := x.(*ast.BinaryExpr)
			if !ok || (be.Op != token.EQL && be.Op != token.NEQ) {
				return true
			}
			for _, side := range []ast.Expr{be.X, be.Y} {
				if s, isConst := constStr(p.TypesInfo, side); isConst {
					judge(s, side.Pos())
				}
			}
			return true
		})
		for _, t := range readOnlyMapTables(c, p, body) {
			for _, kv := range t.Rows {
				if s, ok := constStr(p.TypesInfo, kv.Value); ok {
					judge(s, kv.Value.Pos())
				}
				if s, ok := constStr(p.TypesInfo, kv.Key); ok && strings.HasPrefix(s, "imm") {
					judge(s, kv.Key.Pos())
				}
			}
		}
	}
	// the prefix sizing of IN/OUT recognises an immediate port the same way: OperandTypes() widens
	// an immediate to the size class of the other operand, so a test for one class (imm8) misses
	// the port next to AX or EAX
	if gp, gpp := c.L.FuncDecl("pkg/asmdb", "(*InstructionDB).GetPrefixSize"); gp != nil {
		sizers := []*ast.FuncDecl{gp}
		ast.Inspect(gp.Body, func(x ast.Node) bool {
			if call, ok := x.(*ast.CallExpr); ok {
				if fn, ok := calleeOf(gpp.TypesInfo, call).(*types.Func); ok && fn.Pkg() == gpp.Types {
					if hd := funcDeclOf(gpp, fn); hd != nil && hd.Body != nil && hd.Recv == nil {
						sizers = append(sizers, hd)
					}
				}
			}
			return true
		})
		ns := 0
		for _, body := range sizers {
			ast.Inspect(body.Body, func(x ast.Node) bool {
				be, ok := x.(*ast.BinaryExpr)
				if !ok || (be.Op != token.EQL && be.Op != token.NEQ) {
					return true
				}
				for _, side := range []ast.Expr{be.X, be.Y} {
					if sv, isConst := constStr(gpp.TypesInfo, side); isConst && len(sv) > 3 && strings.HasPrefix(sv, "imm") && sv[3] >= '0' && sv[3] <= '9' {
						ns++
						c.fail("A18", fmt.Sprintf("%s|operand type compared with %s#%d", body.Name.Name, sv, ns), c.L.Pos(be.Pos()),
							"the prefix sizing singles out the immediate size class "+sv+": an immediate is classified by the size of the other operand (the port of OUT 0x21,AX is imm16), so the test misses it and pass 1 counts no 66h where the emitter writes one")
					}
				}
				return true
			})
		}
		c.ok("A18", "GetPrefixSize|no immediate size class singled out", c.L.Pos(gp.Pos()), fmt.Sprintf("%d functions scanned", len(sizers)))
	}
	c.check(n >= 3, "A18", "matchOperandsWithAccumulator|register-class comparisons found", c.L.Pos(fd.Pos()), fmt.Sprintf("%d comparisons of queryType with constants", n))
}

// ---------------------------------------------------------------------------------------
// M17w: only a BITS directive changes the mode
// ---------------------------------------------------------------------------------------

func ruleM17w(c *Ctx) {
	c.doc("M17w", "the operating mode of the sizing pass (Pass1.BitMode) and of the emitters (CodeGenContext.BitMode, Client.SetBitMode) is assigned only in the BITS clause of TraverseAST and in the SetBitMode forwarder; no other directive (FORMAT, INSTRSET, ORG …) or handler selects a mode")
	var bitsClause *directiveClause
	if tfd, tp := c.L.FuncDecl("internal/pass1", "TraverseAST"); tfd != nil {
		for _, dc := range directiveClauses(tp, tfd) {
			for _, nm := range dc.Names {
				if nm == "Bits" {
					d := dc
					bitsClause = &d
				}
			}
		}
	}
	if bitsClause == nil {
		c.anchorMissing("M17w", "TraverseAST: case ast.Bits")
		return
	}
	n := 0
	for _, p := range c.L.Pkgs {
		rel := relPkg(p)
		if !strings.HasPrefix(p.PkgPath, modPath) || rel == "test" {
			continue
		}
		for _, f := range p.Syntax {
			if c.L.isGeneratedFile(f) || strings.HasSuffix(c.L.Fset.Position(f.Pos()).Filename, "_test.go") {
				continue
			}
			for _, d := range f.Decls {
				fd, ok := d.(*ast.FuncDecl)
				if !ok || fd.Body == nil {
					continue
				}
				per := 0
				ast.Inspect(fd.Body, func(x ast.Node) bool {
					var pos token.Pos
					what := ""
					switch s := x.(type) {
					case *ast.AssignStmt:
						for _, l := range s.Lhs {
							if sel, ok := l.(*ast.SelectorExpr); ok && sel.Sel.Name == "BitMode" {
								if tn, _ := namedOf(p.TypesInfo.TypeOf(sel.X)); tn == "Pass1" || tn == "CodeGenContext" {
									pos, what = s.Pos(), "assigns "+tn+".BitMode"
								}
							}
						}
					case *ast.CallExpr:
						if sel, ok := s.Fun.(*ast.SelectorExpr); ok && sel.Sel.Name == "SetBitMode" {
							pos, what = s.Pos(), "calls SetBitMode"
						}
					}
					if what == "" {
						return true
					}
					n++
					per++
					key := fmt.Sprintf("%s.%s|%s#%d", rel, fdName(fd), what, per)
					switch {
					case pos >= bitsClause.Pos() && pos < bitsClause.End():
						c.ok("M17w", key, c.L.Pos(pos), "inside the BITS clause")
					case fd.Name.Name == "SetBitMode":
						c.ok("M17w", key, c.L.Pos(pos), "the setter itself")
					default:
						c.fail("M17w", key, c.L.Pos(pos), fdName(fd)+" "+what+" outside the BITS clause: something other than a BITS directive selects the mode")
					}
					return true
				})
			}
		}
	}
	c.floor("M17w", 3)
	c.analysed["M17w_sites"] = n
}

// ---------------------------------------------------------------------------------------
// O19: the output file is created (exit 17 on failure) before either writer runs
// ---------------------------------------------------------------------------------------

func ruleO19(c *Ctx) {
	c.doc("O19", "in frontend.Exec the creation of the output file, whose failure exits with status 17, dominates every write of the output — the flat write and the COFF writer alike; a writer that creates the file itself reports failure with a different status")
	f := c.L.SSAFunc("internal/frontend", "Exec")
	if f == nil {
		c.anchorMissing("O19", "internal/frontend.Exec")
		return
	}
	var openBlk *ssa.BasicBlock
	var openPos token.Pos
	for _, b := range f.Blocks {
		for _, in := range b.Instrs {
			call, ok := in.(*ssa.Call)
			if !ok {
				continue
			}
			n := calleeName(call.Common())
			if n != "os.OpenFile" && n != "os.Create" {
				continue
			}
			// error branch exits 17
			if exitsWith(b, 17) {
				openBlk, openPos = b, call.Pos()
			}
		}
	}
	c.check(openBlk != nil, "O19", "Exec|creates the output, exit 17 on failure", c.L.Pos(f.Pos()), "no os.OpenFile/os.Create in Exec whose failure branch calls os.Exit(17)")
	if openBlk == nil {
		return
	}
	n := 0
	for _, b := range f.Blocks {
		for _, in := range b.Instrs {
			ci, ok := in.(ssa.CallInstruction)
			if !ok {
				continue
			}
			if _, isDefer := in.(*ssa.Defer); isDefer {
				continue
			}
			cc := ci.Common()
			name := calleeName(cc)
			isWrite := false
			if cc.IsInvoke() && cc.Method.Name() == "Write" {
				isWrite = true
			}
			if strings.HasSuffix(name, ").Write") || strings.HasSuffix(name, "os.WriteFile") {
				isWrite = true
			}
			if !isWrite {
				continue
			}
			n++
			what := name
			if cc.IsInvoke() {
				what = "invoke " + cc.Method.Name() + " on " + cc.Value.Type().String()
			}
			c.check(openBlk.Dominates(b), "O19", fmt.Sprintf("Exec|write#%d after creation", n), c.L.Pos(instrPos(in)),
				what+" is reachable without passing the output-creation check at "+c.L.Pos(openPos)+": an uncreatable output on this path does not exit 17")
		}
	}
	c.check(n >= 2, "O19", "Exec|writers found", c.L.Pos(f.Pos()), fmt.Sprintf("%d output writes (flat and COFF expected)", n))
	// … and every normal return: a successful run always leaves a freshly created output, even an
	// empty one (a path that returns without creating it leaves the previous file's bytes in place)
	rn := 0
	for _, b := range f.Blocks {
		for _, in := range b.Instrs {
			if _, ok := in.(*ssa.Return); !ok {
				continue
			}
			if b == f.Recover {
				continue // the synthetic return taken after a recovered panic
			}
			rn++
			c.check(openBlk.Dominates(b), "O19", fmt.Sprintf("Exec|return#%d after creation", rn), c.L.Pos(instrPos(in)),
				"Exec can return normally without having created (truncated) the output file: exit status 0 with the old contents, or no file at all")
		}
	}
}

// exitsWith: the If ending b (or the next block) has a successor that calls os.Exit(code).
func exitsWith(b *ssa.BasicBlock, code int64) bool {
	seen := map[*ssa.BasicBlock]bool{}
	var has func(x *ssa.BasicBlock, d int) bool
	has = func(x *ssa.BasicBlock, d int) bool {
		if seen[x] || d > 2 {
			return false
		}
		seen[x] = true
		for _, in := range x.Instrs {
			if call, ok := in.(*ssa.Call); ok && calleeName(call.Common()) == "os.Exit" && len(call.Call.Args) == 1 {
				if k, ok := call.Call.Args[0].(*ssa.Const); ok && isIntConst(k) && k.Int64() == code {
					return true
				}
			}
		}
		return false
	}
	for _, s := range b.Succs {
		if has(s, 0) {
			return true
		}
	}
	return false
}

// ---------------------------------------------------------------------------------------
// L19: the CLI parses the file's decoded text as is, with the API's parser options
// ---------------------------------------------------------------------------------------

func ruleL19(c *Ctx) {
	c.doc("L19", "the command hands the parser the decoded text of the source file unchanged (no string/bytes/regexp rewriting between the read and gen.Parse) and only parser options that do not alter or bound parsing (Entrypoint(\"Program\"), Debug, Memoize, Statistics): what the CLI assembles is what the in-process API assembles")
	fd, p := c.L.FuncDecl("cmd/gosk", "main")
	f := c.L.SSAFunc("cmd/gosk", "main")
	if fd == nil || f == nil {
		c.anchorMissing("L19", "cmd/gosk.main")
		return
	}
	// options (AST)
	found := false
	ast.Inspect(fd.Body, func(x ast.Node) bool {
		call, ok := x.(*ast.CallExpr)
		if !ok {
			return true
		}
		fn, ok := calleeOf(p.TypesInfo, call).(*types.Func)
		if !ok || fn.Name() != "Parse" || fn.Pkg() == nil || !strings.HasSuffix(fn.Pkg().Path(), "internal/gen") {
			return true
		}
		found = true
		for i, a := range call.Args[2:] {
			oc, ok := a.(*ast.CallExpr)
			name := ""
			if ok {
				if ofn, ok := calleeOf(p.TypesInfo, oc).(*types.Func); ok {
					name = ofn.Name()
				}
			}
			key := fmt.Sprintf("main|parser option#%d %s", i+1, name)
			switch name {
			case "Entrypoint":
				s, isK := constStr(p.TypesInfo, oc.Args[0])
				c.check(isK && s == "Program", "L19", key, c.L.Pos(a.Pos()), "the entry rule must be Program")
			case "Debug", "Memoize", "Statistics":
				c.ok("L19", key, c.L.Pos(a.Pos()), "does not change what is accepted")
			default:
				c.fail("L19", key, c.L.Pos(a.Pos()), "parser option "+types.ExprString(a)+" changes or bounds what the CLI's parser accepts; the in-process API does not pass it")
			}
		}
		return true
	})
	if !found {
		c.anchorMissing("L19", "cmd/gosk.main: gen.Parse call")
	}
	// text path (SSA)
	n := 0
	callsIn(f, func(ci ssa.CallInstruction) {
		cc := ci.Common()
		if !strings.HasSuffix(calleeName(cc), "internal/gen.Parse") || len(cc.Args) < 2 {
			return
		}
		n++
		bad := textRewrite(cc.Args[1], map[ssa.Value]bool{}, 0)
		c.check(bad == "", "L19", "main|source text reaches the parser unchanged", c.L.Pos(instrPos(ci)), "between the file read and the parser the text passes through "+bad)
	})
	c.check(n == 1, "L19", "main|gen.Parse call (SSA)", c.L.Pos(f.Pos()), fmt.Sprintf("%d calls", n))
	// the reader returns the decoder's output on every successful path
	if ra := c.L.SSAFunc("cmd/gosk", "readAssets"); ra == nil {
		c.anchorMissing("L19", "cmd/gosk.readAssets")
	} else {
		rn := 0
		for _, b := range ra.Blocks {
			for _, in := range b.Instrs {
				r, ok := in.(*ssa.Return)
				if !ok || len(r.Results) != 2 {
					continue
				}
				if k, ok := r.Results[0].(*ssa.Const); ok && k.Value != nil && k.Value.String() == `""` {
					continue // error path
				}
				rn++
				decoded := dependsOnDecoder(r.Results[0], map[ssa.Value]bool{}, 0)
				c.check(decoded, "L19", fmt.Sprintf("readAssets|return#%d is the decoder's output", rn), c.L.Pos(instrPos(in)), "a path returns text that did not go through the charset decoder (Shift_JIS sources reach the parser raw on that path)")
			}
		}
		c.check(rn >= 1, "L19", "readAssets|returns found", c.L.Pos(ra.Pos()), fmt.Sprintf("%d", rn))
		// the bytes given to the decoder are the file's bytes: no byte-level rewriting before the
		// decoding (a rewrite that looks for 0x5C, 0x0A … also matches the second byte of
		// Shift_JIS characters)
		nrw := 0
		for _, g := range unitOf(ra, 2) {
			callsIn(g, func(ci ssa.CallInstruction) {
				callee := ci.Common().StaticCallee()
				if callee == nil || callee.Pkg == nil || callee.Signature.Recv() != nil {
					return
				}
				pk := callee.Pkg.Pkg.Path()
				if pk != "bytes" && pk != "strings" && pk != "regexp" {
					return
				}
				switch callee.Name() {
				case "Equal", "HasPrefix", "HasSuffix", "Contains", "Index", "IndexByte", "NewReader", "NewBuffer", "NewBufferString", "Compare", "EqualFold", "Count":
					return // read-only
				}
				nrw++
				c.fail("L19", fmt.Sprintf("%s|%s.%s on the source bytes#%d", shortName(g), pk, callee.Name(), nrw), c.L.Pos(instrPos(ci)), "the source is rewritten with "+pk+"."+callee.Name()+" on its way through readAssets: on undecoded Shift_JIS text a byte pattern also matches inside two-byte characters, and what reaches the parser is no longer what was written")
			})
		}
		c.ok("L19", "readAssets|source bytes reach the decoder unchanged", c.L.Pos(ra.Pos()), fmt.Sprintf("%d rewriting calls", nrw))
	}
	c.floor("L19", 4)
}

// textRewrite: like rewrittenBy, but follows calls into package main (readAssets) through their
// results and names text-transforming library calls.
func textRewrite(v ssa.Value, seen map[ssa.Value]bool, depth int) string {
	if v == nil || seen[v] || depth > 60 {
		return ""
	}
	seen[v] = true
	switch x := v.(type) {
	case *ssa.Parameter, *ssa.Const, *ssa.FreeVar, *ssa.Global:
		return ""
	case *ssa.Call:
		if callee := x.Call.StaticCallee(); callee != nil {
			pk := ""
			if callee.Pkg != nil {
				pk = callee.Pkg.Pkg.Path()
			} else if callee.Signature.Recv() != nil {
				if n, ok := derefNamed(callee.Signature.Recv().Type()); ok && n.Obj().Pkg() != nil {
					pk = n.Obj().Pkg().Path()
				}
			}
			switch {
			case strings.HasSuffix(pk, "cmd/gosk"):
				for _, b := range callee.Blocks {
					for _, in := range b.Instrs {
						if r, ok := in.(*ssa.Return); ok {
							for _, res := range r.Results {
								if s := textRewrite(res, seen, depth+1); s != "" {
									return s
								}
							}
						}
					}
				}
				return ""
			case strings.HasPrefix(pk, modPath):
				return "a call of " + shortName(callee)
			case pk == "strings" || pk == "regexp" || pk == "unicode" || pk == "slices" || pk == "sort":
				return "a call of " + pk + "." + callee.Name()
			case pk == "bytes":
				if callee.Signature.Recv() == nil {
					return "a call of bytes." + callee.Name()
				}
			}
		}
		for _, a := range x.Call.Args {
			if s := textRewrite(a, seen, depth+1); s != "" {
				return s
			}
		}
		return ""
	case *ssa.Alloc:
		for _, r := range *x.Referrers() {
			if st, ok := r.(*ssa.Store); ok && st.Addr == x {
				if s := textRewrite(st.Val, seen, depth+1); s != "" {
					return s
				}
			}
		}
		return ""
	case *ssa.Extract:
		return textRewrite(x.Tuple, seen, depth+1)
	case ssa.Instruction:
		for _, op := range x.Operands(nil) {
			if op != nil && *op != nil {
				if s := textRewrite(*op, seen, depth+1); s != "" {
					return s
				}
			}
		}
	}
	return ""
}

func derefNamed(t types.Type) (*types.Named, bool) {
	if pt, ok := t.(*types.Pointer); ok {
		t = pt.Elem()
	}
	n, ok := t.(*types.Named)
	return n, ok
}

// ---------------------------------------------------------------------------------------
// B15: binary search only on sorted data
// ---------------------------------------------------------------------------------------

func ruleB15(c *Ctx) {
	c.doc("B15", "sort.Search*/slices.BinarySearch* is applied only to a slice the same function has just sorted: on a list kept in declaration order (GLOBAL names, symbols) the answer depends on how the names happen to compare, so renaming changes which duplicates are recognised")
	n := 0
	for _, f := range c.L.RepoFuncs() {
		if c.isGeneratedFn(f) || pkgRel(f) == "test" {
			continue
		}
		per := 0
		callsIn(f, func(ci ssa.CallInstruction) {
			name := calleeName(ci.Common())
			isSearch := strings.HasPrefix(name, "sort.Search") || strings.HasPrefix(name, "slices.BinarySearch")
			if !isSearch {
				return
			}
			n++
			per++
			sorted := false
			callsIn(f, func(o ssa.CallInstruction) {
				on := calleeName(o.Common())
				if (strings.HasPrefix(on, "sort.") && !strings.HasPrefix(on, "sort.Search")) || strings.HasPrefix(on, "slices.Sort") {
					if ob, cb := o.Block(), ci.Block(); ob != nil && cb != nil && (ob.Dominates(cb)) {
						sorted = true
					}
				}
			})
			c.check(sorted, "B15", fmt.Sprintf("%s|binary search#%d", shortName(f), per), c.L.Pos(instrPos(ci)), shortName(f)+" calls "+name+" on data it has not sorted")
		})
	}
	c.ok("B15", "binary searches scanned", "", fmt.Sprintf("%d sites", n))
}

// inLoopGuard: the index expression sits under `i < len(B)` — the condition of an enclosing if,
// or the left operand of the && it is the right operand of.
func inLoopGuard(body ast.Node, ie *ast.IndexExpr, idx, bTxt string) (string, bool) {
	isGuard := func(e ast.Expr) bool {
		found := false
		ast.Inspect(e, func(n ast.Node) bool {
			be, ok := n.(*ast.BinaryExpr)
			if !ok {
				return true
			}
			if be.Op == token.LOR {
				return false
			}
			var i, l ast.Expr
			switch be.Op {
			case token.LSS:
				i, l = be.X, be.Y
			case token.GTR:
				i, l = be.Y, be.X
			default:
				return true
			}
			if id, ok := i.(*ast.Ident); ok && id.Name == idx {
				if call, ok := l.(*ast.CallExpr); ok && len(call.Args) == 1 {
					if fn, ok := call.Fun.(*ast.Ident); ok && fn.Name == "len" && types.ExprString(call.Args[0]) == bTxt {
						found = true
					}
				}
			}
			return true
		})
		return found
	}
	ok := false
	var stack []ast.Node
	ast.Inspect(body, func(n ast.Node) bool {
		if n == nil {
			stack = stack[:len(stack)-1]
			return true
		}
		stack = append(stack, n)
		if n != ast.Node(ie) {
			return true
		}
		for k := len(stack) - 2; k >= 0; k-- {
			switch a := stack[k].(type) {
			case *ast.IfStmt:
				if ie.Pos() >= a.Body.Pos() && ie.End() <= a.Body.End() && isGuard(a.Cond) {
					ok = true
				}
				if ie.Pos() >= a.Cond.Pos() && ie.End() <= a.Cond.End() {
					// inside the condition itself: handled by the && case below
				}
			case *ast.BinaryExpr:
				if a.Op == token.LAND && ie.Pos() >= a.Y.Pos() && isGuard(a.X) {
					ok = true
				}
			}
		}
		return true
	})
	if ok {
		return "guarded by `" + idx + " < len(" + bTxt + ")` inside the loop", true
	}
	return "", false
}

// notAFreshWrapper: "" when every return of f is MakeInterface(struct literal) whose fields are
// stored from f's own parameters (in particular the wrapped environment is parameter 0).
func notAFreshWrapper(f *ssa.Function) string {
	for _, b := range f.Blocks {
		for _, in := range b.Instrs {
			r, ok := in.(*ssa.Return)
			if !ok || len(r.Results) != 1 {
				continue
			}
			mi, ok := r.Results[0].(*ssa.MakeInterface)
			if !ok {
				return "returns something that is not a new wrapper on some path"
			}
			load, ok := mi.X.(*ssa.UnOp)
			if !ok || load.Op != token.MUL {
				return "returns a value that is not a freshly built struct on some path"
			}
			a, ok := load.X.(*ssa.Alloc)
			if !ok {
				return "returns a value that is not a freshly built struct on some path"
			}
			wrapsParam := false
			for _, ref := range *a.Referrers() {
				switch x := ref.(type) {
				case *ssa.Store:
					if x.Addr == a {
						return "copies an existing wrapper and changes it instead of nesting a new one (only the innermost name stays hidden)"
					}
				case *ssa.FieldAddr:
					for _, fr := range *x.Referrers() {
						if st, ok := fr.(*ssa.Store); ok && st.Addr == x {
							if prm, ok := st.Val.(*ssa.Parameter); ok && prm == f.Params[0] {
								wrapsParam = true
							}
						}
					}
				}
			}
			if !wrapsParam {
				return "builds a wrapper that does not hold its own environment argument"
			}
		}
	}
	return ""
}

func sliceHasCall(v ssa.Value, name string, seen map[ssa.Value]bool, depth int) bool {
	if v == nil || seen[v] || depth > 30 {
		return false
	}
	seen[v] = true
	if call, ok := v.(*ssa.Call); ok && calleeName(call.Common()) == name {
		return true
	}
	switch x := v.(type) {
	case *ssa.Alloc:
		for _, r := range *x.Referrers() {
			if st, ok := r.(*ssa.Store); ok && st.Addr == x && sliceHasCall(st.Val, name, seen, depth+1) {
				return true
			}
		}
		return false
	case *ssa.Phi:
		// every non-nil edge must carry the call
		any := false
		for _, e := range x.Edges {
			if k, ok := e.(*ssa.Const); ok && k.IsNil() {
				continue
			}
			if !sliceHasCall(e, name, seen, depth+1) {
				return false
			}
			any = true
		}
		return any
	case ssa.Instruction:
		for _, op := range x.Operands(nil) {
			if op != nil && *op != nil && sliceHasCall(*op, name, seen, depth+1) {
				return true
			}
		}
	}
	return false
}

// dependsOnDecoder: the value is data-dependent on a call into golang.org/x/text or
// golang.org/x/net/html/charset — directly, or through a local buffer whose address was handed
// to such a call (transform.NewWriter(&buf, …) … buf.Bytes()). How the decoder is driven is not
// prescribed.
func dependsOnDecoder(v ssa.Value, seen map[ssa.Value]bool, depth int) bool {
	if v == nil || seen[v] || depth > 40 {
		return false
	}
	seen[v] = true
	isDecoderCall := func(cc *ssa.CallCommon) bool {
		n := calleeOrDyn(cc)
		return strings.Contains(n, "golang.org/x/text/") || strings.Contains(n, "golang.org/x/net/html/charset")
	}
	if _, isExtract := v.(*ssa.Extract); isExtract {
		if rs := helperResults(v); len(rs) > 0 {
			for _, r := range rs {
				if !dependsOnDecoder(r, seen, depth+1) {
					return false
				}
			}
			return true
		}
	}
	switch x := v.(type) {
	case *ssa.Call:
		if isDecoderCall(x.Common()) {
			return true
		}
		// a decoding helper of this repository: every value it returns is decoder output
		if rs := helperResults(x); len(rs) > 0 {
			for _, r := range rs {
				if !dependsOnDecoder(r, seen, depth+1) {
					return false
				}
			}
			return true
		}
		if x.Call.IsInvoke() {
			if dependsOnDecoder(x.Call.Value, seen, depth+1) {
				return true
			}
		}
		for _, a := range x.Call.Args {
			if dependsOnDecoder(a, seen, depth+1) {
				return true
			}
		}
		return false
	case *ssa.Alloc:
		for _, r := range *x.Referrers() {
			switch y := r.(type) {
			case *ssa.Store:
				if y.Addr == x && dependsOnDecoder(y.Val, seen, depth+1) {
					return true
				}
			case ssa.CallInstruction:
				if isDecoderCall(y.Common()) {
					return true
				}
			case *ssa.MakeInterface:
				for _, rr := range *y.Referrers() {
					if ci, ok := rr.(ssa.CallInstruction); ok && isDecoderCall(ci.Common()) {
						return true
					}
				}
			}
		}
		return false
	case *ssa.Phi:
		any := false
		for _, e := range x.Edges {
			if k, ok := e.(*ssa.Const); ok && k.IsNil() {
				continue
			}
			if !dependsOnDecoder(e, seen, depth+1) {
				return false
			}
			any = true
		}
		return any
	case *ssa.Extract:
		return dependsOnDecoder(x.Tuple, seen, depth+1)
	case ssa.Instruction:
		for _, op := range x.Operands(nil) {
			if op != nil && *op != nil && dependsOnDecoder(*op, seen, depth+1) {
				return true
			}
		}
	}
	return false
}
