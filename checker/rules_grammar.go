package main

// Grammar-derived rules: T10 (C06 layering, C12 layout attributes) and T7 (operator tables
// of the expression evaluator). Only derived attributes of the extracted PEG are compared —
// never rule bodies against a frozen copy.

import (
	"fmt"
	"go/ast"
	"go/token"
	"go/types"
	"sort"
	"strings"
)

// directLits: literal strings and char classes appearing in rule n without following references.
func directLits(n *pegNode, out *[]string) {
	if n == nil {
		return
	}
	switch n.Kind {
	case "lit":
		*out = append(*out, n.Val)
	case "not", "and":
		return
	}
	for _, k := range n.Kids {
		directLits(k, out)
	}
}

func directRefs(n *pegNode) []string {
	m := map[string]bool{}
	refs(n, false, m)
	return sortedSet(m)
}

// seqOf returns the top-level sequence elements of a rule body (action/label stripped); a
// non-sequence body is a one-element sequence.
func seqOf(n *pegNode) []*pegNode {
	b := strip(n)
	if b.Kind == "seq" {
		return b.Kids
	}
	return []*pegNode{b}
}

// tailSeq finds the element `label:( ... )*` of a rule's top-level sequence and returns the
// repeated inner sequence.
func tailSeq(n *pegNode, label string) []*pegNode {
	for _, e := range seqOf(n) {
		if e.Kind == "labeled" && e.Name == label {
			x := e.Kids[0]
			if x.Kind == "star" || x.Kind == "plus" {
				return seqOf(x.Kids[0])
			}
		}
	}
	return nil
}

func elemStr(e *pegNode) string {
	if e == nil {
		return "<nil>"
	}
	return e.String()
}

func isRef(e *pegNode, name string) bool {
	e = stripLabel(e)
	return e != nil && e.Kind == "ref" && e.Name == name
}

func stripLabel(e *pegNode) *pegNode {
	for e != nil && e.Kind == "labeled" {
		e = e.Kids[0]
	}
	return e
}

func litSetOf(e *pegNode) []string {
	var ls []string
	directLits(stripLabel(e), &ls)
	sort.Strings(ls)
	return ls
}

func sameSet(a []string, b ...string) bool {
	a = append([]string{}, a...)
	sort.Strings(a)
	b = append([]string{}, b...)
	sort.Strings(b)
	if len(a) != len(b) {
		return false
	}
	for i := range a {
		if a[i] != b[i] {
			return false
		}
	}
	return true
}

// ---------------------------------------------------------------------------------------
// T10/C06: expression grammar layering
// ---------------------------------------------------------------------------------------

func ruleT10Expr(c *Ctx) {
	c.doc("T10e", "expression grammar: the additive rule holds exactly + and - over multiplicative operands, the multiplicative rule holds exactly * / % over primaries, a primary is a literal/identifier or a parenthesised additive expression; the actions read the tuple positions the grammar puts operators and operands at")
	g := mainGrammar(c)
	if len(g.Errs) > 0 {
		c.fail("T10e", "grammar-extraction", "", strings.Join(g.Errs, "; "))
		return
	}
	c.analysed["main_grammar_rules"] = len(g.Order)
	type layer struct {
		rule    string
		ops     []string
		operand string
	}
	for _, ly := range []layer{{"AddExp", []string{"+", "-"}, "MultExp"}, {"MultExp", []string{"*", "/", "%"}, "PrimaryExp"}} {
		r := g.Rules[ly.rule]
		if r == nil {
			c.anchorMissing("T10e", "grammar rule "+ly.rule)
			continue
		}
		seq := seqOf(r)
		// head operand
		c.check(len(seq) >= 2 && isRef(seq[0], ly.operand), "T10e", ly.rule+"|head operand", "", fmt.Sprintf("%s must start with one %s; body: %s", ly.rule, ly.operand, r.String()))
		ts := tailSeq(r, "tail")
		if ts == nil {
			c.fail("T10e", ly.rule+"|tail", "", "no repeated (operator operand)* tail in "+r.String())
			continue
		}
		// the tail holds: WS, operator choice, WS, operand
		var opIdx, operandIdx = -1, -1
		for i, e := range ts {
			if isRef(e, ly.operand) {
				operandIdx = i
			} else if e.Kind == "choice" || e.Kind == "lit" || e.Kind == "class" {
				opIdx = i
			}
		}
		if opIdx < 0 || operandIdx < 0 {
			c.fail("T10e", ly.rule+"|tail shape", "", "tail is not (… operator … operand): "+r.String())
			continue
		}
		got := litSetOf(ts[opIdx])
		c.check(sameSet(got, ly.ops...), "T10e", ly.rule+"|operator set", "", fmt.Sprintf("operators of %s are %q, must be exactly %q (precedence layering)", ly.rule, got, ly.ops))
		c.check(operandIdx > opIdx, "T10e", ly.rule+"|operator before operand", "", "operator must precede its right operand")
		// no other operand kinds: consuming refs ⊆ {operand, WS}
		dr := directRefs(r)
		okRefs := true
		for _, x := range dr {
			if x != ly.operand && x != "WS" {
				okRefs = false
			}
		}
		c.check(okRefs, "T10e", ly.rule+"|operand kinds", "", fmt.Sprintf("%s may reference only %s and WS, references %v", ly.rule, ly.operand, dr))
		// WS padding around the operator (C12 shares this)
		pad := opIdx > 0 && isRef(ts[opIdx-1], "WS") && opIdx+1 < len(ts) && isRef(ts[opIdx+1], "WS")
		c.check(pad, "T10e", ly.rule+"|operator padded by WS", "", "operator must be surrounded by optional blanks: "+r.String())
		// the action reads the right tuple slots
		checkActionTuple(c, g, "T10e", ly.rule, ts, opIdx, operandIdx)
	}
	// primary: literal | '(' additive ')'
	pe := g.Rules["PrimaryExp"]
	if pe == nil {
		c.anchorMissing("T10e", "grammar rule PrimaryExp")
	} else {
		clo := g.refClosure("PrimaryExp")
		// every rule in the closure that references AddExp directly must bracket it
		n := 0
		for _, name := range sortedSet(clo) {
			r := g.Rules[name]
			if name == "AddExp" || name == "MultExp" || r == nil {
				continue
			}
			for _, x := range directRefs(r) {
				if x != "AddExp" {
					continue
				}
				n++
				seq := seqOf(r)
				open, close, mid := -1, -1, -1
				for i, e := range seq {
					e = stripLabel(e)
					switch {
					case e.Kind == "lit" && e.Val == "(":
						open = i
					case e.Kind == "lit" && e.Val == ")":
						close = i
					case e.Kind == "ref" && e.Name == "AddExp":
						mid = i
					}
				}
				c.check(open >= 0 && open < mid && mid < close, "T10e", name+"|parenthesised additive", "", "a primary may re-enter the additive level only between '(' and ')': "+r.String())
			}
		}
		c.check(n >= 1, "T10e", "PrimaryExp|has parenthesised form", "", "no parenthesised alternative reachable from PrimaryExp")
		// primaries must not reach the operator layers except through that bracket: PrimaryExp's
		// own alternatives are Factor-like or the bracket rule
		for _, x := range directRefs(pe) {
			if x == "AddExp" || x == "MultExp" {
				c.fail("T10e", "PrimaryExp|direct recursion", "", "PrimaryExp references "+x+" without parentheses (would break precedence)")
			}
		}
	}
	c.floor("T10e", 14)
}

// checkActionTuple verifies that the semantic action of `rule` indexes the tail tuple at
// the positions where the grammar places the operator and the operand.
func checkActionTuple(c *Ctx, g *pegGrammar, ruleID, rule string, ts []*pegNode, opIdx, operandIdx int) {
	body := g.Rules[rule].Kids[0]
	if body.Kind != "action" {
		c.fail(ruleID, rule+"|action", "", "rule has no semantic action")
		return
	}
	on := "on" + strings.TrimPrefix(body.Name, "callon")
	fd, p := c.L.FuncDecl(relPkg(g.Pkg), "(*current)."+on)
	if fd == nil {
		c.anchorMissing(ruleID, "action function "+on)
		return
	}
	info := p.TypesInfo
	idx := map[int64]bool{}
	var asserted, stringified []int64
	ast.Inspect(fd.Body, func(n ast.Node) bool {
		switch x := n.(type) {
		case *ast.TypeAssertExpr:
			if ie, ok := x.X.(*ast.IndexExpr); ok {
				if k, ok := constInt(info, ie.Index); ok {
					asserted = append(asserted, k)
				}
			}
		case *ast.CallExpr:
			if fn, ok := calleeOf(info, x).(*types.Func); ok && fn.Name() == "ToString" && len(x.Args) == 1 {
				if ie, ok := x.Args[0].(*ast.IndexExpr); ok {
					if k, ok := constInt(info, ie.Index); ok {
						stringified = append(stringified, k)
					}
				}
			}
		case *ast.IndexExpr:
			if k, ok := constInt(info, x.Index); ok {
				idx[k] = true
			}
		}
		return true
	})
	inRange := true
	for k := range idx {
		if k < 0 || int(k) >= len(ts) {
			inRange = false
		}
	}
	c.check(inRange, ruleID, rule+"|action tuple indices in range", c.L.Pos(fd.Pos()), fmt.Sprintf("action indexes the tail tuple outside its %d elements", len(ts)))
	okOp := len(stringified) > 0
	for _, k := range stringified {
		if int(k) != opIdx {
			okOp = false
		}
	}
	c.check(okOp, ruleID, rule+"|action reads operator slot", c.L.Pos(fd.Pos()), fmt.Sprintf("operator is tuple[%d] in the grammar; action stringifies %v", opIdx, stringified))
	okOperand := len(asserted) > 0
	for _, k := range asserted {
		if int(k) != operandIdx {
			okOperand = false
		}
	}
	c.check(okOperand, ruleID, rule+"|action reads operand slot", c.L.Pos(fd.Pos()), fmt.Sprintf("operand is tuple[%d] in the grammar; action asserts %v", operandIdx, asserted))
	// forward, order-preserving accumulation: appends inside a range loop
	forward := false
	ast.Inspect(fd.Body, func(n ast.Node) bool {
		if rs, ok := n.(*ast.RangeStmt); ok {
			apps := 0
			ast.Inspect(rs.Body, func(m ast.Node) bool {
				if ce, ok := m.(*ast.CallExpr); ok {
					if id, ok := ce.Fun.(*ast.Ident); ok && id.Name == "append" {
						apps++
					}
				}
				return true
			})
			if apps >= 2 {
				forward = true
			}
		}
		return true
	})
	c.check(forward, ruleID, rule+"|action keeps source order", c.L.Pos(fd.Pos()), "operators and operands must be appended in a forward range over the tail")
}

// ---------------------------------------------------------------------------------------
// T7: operator tables of the evaluator
// ---------------------------------------------------------------------------------------

var opTok = map[string]token.Token{"+": token.ADD, "-": token.SUB, "*": token.MUL, "/": token.QUO, "%": token.REM}
var assignTok = map[token.Token]token.Token{token.ADD_ASSIGN: token.ADD, token.SUB_ASSIGN: token.SUB, token.MUL_ASSIGN: token.MUL, token.QUO_ASSIGN: token.QUO, token.REM_ASSIGN: token.REM}

func ruleT7(c *Ctx) {
	c.doc("T7", "in the evaluator each operator string selects the Go operator of the same meaning, applied as acc = acc OP term (accumulator on the left) inside a forward range over the operator list; literals are parsed in base 10 / 16")
	type site struct {
		op   string
		body []ast.Stmt
		pos  token.Pos
	}
	for _, t := range []struct {
		fn   string
		want []string
	}{{"(*AddExp).Eval", []string{"+", "-"}}, {"(*MultExp).Eval", []string{"*", "/", "%"}}} {
		fd, p := c.L.FuncDecl("internal/ast", t.fn)
		if fd == nil {
			c.anchorMissing("T7", "internal/ast."+t.fn)
			continue
		}
		info := p.TypesInfo
		var sites []site
		type fwdLoop struct {
			key  string
			body *ast.BlockStmt
		}
		var loops []fwdLoop
		curSelAliases = selectorAliases(fd)
		ast.Inspect(fd.Body, func(n ast.Node) bool {
			switch x := n.(type) {
			case *ast.RangeStmt:
				if sel, ok := ast.Unparen(x.X).(*ast.SelectorExpr); ok && sel.Sel.Name == "Operators" {
					if id, ok := x.Key.(*ast.Ident); ok && id.Name != "_" {
						loops = append(loops, fwdLoop{id.Name, x.Body})
					}
				}
			case *ast.ForStmt:
				// for i := 0; i < len(X.Operators); i++ — the same forward walk written with an index
				if k, ok := forwardIndexLoopOver(x, "Operators"); ok {
					loops = append(loops, fwdLoop{k, x.Body})
				}
			case *ast.IfStmt:
				// `op == "+"`, also as a conjunct: `isConst && op == "+"`
				for _, s := range opConjuncts(info, x.Cond) {
					sites = append(sites, site{s, x.Body.List, x.Pos()})
				}
			case *ast.SwitchStmt:
				if x.Tag == nil {
					// tagless switch: case isConst && op == "+":
					for _, cl := range x.Body.List {
						cc, ok := cl.(*ast.CaseClause)
						if !ok {
							continue
						}
						for _, e := range cc.List {
							for _, s := range opConjuncts(info, e) {
								sites = append(sites, site{s, cc.Body, cc.Pos()})
							}
						}
					}
				}
				if x.Tag != nil && isStringType(info.TypeOf(x.Tag)) {
					for _, row := range rowsOf(x) {
						for _, k := range row.Keys {
							if s, ok := constStr(info, k); ok {
								if _, isOp := opTok[s]; isOp {
									sites = append(sites, site{s, row.Body, row.Pos})
								}
							}
						}
					}
				}
			}
			return true
		})
		seen := map[string]bool{}
		for _, s := range sites {
			// the arithmetic statement of the clause: first (compound) assignment with an arithmetic operator
			var got token.Token
			accLeft := true
			found := false
			for _, st := range s.body {
				ast.Inspect(st, func(n ast.Node) bool {
					if found {
						return false
					}
					as, ok := n.(*ast.AssignStmt)
					if !ok || len(as.Lhs) != 1 || len(as.Rhs) != 1 {
						return true
					}
					if tk, ok := assignTok[as.Tok]; ok {
						got, found = tk, true
						return false
					}
					if as.Tok == token.ASSIGN {
						if be, ok := ast.Unparen(as.Rhs[0]).(*ast.BinaryExpr); ok {
							if _, arith := map[token.Token]bool{token.ADD: true, token.SUB: true, token.MUL: true, token.QUO: true, token.REM: true}[be.Op]; arith {
								got, found = be.Op, true
								accLeft = types.ExprString(be.X) == types.ExprString(as.Lhs[0])
								return false
							}
						}
					}
					return true
				})
				if found {
					break
				}
			}
			key := fmt.Sprintf("internal/ast.%s[%q]", t.fn, s.op)
			if !found {
				// the '+'/'-' branch for unsupported operators keeps the term symbolic; not an arithmetic clause
				continue
			}
			seen[s.op] = true
			c.check(got == opTok[s.op] && accLeft, "T7", key, c.L.Pos(s.pos), fmt.Sprintf("operator %q is evaluated with Go operator %q (accumulator on the left: %v)", s.op, got, accLeft))
		}
		for _, w := range t.want {
			if !seen[w] {
				c.fail("T7", fmt.Sprintf("internal/ast.%s[%q]:missing", t.fn, w), c.L.Pos(fd.Pos()), "no arithmetic clause for operator "+w)
			}
		}
		// forward range whose index selects the matching tail
		okLoop := false
		for _, l := range loops {
			key := l.key
			ast.Inspect(l.body, func(n ast.Node) bool {
				if ie, ok := n.(*ast.IndexExpr); ok {
					if sel, ok := ast.Unparen(ie.X).(*ast.SelectorExpr); ok && (sel.Sel.Name == "TailExps") {
						if ix, ok := ie.Index.(*ast.Ident); ok && ix.Name == key {
							okLoop = true
						}
					}
					if x, ok := ast.Unparen(ie.X).(*ast.Ident); ok && strings.Contains(strings.ToLower(x.Name), "tail") {
						if ix, ok := ie.Index.(*ast.Ident); ok && ix.Name == key {
							okLoop = true
						}
					}
				}
				return true
			})
		}
		c.check(okLoop, "T7", "internal/ast."+t.fn+"|left-to-right fold", c.L.Pos(fd.Pos()), "operators must be folded in a forward `for i, op := range Operators` pairing op i with tail i")
	}
	// literal parsing
	if fd, p := c.L.FuncDecl("internal/ast", "parseHex"); fd == nil {
		c.anchorMissing("T7", "internal/ast.parseHex")
	} else {
		found := false
		ast.Inspect(fd.Body, func(n ast.Node) bool {
			if call, ok := n.(*ast.CallExpr); ok && isCallTo(p.TypesInfo, call, "strconv", "", "ParseInt") && len(call.Args) == 3 {
				found = true
				b, _ := constInt(p.TypesInfo, call.Args[1])
				bits, _ := constInt(p.TypesInfo, call.Args[2])
				c.check(b == 16 && bits == 64, "T7", "internal/ast.parseHex|base", c.L.Pos(call.Pos()), fmt.Sprintf("hex literals must be parsed base 16 into 64 bits; base=%d bits=%d", b, bits))
				// the argument skips exactly the 2-character prefix
				if se, ok := ast.Unparen(call.Args[0]).(*ast.SliceExpr); ok && se.Low != nil {
					lo, _ := constInt(p.TypesInfo, se.Low)
					c.check(lo == 2 && se.High == nil, "T7", "internal/ast.parseHex|prefix", c.L.Pos(call.Pos()), "the digits start after the 2-character 0x prefix")
				}
			}
			return true
		})
		if !found {
			c.anchorMissing("T7", "internal/ast.parseHex: strconv.ParseInt call")
		}
	}
	// decimal literal action of the grammar: strconv.Atoi over the matched text
	if fd, p := c.L.FuncDecl("internal/gen", "(*current).onNumberFactor1"); fd == nil {
		c.anchorMissing("T7", "internal/gen action onNumberFactor1")
	} else {
		found := false
		ast.Inspect(fd.Body, func(n ast.Node) bool {
			if call, ok := n.(*ast.CallExpr); ok {
				if isCallTo(p.TypesInfo, call, "strconv", "", "Atoi") {
					found = true
				}
				if isCallTo(p.TypesInfo, call, "strconv", "", "ParseInt") && len(call.Args) == 3 {
					if b, ok := constInt(p.TypesInfo, call.Args[1]); ok && b == 10 {
						found = true
					}
				}
			}
			return true
		})
		c.check(found, "T7", "internal/gen.onNumberFactor1|decimal", c.L.Pos(fd.Pos()), "decimal literals must be parsed base 10")
	}
	c.floor("T7", 9)
}

// ---------------------------------------------------------------------------------------
// T10/C12: layout attributes of the main grammar
// ---------------------------------------------------------------------------------------

func ruleT10Layout(c *Ctx) {
	c.doc("T10l", "layout attributes of the source grammar: blanks/comments/line ends are matched only by the whitespace rules, every statement is wrapped in them, separators and operators are padded by optional blanks, comment characters inside strings are data")
	g := mainGrammar(c)
	if len(g.Errs) > 0 {
		c.fail("T10l", "grammar-extraction", "", strings.Join(g.Errs, "; "))
		return
	}
	need := func(name string) *pegNode {
		r := g.Rules[name]
		if r == nil {
			c.anchorMissing("T10l", "grammar rule "+name)
		}
		return r
	}
	set := func(bs ...byte) *charSet {
		s := &charSet{}
		for _, b := range bs {
			s.b[b] = true
		}
		return s
	}
	eq := func(a, b *charSet) bool { return a.b == b.b && a.high == b.high }

	if ws := need("WS"); ws != nil {
		c.check(g.nullable(ws, map[string]bool{}), "T10l", "WS|nullable", "", "WS must match the empty string (blanks are optional)")
		a := g.alphabet(ws, map[string]bool{})
		c.check(eq(a, set(' ', '\t')), "T10l", "WS|alphabet", "", "WS must match exactly space and tab; matches {"+a.String()+"}")
	}
	for _, name := range []string{"_", "__"} {
		if u := need(name); u != nil {
			if name == "_" {
				c.check(g.nullable(u, map[string]bool{}), "T10l", "_|nullable", "", "_ must match the empty string")
			}
			// own terminals (not through Comment)
			own := &charSet{}
			var walk func(n *pegNode)
			walk = func(n *pegNode) {
				if n.Kind == "class" {
					own.union(classSet(n))
				}
				if n.Kind == "lit" {
					for _, ch := range n.Val {
						own.addRange(ch, ch)
					}
				}
				if n.Kind == "not" || n.Kind == "and" {
					return
				}
				for _, k := range n.Kids {
					walk(k)
				}
			}
			walk(u)
			c.check(eq(own, set(' ', '\t', '\n', '\r')), "T10l", name+"|alphabet", "", "inter-statement whitespace must be exactly space, tab, LF, CR; matches {"+own.String()+"}")
			m := map[string]bool{}
			refs(u, false, m)
			c.check(m["Comment"], "T10l", name+"|includes comments", "", "comments must be skipped wherever inter-statement whitespace is")
		}
	}
	if cm := need("Comment"); cm != nil {
		f := g.first(cm, map[string]bool{})
		c.check(eq(f, set(';', '#')), "T10l", "Comment|introducers", "", "a comment starts with exactly ';' or '#'; starts with {"+f.String()+"}")
		seq := seqOf(cm)
		okEnd := len(seq) >= 3 && isRef(seq[len(seq)-1], "END")
		c.check(okEnd, "T10l", "Comment|ends at line end", "", "a comment runs to END (line end or end of input): "+cm.String())
	}
	if ch := need("Char"); ch != nil {
		a := g.alphabet(ch, map[string]bool{})
		want := &charSet{high: true}
		for i := range want.b {
			want.b[i] = i != '\n' && i != '\r'
		}
		c.check(eq(a, want), "T10l", "Char|comment body", "", "a comment body is any character except LF and CR")
	}
	if eol := need("EOL"); eol != nil {
		var ls []string
		directLits(eol, &ls)
		c.check(sameSet(ls, "\n", "\r", "\r\n"), "T10l", "EOL|line endings", "", fmt.Sprintf("EOL must accept LF, CR and CRLF; accepts %q", ls))
	}
	if end := need("END"); end != nil {
		dr := directRefs(end)
		c.check(sameSet(dr, "EOL", "EOF"), "T10l", "END|line end or end of input", "", fmt.Sprintf("END must be EOL / EOF (final line without newline); references %v", dr))
	}
	if t := need("TrailingWsEOL"); t != nil {
		seq := seqOf(t)
		okT := len(seq) == 3 && seq[0].Kind == "star" && seq[1].Kind == "opt" && seq[2].Kind == "plus" && isRef(seq[2].Kids[0], "EOL")
		c.check(okT, "T10l", "TrailingWsEOL|shape", "", "after a label: blanks, optional comment, one or more line ends: "+t.String())
		if okT {
			a := g.alphabet(seq[0], map[string]bool{})
			c.check(eq(a, set(' ', '\t')), "T10l", "TrailingWsEOL|blanks", "", "trailing blanks are space/tab")
			f := g.first(seq[1], map[string]bool{})
			c.check(eq(f, set(';', '#')), "T10l", "TrailingWsEOL|comment introducers", "", "inline comment after a label starts with ';' or '#'; starts with {"+f.String()+"}")
		}
	}
	// every statement alternative is wrapped in whitespace rules
	if st := need("Statement"); st != nil {
		b := strip(st)
		if b.Kind != "choice" {
			c.fail("T10l", "Statement|alternatives", "", "Statement is not a choice")
		} else {
			for _, alt := range b.Kids {
				alt = stripLabel(alt)
				if alt.Kind != "ref" || g.Rules[alt.Name] == nil {
					c.fail("T10l", "Statement|alternative "+elemStr(alt), "", "alternative is not a rule reference")
					continue
				}
				r := g.Rules[alt.Name]
				seq := seqOf(r)
				var body []*pegNode
				for _, e := range seq {
					if e.Kind != "not" && e.Kind != "and" {
						body = append(body, e)
					}
				}
				first, last := body[0], body[len(body)-1]
				lead := isRef(first, "_") || isRef(first, "Label")
				trail := isRef(last, "_") || isRef(last, "TrailingWsEOL")
				c.check(lead, "T10l", alt.Name+"|leading whitespace", "", "statement must begin with `_` (indentation, blank lines, comments): "+r.String())
				c.check(trail, "T10l", alt.Name+"|trailing whitespace", "", "statement must end with `_` (trailing blanks, comment, line ends): "+r.String())
			}
		}
	}
	// operand separator
	if ol := need("OperandList"); ol != nil {
		ts := tailSeq(ol, "tail")
		ok := len(ts) == 4 && isRef(ts[0], "WS") && stripLabel(ts[1]).Kind == "lit" && stripLabel(ts[1]).Val == "," && isRef(ts[2], "WS") && isRef(ts[3], "Operand")
		c.check(ok, "T10l", "OperandList|separator", "", "operands are separated by WS ',' WS: "+ol.String())
	}
	// GLOBAL / EXTERN lists
	for _, name := range []string{"ExportSymStmt", "ExternSymStmt"} {
		if r := need(name); r != nil {
			ts := tailSeq(r, "tail")
			ok := len(ts) == 4 && isRef(ts[0], "_") && stripLabel(ts[1]).Kind == "lit" && stripLabel(ts[1]).Val == "," && isRef(ts[2], "_") && isRef(ts[3], "IdentFactor")
			c.check(ok, "T10l", name+"|separator", "", "symbol names are separated by _ ',' _: "+r.String())
		}
	}
	// mnemonic and operands separated by blanks only (not by line ends)
	if r := need("MnemonicStmt"); r != nil {
		seq := seqOf(r)
		ok := false
		for i := 0; i+2 < len(seq); i++ {
			if isRef(seq[i], "Opcode") && isRef(seq[i+1], "WS") && isRef(seq[i+2], "OperandList") {
				ok = true
			}
		}
		c.check(ok, "T10l", "MnemonicStmt|mnemonic WS operands", "", "mnemonic and operand list are separated by blanks: "+r.String())
	}
	// brackets padded by WS
	if r := need("MemoryAddrExp"); r != nil {
		seq := seqOf(r)
		ob, cb := -1, -1
		for i, e := range seq {
			e = stripLabel(e)
			if e.Kind == "lit" && e.Val == "[" {
				ob = i
			}
			if e.Kind == "lit" && e.Val == "]" {
				cb = i
			}
		}
		ok := ob > 0 && cb > ob && isRef(seq[ob-1], "WS") && isRef(seq[ob+1], "WS") && isRef(seq[cb-1], "WS")
		c.check(ok, "T10l", "MemoryAddrExp|brackets padded", "", "'[' and ']' accept blanks on the inside (and before '['): "+r.String())
	}
	// comments are reachable only through the whitespace rules
	wsRules := map[string]bool{"_": true, "__": true, "TrailingWsEOL": true, "Comment": true}
	for _, name := range g.Order {
		r := g.Rules[name]
		m := map[string]bool{}
		refs(r, true, m)
		if m["Comment"] && !wsRules[name] {
			c.fail("T10l", name+"|references Comment", "", "comment syntax may be referenced only from the whitespace rules; "+name+" references it")
		}
	}
	c.ok("T10l", "Comment|only via whitespace rules", "", fmt.Sprintf("%d rules scanned", len(g.Order)))
	// ';' '#' ',' inside string literals remain data
	if sf := need("StringFactor"); sf != nil {
		cl := g.refClosure("StringFactor")
		bad := []string{}
		for n := range cl {
			if wsRules[n] || n == "WS" {
				bad = append(bad, n)
			}
		}
		c.check(len(bad) == 0, "T10l", "StringFactor|no whitespace/comment rules inside", "", fmt.Sprintf("string literal body references %v", bad))
		if ec := need("EscapedChar"); ec != nil {
			a := g.alphabet(ec, map[string]bool{})
			okData := !a.has(';') && !a.has('#') && !a.has(',') && !a.has(' ') && !a.has('\'')
			c.check(okData, "T10l", "StringFactor|separators are data", "", "the characters excluded from a string body must not include ; # , space or '")
			c.check(a.has('"'), "T10l", "StringFactor|closing quote excluded", "", "the string body must stop at the closing quote")
		}
	}
	c.floor("T10l", 30)
}

// forwardIndexLoopOver: `for i := 0; i < len(<expr>.<field>); i++ {…}`; returns the index name.
func forwardIndexLoopOver(fs *ast.ForStmt, field string) (string, bool) {
	as, ok := fs.Init.(*ast.AssignStmt)
	if !ok || len(as.Lhs) != 1 || len(as.Rhs) != 1 {
		return "", false
	}
	id, ok := as.Lhs[0].(*ast.Ident)
	if !ok {
		return "", false
	}
	if bl, ok := as.Rhs[0].(*ast.BasicLit); !ok || bl.Value != "0" {
		return "", false
	}
	cond, ok := fs.Cond.(*ast.BinaryExpr)
	if !ok || cond.Op != token.LSS {
		return "", false
	}
	if ci, ok := cond.X.(*ast.Ident); !ok || ci.Name != id.Name {
		return "", false
	}
	call, ok := cond.Y.(*ast.CallExpr)
	if !ok || len(call.Args) != 1 {
		return "", false
	}
	if fn, ok := call.Fun.(*ast.Ident); !ok || fn.Name != "len" {
		return "", false
	}
	if field != "" {
		arg := ast.Unparen(call.Args[0])
		// ops := x.Operators; for i := 0; i < len(ops); i++ — a local alias of the field
		if id, ok := arg.(*ast.Ident); ok && curSelAliases != nil {
			if al, ok := curSelAliases[id.Name]; ok {
				arg = al
			}
		}
		sel, ok := arg.(*ast.SelectorExpr)
		if !ok || sel.Sel.Name != field {
			return "", false
		}
	}
	inc, ok := fs.Post.(*ast.IncDecStmt)
	if !ok || inc.Tok != token.INC {
		return "", false
	}
	if ii, ok := inc.X.(*ast.Ident); !ok || ii.Name != id.Name {
		return "", false
	}
	return id.Name, true
}

// opConjuncts: the operator strings K for which `X == "K"` is the condition or one of its
// top-level && conjuncts.
func opConjuncts(info *types.Info, cond ast.Expr) []string {
	var out []string
	var walk func(e ast.Expr)
	walk = func(e ast.Expr) {
		be, ok := ast.Unparen(e).(*ast.BinaryExpr)
		if !ok {
			return
		}
		switch be.Op {
		case token.LAND:
			walk(be.X)
			walk(be.Y)
		case token.EQL:
			for _, x := range []ast.Expr{be.X, be.Y} {
				if s, ok := constStr(info, x); ok {
					if _, isOp := opTok[s]; isOp {
						out = append(out, s)
					}
				}
			}
		}
	}
	walk(cond)
	return out
}

// curSelAliases: locals of the function under analysis that are single-assignment aliases of a
// field (`ops := x.Operators`); set with selectorAliases before walking a function.
var curSelAliases map[string]*ast.SelectorExpr

func selectorAliases(fd *ast.FuncDecl) map[string]*ast.SelectorExpr {
	out := map[string]*ast.SelectorExpr{}
	count := map[string]int{}
	ast.Inspect(fd.Body, func(n ast.Node) bool {
		as, ok := n.(*ast.AssignStmt)
		if !ok || len(as.Lhs) != len(as.Rhs) {
			return true
		}
		for i, l := range as.Lhs {
			id, ok := l.(*ast.Ident)
			if !ok {
				continue
			}
			count[id.Name]++
			if sel, ok := ast.Unparen(as.Rhs[i]).(*ast.SelectorExpr); ok && as.Tok == token.DEFINE {
				out[id.Name] = sel
			}
		}
		return true
	})
	for k := range out {
		if count[k] != 1 {
			delete(out, k)
		}
	}
	return out
}
