package main

// Second strengthening round (seeded batch 2): T10a, D13, S15, Y16, setter paths, I1s.

import (
	"fmt"
	"go/ast"
	"go/constant"
	"go/token"
	"go/types"
	"strings"

	"golang.org/x/tools/go/ssa"
)

// ---------------------------------------------------------------------------------------
// T10a: actions of rules that also match layout do not use the raw matched text
// ---------------------------------------------------------------------------------------

func ruleT10a(c *Ctx) {
	c.doc("T10a", "a semantic action of a grammar rule whose match includes blanks, comments or line ends builds its value from the labelled parts, never from the raw matched text (c.text), so layout cannot leak into names or values")
	g := mainGrammar(c)
	if len(g.Errs) > 0 {
		c.fail("T10a", "grammar-extraction", "", strings.Join(g.Errs, "; "))
		return
	}
	layout := map[string]bool{"_": true, "__": true, "WS": true, "TrailingWsEOL": true, "Comment": true, "EOL": true, "END": true}
	n := 0
	for _, name := range g.Order {
		r := g.Rules[name]
		var acts []*pegNode
		var walk func(x *pegNode)
		walk = func(x *pegNode) {
			if x.Kind == "action" {
				acts = append(acts, x)
			}
			for _, k := range x.Kids {
				walk(k)
			}
		}
		walk(r)
		for _, a := range acts {
			m := map[string]bool{}
			refs(a, false, m)
			hasLayout := false
			for k := range m {
				if layout[k] {
					hasLayout = true
				}
			}
			if layout[name] {
				continue // the layout rules themselves
			}
			on := "on" + strings.TrimPrefix(a.Name, "callon")
			fd, _ := c.L.FuncDecl(relPkg(g.Pkg), "(*current)."+on)
			if fd == nil {
				c.anchorMissing("T10a", "action "+on)
				continue
			}
			usesText := false
			ast.Inspect(fd.Body, func(x ast.Node) bool {
				if se, ok := x.(*ast.SelectorExpr); ok && se.Sel.Name == "text" {
					if id, ok := se.X.(*ast.Ident); ok && id.Name == "c" {
						usesText = true
					}
				}
				return true
			})
			n++
			if !hasLayout {
				c.ok("T10a", name+"|"+on, c.L.Pos(fd.Pos()), "match contains no layout")
				continue
			}
			c.check(!usesText, "T10a", name+"|"+on, c.L.Pos(fd.Pos()), fmt.Sprintf("rule %s matches blanks/comments/line ends and its action reads c.text: trailing layout (e.g. a '#' comment) becomes part of the value", name))
		}
	}
	c.floor("T10a", 20)
}

// ---------------------------------------------------------------------------------------
// D13: integer division by an unchecked value
// ---------------------------------------------------------------------------------------

func ruleD13(c *Ctx) {
	c.doc("D13", "every integer division or remainder whose divisor is not a non-zero constant is preceded, on all paths, by a test of that very divisor value against zero (a test on a wider value before a narrowing conversion does not count)")
	reach := c.reach()
	n := 0
	for _, f := range c.L.RepoFuncs() {
		if _, ok := reach[f]; !ok || c.isGeneratedFn(f) {
			continue
		}
		per := 0
		for _, b := range f.Blocks {
			for _, in := range b.Instrs {
				bo, ok := in.(*ssa.BinOp)
				if !ok || (bo.Op != token.QUO && bo.Op != token.REM) || !isIntType(bo.Type()) {
					continue
				}
				if k, ok := bo.Y.(*ssa.Const); ok {
					if isIntConst(k) && k.Int64() != 0 {
						continue
					}
				}
				n++
				per++
				key := fmt.Sprintf("%s|division#%d", shortName(f), per)
				c.check(zeroTested(f, bo.Y, b), "D13", key, c.L.Pos(instrPos(in)), fmt.Sprintf("%s divides by %s without a dominating zero test on that value: a zero divisor is a run-time panic", shortName(f), valName(bo.Y)))
			}
		}
	}
	c.analysed["D13_divisions"] = n
	c.floor("D13", 4)
}

// zeroTested: a comparison of exactly v with a constant that excludes zero on the path to blk.
func zeroTested(f *ssa.Function, v ssa.Value, blk *ssa.BasicBlock) bool {
	for _, b := range f.Blocks {
		iff, ok := b.Instrs[len(b.Instrs)-1].(*ssa.If)
		if !ok {
			continue
		}
		bo, ok := iff.Cond.(*ssa.BinOp)
		if !ok {
			continue
		}
		k, isK := bo.Y.(*ssa.Const)
		if !isK || !isIntConst(k) || bo.X != v {
			continue
		}
		kv := k.Int64()
		// which successor excludes v == 0 ?
		var safe *ssa.BasicBlock
		switch bo.Op {
		case token.EQL:
			if kv == 0 {
				safe = b.Succs[1]
			}
		case token.NEQ:
			if kv == 0 {
				safe = b.Succs[0]
			}
		case token.LEQ: // v <= k (k >= 0): false branch has v > k >= 0
			if kv >= 0 {
				safe = b.Succs[1]
			}
		case token.LSS: // v < k (k >= 1): false branch has v >= k >= 1
			if kv >= 1 {
				safe = b.Succs[1]
			}
		case token.GTR: // v > k (k >= 0)
			if kv >= 0 {
				safe = b.Succs[0]
			}
		case token.GEQ:
			if kv >= 1 {
				safe = b.Succs[0]
			}
		}
		if safe != nil && safe.Dominates(blk) && (len(safe.Preds) == 1 || safe != blk) {
			return true
		}
	}
	// short-circuit `v <= 0 || …` lowers to a chain: handled above through the first test's false edge;
	// additionally accept: every predecessor chain passes a block whose If on v excludes zero
	return false
}

// ---------------------------------------------------------------------------------------
// S15: the COFF string table is write-only while it is built
// ---------------------------------------------------------------------------------------

func ruleS15(c *Ctx) {
	c.doc("S15", "long symbol names get their string-table offset from the exact-name map or from the current end of the table; the table's bytes are never searched (a substring match would alias distinct names)")
	n := 0
	for _, fn := range []string{"(*CoffFormat).convertNameToBytes", "(*CoffFormat).generateSymbolEntries"} {
		f := c.L.SSAFunc("internal/filefmt", fn)
		if f == nil {
			c.anchorMissing("S15", "filefmt."+fn)
			continue
		}
		callsIn(f, func(ci ssa.CallInstruction) {
			name := calleeName(ci.Common())
			isSearch := false
			for _, s := range []string{"bytes.Index", "bytes.Contains", "bytes.LastIndex", "bytes.HasPrefix", "bytes.HasSuffix", "bytes.Equal", "strings.Index", "strings.Contains", "strings.HasPrefix", "strings.HasSuffix", "strings.EqualFold"} {
				if strings.HasPrefix(name, s) {
					isSearch = true
				}
			}
			if !isSearch {
				return
			}
			n++
			c.fail("S15", fmt.Sprintf("%s|%s", fn, name), c.L.Pos(instrPos(ci)), fmt.Sprintf("%s searches symbol-name bytes with %s: names that are prefixes or substrings of one another would share an entry", fn, name))
		})
		// offsets: map lookup with the name itself as key
		if strings.HasSuffix(fn, "convertNameToBytes") {
			exact := false
			for _, b := range f.Blocks {
				for _, in := range b.Instrs {
					if lk, ok := in.(*ssa.Lookup); ok && lk.CommaOk {
						if _, isParam := lk.Index.(*ssa.Parameter); isParam {
							exact = true
						}
					}
				}
			}
			c.check(exact, "S15", "convertNameToBytes|exact-name map", c.L.Pos(f.Pos()), "the de-duplication map must be consulted with the name itself")
		}
	}
	c.ok("S15", "search calls", "", fmt.Sprintf("%d byte/substring searches in the symbol writer", n))
	c.floor("S15", 2)
}

// ---------------------------------------------------------------------------------------
// Y16: presence of a symbol is never inferred from its value
// ---------------------------------------------------------------------------------------

func ruleY16(c *Ctx) {
	c.doc("Y16", "whether a name is a known label is decided by the map's presence flag, never by comparing the looked-up address with zero (a label may legitimately be at address 0, e.g. the first label without ORG)")
	n := 0
	for _, f := range c.L.RepoFuncs() {
		if c.isGeneratedFn(f) {
			continue
		}
		per := 0
		for _, b := range f.Blocks {
			for _, in := range b.Instrs {
				lk, ok := in.(*ssa.Lookup)
				if !ok || !isFieldLoad(lk.X, "SymTable") {
					continue
				}
				n++
				per++
				var val ssa.Value = lk
				if lk.CommaOk && lk.Referrers() != nil {
					val = nil
					for _, r := range *lk.Referrers() {
						if ex, ok := r.(*ssa.Extract); ok && ex.Index == 0 {
							val = ex
						}
					}
				}
				bad := false
				if val != nil && val.Referrers() != nil {
					for _, r := range *val.Referrers() {
						if bo, ok := r.(*ssa.BinOp); ok && (bo.Op == token.EQL || bo.Op == token.NEQ || bo.Op == token.GTR) {
							if k, ok := bo.Y.(*ssa.Const); ok && isIntConst(k) && k.Int64() == 0 {
								bad = true
							}
						}
					}
				}
				key := fmt.Sprintf("%s|SymTable lookup#%d", shortName(f), per)
				if !lk.CommaOk && !bad {
					// plain lookup whose value is used as-is: a missing key silently reads as 0
					c.fail("Y16", key, c.L.Pos(instrPos(in)), "the symbol table is read without the presence flag: an unknown name silently yields address 0")
					continue
				}
				c.check(!bad, "Y16", key, c.L.Pos(instrPos(in)), "a looked-up address is compared with 0 to decide whether the symbol exists: a label at address 0 is treated as undefined")
			}
		}
	}
	c.floor("Y16", 6)
}

// ---------------------------------------------------------------------------------------
// client setters store their argument on every path
// ---------------------------------------------------------------------------------------

func ruleSetters(c *Ctx) {
	c.doc("W17", "SetBitMode / SetDollarPosition / SetSymbolTable store their argument into the code-generation context unconditionally")
	for _, s := range []struct{ m, fld string }{{"SetBitMode", "BitMode"}, {"SetDollarPosition", "DollarPosition"}, {"SetSymbolTable", "SymTable"}} {
		f := c.L.SSAFunc("internal/ocode_client", "(*ocodeClient)."+s.m)
		if f == nil {
			c.anchorMissing("W17", "ocode_client.(*ocodeClient)."+s.m)
			continue
		}
		sts := storesToField(f, "internal/codegen", "CodeGenContext", s.fld)
		ok := len(sts) >= 1
		for _, b := range f.Blocks {
			if _, isRet := b.Instrs[len(b.Instrs)-1].(*ssa.Return); !isRet {
				continue
			}
			dom := false
			for _, st := range sts {
				v := st.Val
				if cv, isCv := v.(*ssa.Convert); isCv {
					v = cv.X
				}
				if _, isParam := v.(*ssa.Parameter); isParam && st.Block().Dominates(b) {
					dom = true
				}
			}
			if !dom {
				ok = false
			}
		}
		c.check(ok, "W17", s.m+"|stores its argument on every path", c.L.Pos(f.Pos()), s.m+" can return without having stored its argument into ctx."+s.fld+" (e.g. an `unchanged` shortcut against a stale copy)")
	}
	c.floor("W17", 3)
}

// ---------------------------------------------------------------------------------------
// I1s: range predicates called with constant widths
// ---------------------------------------------------------------------------------------

// foldConst evaluates an integer SSA value under a binding of parameters to constants.
func foldConst(v ssa.Value, env map[ssa.Value]int64, depth int) (int64, bool) {
	if depth > 24 {
		return 0, false
	}
	if k, ok := env[v]; ok {
		return k, true
	}
	switch x := v.(type) {
	case *ssa.Const:
		if isIntConst(x) {
			return x.Int64(), true
		}
	case *ssa.Convert:
		if isIntType(x.Type()) {
			return foldConst(x.X, env, depth+1)
		}
	case *ssa.UnOp:
		if x.Op == token.SUB {
			a, ok := foldConst(x.X, env, depth+1)
			return -a, ok
		}
	case *ssa.BinOp:
		a, ok1 := foldConst(x.X, env, depth+1)
		b, ok2 := foldConst(x.Y, env, depth+1)
		if !ok1 || !ok2 {
			return 0, false
		}
		switch x.Op {
		case token.ADD:
			return a + b, true
		case token.SUB:
			return a - b, true
		case token.MUL:
			return a * b, true
		case token.SHL:
			if b >= 0 && b < 63 {
				return a << uint(b), true
			}
		case token.SHR:
			if b >= 0 && b < 63 {
				return a >> uint(b), true
			}
		case token.QUO:
			if b != 0 {
				return a / b, true
			}
		}
	}
	return 0, false
}

func ruleI1s(c *Ctx) {
	c.doc("I1s", "a range predicate that is given the width as a constant argument accepts exactly the canonical signed range of that width when the call is specialised (constant folding through the helper)")
	n := 0
	for _, f := range c.L.RepoFuncs() {
		if c.isGeneratedFn(f) {
			continue
		}
		pk := pkgRel(f)
		if pk == "test" || strings.HasPrefix(pk, "cmd/") {
			continue
		}
		per := 0
		callsIn(f, func(ci ssa.CallInstruction) {
			g := ci.Common().StaticCallee()
			if g == nil || !inRepo(g) || g.Blocks == nil || len(g.Params) < 2 || g.Signature.Results().Len() != 1 {
				return
			}
			if b, ok := g.Signature.Results().At(0).Type().Underlying().(*types.Basic); !ok || b.Kind() != types.Bool {
				return
			}
			// exactly one non-constant integer argument (the tested value), others constant
			env := map[ssa.Value]int64{}
			var tested *ssa.Parameter
			args := ci.Common().Args
			for i, p := range g.Params {
				if !isIntType(p.Type()) {
					return
				}
				if k, ok := args[i].(*ssa.Const); ok && isIntConst(k) {
					env[p] = k.Int64()
				} else if tested == nil {
					tested = p
				} else {
					return
				}
			}
			if tested == nil || len(env) == 0 {
				return
			}
			lo, hi, ok := predicateInterval(g, tested, env)
			if !ok {
				return
			}
			if !nearBoundary(lo) && !nearBoundary(hi) {
				return
			}
			n++
			per++
			key := fmt.Sprintf("%s|%s#%d", shortName(f), g.Name(), per)
			name, canon := canonicalPairs[[2]int64{lo, hi}]
			if canon {
				c.ok("I1s", key, c.L.Pos(instrPos(ci)), fmt.Sprintf("[%d,%d] %s", lo, hi, name))
			} else {
				c.fail("I1s", key, c.L.Pos(instrPos(ci)), fmt.Sprintf("%s with these constant arguments accepts [%d,%d], which is next to a width boundary but not a canonical range: the boundary value gets the wrong width", g.Name(), lo, hi))
			}
		})
	}
	c.ok("I1s", "specialised predicate calls", "", fmt.Sprintf("%d", n))
}

// predicateInterval: the hull of values of `tested` for which g returns true, when every
// guard on the true-returning paths is a comparison of `tested` with a foldable bound.
func predicateInterval(g *ssa.Function, tested *ssa.Parameter, env map[ssa.Value]int64) (lo, hi int64, ok bool) {
	paths, pok := enumPaths(g, 64)
	if !pok {
		return 0, 0, false
	}
	found := false
	var hlo, hhi *int64
	for i := range paths {
		p := &paths[i]
		// returned value: constant true, or a comparison itself (return a && b lowers to phi of consts / cmp)
		res := p.resolve(p.Ret.Results[0])
		var plo, phi2 *int64
		upd := func(l, h *int64) {
			if l != nil && (plo == nil || *l > *plo) {
				plo = l
			}
			if h != nil && (phi2 == nil || *h < *phi2) {
				phi2 = h
			}
		}
		feasibleTrue := false
		switch r := res.(type) {
		case *ssa.Const:
			if r.Value != nil && r.Value.Kind() == constant.Bool && constant.BoolVal(r.Value) {
				feasibleTrue = true
			}
		case *ssa.BinOp:
			if l, h, ok := foldedBound(r, true, tested, env); ok {
				upd(l, h)
				feasibleTrue = true
			} else {
				return 0, 0, false
			}
		default:
			return 0, 0, false
		}
		if !feasibleTrue {
			continue
		}
		good := true
		for _, gd := range p.Guards {
			bo, isBo := gd.Cond.(*ssa.BinOp)
			if !isBo {
				good = false
				break
			}
			l, h, ok := foldedBound(bo, gd.Taken, tested, env)
			if !ok {
				good = false
				break
			}
			upd(l, h)
		}
		if !good {
			return 0, 0, false
		}
		if plo == nil || phi2 == nil {
			return 0, 0, false
		}
		found = true
		if hlo == nil || *plo < *hlo {
			hlo = plo
		}
		if hhi == nil || *phi2 > *hhi {
			hhi = phi2
		}
	}
	if !found {
		return 0, 0, false
	}
	return *hlo, *hhi, true
}

// foldedBound: `tested op <foldable>` (or mirrored) as a bound on tested.
func foldedBound(bo *ssa.BinOp, taken bool, tested *ssa.Parameter, env map[ssa.Value]int64) (lo, hi *int64, ok bool) {
	op := bo.Op
	var other ssa.Value
	switch {
	case bo.X == tested:
		other = bo.Y
	case bo.Y == tested:
		other = bo.X
		switch op {
		case token.LSS:
			op = token.GTR
		case token.LEQ:
			op = token.GEQ
		case token.GTR:
			op = token.LSS
		case token.GEQ:
			op = token.LEQ
		}
	default:
		return nil, nil, false
	}
	k, kok := foldConst(other, env, 0)
	if !kok {
		return nil, nil, false
	}
	if !taken {
		switch op {
		case token.LSS:
			op = token.GEQ
		case token.LEQ:
			op = token.GTR
		case token.GTR:
			op = token.LEQ
		case token.GEQ:
			op = token.LSS
		default:
			return nil, nil, false
		}
	}
	p := func(v int64) *int64 { return &v }
	switch op {
	case token.LSS:
		return nil, p(k - 1), true
	case token.LEQ:
		return nil, p(k), true
	case token.GTR:
		return p(k + 1), nil, true
	case token.GEQ:
		return p(k), nil, true
	}
	return nil, nil, false
}

// ---------------------------------------------------------------------------------------
// W3: who may move the location counter
// ---------------------------------------------------------------------------------------

func ruleW3(c *Ctx) {
	c.doc("W3", "the location counter is written only by the registered statement handlers (and the common bodies they delegate to): no directive, label or helper outside them moves it")
	handlers, hm := pass1Handlers(c)
	if handlers == nil || len(hm.Errs) > 0 {
		c.fail("W3", "handler-map-undecided", "", fmt.Sprint(hm.Errs))
		return
	}
	n := 0
	for _, f := range c.L.RepoFuncs() {
		if c.isGeneratedFn(f) {
			continue
		}
		sts := storesToField(f, "internal/pass1", "Pass1", "LOC")
		if len(sts) == 0 {
			continue
		}
		n++
		key := shortName(f) + "|writes LOC"
		pos := c.L.Pos(instrPos(sts[0]))
		switch {
		case handlers[f] || (f.Parent() != nil && handlers[outermost(f)]):
			c.ok("W3", key, pos, "statement handler")
		case isFreshAlloc(sts[0].Addr.(*ssa.FieldAddr).X):
			c.ok("W3", key, pos, "initialisation of a fresh Pass1")
		default:
			c.fail("W3", key, pos, shortName(f)+" moves the location counter but is not a statement handler: labels after that point no longer equal origin + bytes emitted")
		}
	}
	c.floor("W3", 15)
	_ = n
}
