package main

// Abstract interpretation of pass1's handler registration (func init in internal/pass1):
// recovers the final mnemonic -> handler map without running it. Three idioms are
// understood (they are the only ones the repository uses); any other statement that
// touches the map makes the result undecided, which the calling rule reports.

import (
	"fmt"
	"go/ast"
	"go/token"
	"go/types"

	"golang.org/x/tools/go/packages"
)

type handlerEntry struct {
	Mnemonic string
	Target   *types.Func // the named function that does the work (processMOV, processNoParam …)
	Closure  bool        // registered through a closure capturing the mnemonic
	Pos      token.Pos
}

type handlerMap struct {
	pkg     *packages.Package
	depth   int
	bound   map[types.Object]ast.Expr // parameters of the registration helper being interpreted
	Var     *types.Var
	Entries map[string]*handlerEntry
	Order   []string
	Errs    []string
}

func (h *handlerMap) errf(f string, a ...any) { h.Errs = append(h.Errs, fmt.Sprintf(f, a...)) }

func (h *handlerMap) set(m string, e *handlerEntry) {
	if _, ok := h.Entries[m]; !ok {
		h.Order = append(h.Order, m)
	}
	e.Mnemonic = m
	h.Entries[m] = e
}

// isHandlerMapType: map[string]func(*Pass1, []ast.Exp)
func isHandlerMapType(t types.Type) bool {
	m, ok := t.Underlying().(*types.Map)
	if !ok || !isStringType(m.Key()) {
		return false
	}
	sig, ok := m.Elem().Underlying().(*types.Signature)
	if !ok || sig.Params().Len() != 2 || sig.Results().Len() != 0 {
		return false
	}
	return namedTypeIs(sig.Params().At(0).Type(), "internal/pass1", "Pass1")
}

func interpretHandlers(p *packages.Package) *handlerMap {
	h := &handlerMap{Entries: map[string]*handlerEntry{}, pkg: p}
	info := p.TypesInfo
	// the map variable
	for _, name := range p.Types.Scope().Names() {
		if v, ok := p.Types.Scope().Lookup(name).(*types.Var); ok && isHandlerMapType(v.Type()) {
			if h.Var != nil {
				h.errf("more than one handler map variable (%s, %s)", h.Var.Name(), v.Name())
			}
			h.Var = v
		}
	}
	if h.Var == nil {
		h.errf("no package-level map[string]func(*Pass1, []ast.Exp) in %s", p.PkgPath)
		return h
	}
	isMap := func(e ast.Expr) bool {
		id, ok := ast.Unparen(e).(*ast.Ident)
		return ok && info.Uses[id] == h.Var
	}
	for _, f := range p.Syntax {
		for _, d := range f.Decls {
			fd, ok := d.(*ast.FuncDecl)
			if !ok || fd.Body == nil {
				continue
			}
			if fd.Name.Name != "init" || fd.Recv != nil {
				// writes outside init are E1's business; reads are fine
				continue
			}
			locals := map[types.Object]ast.Expr{} // single-assignment locals
			for _, st := range fd.Body.List {
				h.stmt(info, st, locals, isMap)
			}
		}
	}
	return h
}

func (h *handlerMap) stmt(info *types.Info, st ast.Stmt, locals map[types.Object]ast.Expr, isMap func(ast.Expr) bool) {
	switch s := st.(type) {
	case *ast.AssignStmt:
		if len(s.Lhs) == 1 && len(s.Rhs) == 1 {
			// M[K] = F
			if ix, ok := s.Lhs[0].(*ast.IndexExpr); ok && isMap(ix.X) {
				k, ok := constStr(info, ix.Index)
				if !ok {
					h.errf("non-constant key in handler registration")
					return
				}
				e := h.target(info, s.Rhs[0], nil)
				if e == nil {
					h.errf("handler for %q is not a function name or a forwarding closure", k)
					return
				}
				e.Pos = s.Pos()
				h.set(k, e)
				return
			}
			// M = lo.Assign(M, X)
			if isMap(s.Lhs[0]) {
				call, ok := s.Rhs[0].(*ast.CallExpr)
				if ok && isCallTo(info, call, "github.com/samber/lo", "", "Assign") && len(call.Args) == 2 && isMap(call.Args[0]) {
					h.sliceToMap(info, call.Args[1], locals, s.Pos())
					return
				}
				h.errf("unmodelled assignment to the handler map")
				return
			}
			// local := expr
			if id, ok := s.Lhs[0].(*ast.Ident); ok && s.Tok == token.DEFINE {
				if obj := info.Defs[id]; obj != nil {
					locals[obj] = s.Rhs[0]
				}
				return
			}
		}
		if mentions(info, s, h.Var) {
			h.errf("unmodelled statement touching the handler map")
		}
	case *ast.RangeStmt:
		// for _, op := range S { localOp := op; M[localOp] = func(...){ G(env, operands, localOp) } }
		if !mentions(info, s, h.Var) {
			return
		}
		vals := h.stringList(info, s.X, locals)
		if vals == nil {
			h.errf("range over something that is not a constant string list while registering handlers")
			return
		}
		var loopVar types.Object
		if id, ok := s.Value.(*ast.Ident); ok {
			loopVar = info.Defs[id]
		}
		alias := map[types.Object]bool{loopVar: true}
		for _, bs := range s.Body.List {
			as, ok := bs.(*ast.AssignStmt)
			if !ok || len(as.Lhs) != 1 || len(as.Rhs) != 1 {
				h.errf("unmodelled statement in handler registration loop")
				continue
			}
			if id, ok := as.Lhs[0].(*ast.Ident); ok && as.Tok == token.DEFINE {
				if r, ok := as.Rhs[0].(*ast.Ident); ok && alias[info.Uses[r]] {
					alias[info.Defs[id]] = true
					continue
				}
			}
			if ix, ok := as.Lhs[0].(*ast.IndexExpr); ok && isMap(ix.X) {
				kid, ok := ix.Index.(*ast.Ident)
				if !ok || !alias[info.Uses[kid]] {
					h.errf("loop registration key is not the loop variable")
					continue
				}
				h.bound = locals
				e := h.target(info, as.Rhs[0], alias)
				h.bound = nil
				if e == nil {
					h.errf("loop registration value is not a forwarding closure")
					continue
				}
				for _, v := range vals {
					c := *e
					c.Pos = as.Pos()
					h.set(v, &c)
				}
				continue
			}
			h.errf("unmodelled statement in handler registration loop")
		}
	case *ast.ExprStmt:
		// registerX(list, handler): a same-package helper whose body registers handlers is
		// interpreted with its parameters bound to the arguments
		if call, ok := s.X.(*ast.CallExpr); ok {
			if fn, ok := calleeOf(info, call).(*types.Func); ok && fn.Pkg() == h.pkg.Types {
				if hd := funcDeclOf(h.pkg, fn); hd != nil && hd.Body != nil && hd.Recv == nil && mentions(info, hd.Body, h.Var) {
					if h.depth >= 3 || hd.Type.Params == nil {
						h.errf("registration helper %s nested too deep", fn.Name())
						return
					}
					inner := map[types.Object]ast.Expr{}
					i := 0
					for _, fld := range hd.Type.Params.List {
						for _, nm := range fld.Names {
							if i < len(call.Args) {
								a := call.Args[i]
								if id, ok := a.(*ast.Ident); ok {
									if def, ok := locals[info.Uses[id]]; ok {
										a = def
									}
								}
								inner[info.Defs[nm]] = a
							}
							i++
						}
					}
					if i != len(call.Args) {
						h.errf("registration helper %s called with a variadic or mismatched argument list", fn.Name())
						return
					}
					h.depth++
					for _, bs := range hd.Body.List {
						h.stmt(info, bs, inner, isMap)
					}
					h.depth--
					return
				}
			}
		}
		if mentions(info, st, h.Var) {
			h.errf("unmodelled statement touching the handler map")
		}
	default:
		if mentions(info, st, h.Var) {
			h.errf("unmodelled statement touching the handler map")
		}
	}
}

func funcDeclOf(p *packages.Package, fn *types.Func) *ast.FuncDecl {
	for _, f := range p.Syntax {
		for _, d := range f.Decls {
			if fd, ok := d.(*ast.FuncDecl); ok && p.TypesInfo.Defs[fd.Name] == fn {
				return fd
			}
		}
	}
	return nil
}

// sliceToMap handles X where X := lo.SliceToMap(S, func(op string) (string, T) { localOp := op; return localOp, closure })
func (h *handlerMap) sliceToMap(info *types.Info, x ast.Expr, locals map[types.Object]ast.Expr, pos token.Pos) {
	if id, ok := x.(*ast.Ident); ok {
		if def, ok := locals[info.Uses[id]]; ok {
			x = def
		}
	}
	call, ok := x.(*ast.CallExpr)
	if !ok || !isCallTo(info, call, "github.com/samber/lo", "", "SliceToMap") || len(call.Args) != 2 {
		h.errf("second argument of lo.Assign is not lo.SliceToMap(list, fn)")
		return
	}
	vals := h.stringList(info, call.Args[0], locals)
	fl, ok := call.Args[1].(*ast.FuncLit)
	if vals == nil || !ok || len(fl.Type.Params.List) != 1 || len(fl.Type.Params.List[0].Names) != 1 {
		h.errf("lo.SliceToMap arguments not of the modelled shape")
		return
	}
	alias := map[types.Object]bool{info.Defs[fl.Type.Params.List[0].Names[0]]: true}
	for _, st := range fl.Body.List {
		switch s := st.(type) {
		case *ast.AssignStmt:
			if len(s.Lhs) == 1 && len(s.Rhs) == 1 && s.Tok == token.DEFINE {
				if id, ok := s.Lhs[0].(*ast.Ident); ok {
					if r, ok := s.Rhs[0].(*ast.Ident); ok && alias[info.Uses[r]] {
						alias[info.Defs[id]] = true
						continue
					}
				}
			}
			h.errf("unmodelled statement in SliceToMap callback")
		case *ast.ReturnStmt:
			if len(s.Results) != 2 {
				h.errf("SliceToMap callback return arity")
				continue
			}
			kid, ok := s.Results[0].(*ast.Ident)
			if !ok || !alias[info.Uses[kid]] {
				h.errf("SliceToMap callback key is not the element")
				continue
			}
			e := h.target(info, s.Results[1], alias)
			if e == nil {
				h.errf("SliceToMap callback value is not a forwarding closure")
				continue
			}
			for _, v := range vals {
				c := *e
				c.Pos = pos
				h.set(v, &c)
			}
		default:
			h.errf("unmodelled statement in SliceToMap callback")
		}
	}
}

// target resolves a handler expression: a function name, or a closure whose body is a
// single call G(env, operands[, mnemonic]).
func (h *handlerMap) target(info *types.Info, e ast.Expr, mnemonicVars map[types.Object]bool) *handlerEntry {
	switch x := ast.Unparen(e).(type) {
	case *ast.Ident:
		if fn, ok := info.Uses[x].(*types.Func); ok {
			return &handlerEntry{Target: fn}
		}
	case *ast.FuncLit:
		if len(x.Body.List) != 1 {
			return nil
		}
		es, ok := x.Body.List[0].(*ast.ExprStmt)
		if !ok {
			return nil
		}
		call, ok := es.X.(*ast.CallExpr)
		if !ok {
			return nil
		}
		fn, ok := calleeOf(info, call).(*types.Func)
		if !ok {
			// a function-typed parameter of the registration helper, bound to a function name
			if id, isId := ast.Unparen(call.Fun).(*ast.Ident); isId {
				if def, has := h.bound[info.Uses[id]]; has {
					if did, isId := ast.Unparen(def).(*ast.Ident); isId {
						fn, ok = info.Uses[did].(*types.Func)
					}
				}
			}
		}
		if !ok {
			return nil
		}
		// every argument is one of the closure's own parameters, or the captured mnemonic variable
		// itself (in whatever order the target takes them)
		params := map[types.Object]bool{}
		if x.Type.Params != nil {
			for _, fld := range x.Type.Params.List {
				for _, nm := range fld.Names {
					params[info.Defs[nm]] = true
				}
			}
		}
		for _, a := range call.Args {
			id, ok := a.(*ast.Ident)
			if !ok || !(mnemonicVars[info.Uses[id]] || params[info.Uses[id]]) {
				return nil
			}
		}
		return &handlerEntry{Target: fn, Closure: true}
	}
	return nil
}

func (h *handlerMap) stringList(info *types.Info, e ast.Expr, locals map[types.Object]ast.Expr) []string {
	if id, ok := e.(*ast.Ident); ok {
		if def, ok := locals[info.Uses[id]]; ok {
			e = def
		}
	}
	cl, ok := e.(*ast.CompositeLit)
	if !ok {
		return nil
	}
	var out []string
	for _, el := range cl.Elts {
		s, ok := constStr(info, el)
		if !ok {
			return nil
		}
		out = append(out, s)
	}
	return out
}

func mentions(info *types.Info, n ast.Node, v *types.Var) bool {
	found := false
	ast.Inspect(n, func(x ast.Node) bool {
		if id, ok := x.(*ast.Ident); ok && info.Uses[id] == v {
			found = true
		}
		return !found
	})
	return found
}
