package main

// S-analysis: abstract interpretation of []byte construction on go/ssa. A byte slice value
// is described as a sequence of elements — constant byte, byte field of an integer value
// (byte(V >> 8k)), small expression (const + value), opaque run — along one path through the
// function. Used for emission-shape rules (S1, S2, I2, T3/T4 byte constants, P7).

import (
	"fmt"
	"go/constant"
	"go/token"
	"go/types"
	"strings"

	"golang.org/x/tools/go/ssa"
)

type bKind int

const (
	bConst  bKind = iota
	bField        // byte(V >> Shift)
	bExpr         // byte-valued expression that is not a plain field (e.g. 0x50+reg, opcode+0x10)
	bOpaque       // N bytes (N == -1: unknown count) produced elsewhere
)

type bElem struct {
	Kind  bKind
	C     byte
	V     ssa.Value
	Shift int
	N     int
	Desc  string
	BE    bool      // field produced by a big-endian writer
	L, R  ssa.Value // bExpr: resolved operands
	Op    token.Token
	Fn    *ssa.Function // bOpaque produced by a static call: the callee
}

type shape []bElem

func (s shape) String() string {
	var p []string
	for _, e := range s {
		switch e.Kind {
		case bConst:
			p = append(p, fmt.Sprintf("%02X", e.C))
		case bField:
			p = append(p, fmt.Sprintf("byte(%s>>%d)", valName(e.V), e.Shift))
		case bExpr:
			p = append(p, "expr("+e.Desc+")")
		case bOpaque:
			if e.N >= 0 {
				p = append(p, fmt.Sprintf("%s[%d]", e.Desc, e.N))
			} else {
				p = append(p, e.Desc+"[…]")
			}
		}
	}
	return strings.Join(p, " ")
}

// length returns the number of bytes, or -1 when some run has unknown length.
func (s shape) length() int {
	n := 0
	for _, e := range s {
		if e.Kind == bOpaque {
			if e.N < 0 {
				return -1
			}
			n += e.N
		} else {
			n++
		}
	}
	return n
}

func valName(v ssa.Value) string {
	if v == nil {
		return "?"
	}
	if k, ok := v.(*ssa.Const); ok {
		return k.String()
	}
	return v.Name()
}

// ---- paths ----

type guard struct {
	Cond  ssa.Value
	Taken bool
}

type pathInfo struct {
	Blocks []*ssa.BasicBlock
	Guards []guard
	Ret    *ssa.Return
	// Subst binds the parameters of helpers inlined into this path to the caller's arguments;
	// RetVal, when set, is the slice value the path returns (the helper's result spliced in).
	Subst map[ssa.Value]ssa.Value
}

// enumPaths enumerates the acyclic entry→return paths of f (loops are entered at most once
// per block). ok=false when more than limit paths exist.
func enumPaths(f *ssa.Function, limit int) (paths []pathInfo, ok bool) {
	ok = true
	var blocks []*ssa.BasicBlock
	var guards []guard
	on := map[*ssa.BasicBlock]bool{}
	var dfs func(b *ssa.BasicBlock)
	dfs = func(b *ssa.BasicBlock) {
		if !ok || on[b] {
			return
		}
		on[b] = true
		blocks = append(blocks, b)
		defer func() { on[b] = false; blocks = blocks[:len(blocks)-1] }()
		last := b.Instrs[len(b.Instrs)-1]
		switch t := last.(type) {
		case *ssa.Return:
			if len(paths) >= limit {
				ok = false
				return
			}
			paths = append(paths, pathInfo{Blocks: append([]*ssa.BasicBlock{}, blocks...), Guards: append([]guard{}, guards...), Ret: t})
		case *ssa.If:
			guards = append(guards, guard{t.Cond, true})
			dfs(b.Succs[0])
			guards[len(guards)-1].Taken = false
			dfs(b.Succs[1])
			guards = guards[:len(guards)-1]
		case *ssa.Jump:
			dfs(b.Succs[0])
		}
	}
	if len(f.Blocks) > 0 {
		dfs(f.Blocks[0])
	}
	return
}

// phiOn resolves a phi along a path: the edge value of the predecessor that the path took.
// contradictsConstGuard: some branch condition is, along this path, a boolean constant whose
// value is the opposite of the direction taken — the path cannot be executed.
func (p *pathInfo) contradictsConstGuard() bool {
	for _, g := range p.Guards {
		if k, ok := p.resolve(g.Cond).(*ssa.Const); ok && k.Value != nil && k.Value.Kind() == constant.Bool {
			if constant.BoolVal(k.Value) != g.Taken {
				return true
			}
		}
	}
	return false
}

func (p *pathInfo) phiOn(phi *ssa.Phi) ssa.Value {
	b := phi.Block()
	for i := len(p.Blocks) - 1; i > 0; i-- {
		if p.Blocks[i] == b {
			pred := p.Blocks[i-1]
			for j, pb := range b.Preds {
				if pb == pred {
					return phi.Edges[j]
				}
			}
		}
	}
	return nil
}

// resolve follows phis (along the path) and trivial conversions that keep the value.
func (p *pathInfo) resolve(v ssa.Value) ssa.Value {
	for i := 0; i < 32; i++ {
		if p != nil && p.Subst != nil {
			if a, ok := p.Subst[v]; ok {
				v = a
				continue
			}
		}
		if k := tableByteConst(v); k != nil {
			return k
		}
		phi, ok := v.(*ssa.Phi)
		if !ok || p == nil {
			return v
		}
		e := p.phiOn(phi)
		if e == nil {
			return v
		}
		v = e
	}
	return v
}

// ---- evaluation ----

type shaper struct {
	p     *pathInfo
	depth int
	// inl maps a call instruction to the shape of the helper path chosen for it
	inl map[*ssa.Call]shape
}

func (s *shaper) slice(v ssa.Value) shape {
	s.depth++
	defer func() { s.depth-- }()
	if s.depth > 64 {
		return shape{{Kind: bOpaque, N: -1, Desc: "deep"}}
	}
	v = s.p.resolve(v)
	switch x := v.(type) {
	case *ssa.Const:
		if x.IsNil() {
			return shape{}
		}
	case *ssa.Phi:
		return shape{{Kind: bOpaque, N: -1, Desc: "loop/phi"}}
	case *ssa.Slice:
		if al, ok := x.X.(*ssa.Alloc); ok && sliceIsWholeArray(x, al) {
			return s.arrayLit(al)
		}
		return shape{{Kind: bOpaque, N: -1, Desc: "subslice"}}
	case *ssa.MakeSlice:
		return s.made(x, x.Len)
	case *ssa.Call:
		if sh, ok := s.inl[x]; ok {
			return append(shape{}, sh...)
		}
		if bi, ok := x.Call.Value.(*ssa.Builtin); ok && bi.Name() == "append" && len(x.Call.Args) == 2 {
			return append(s.slice(x.Call.Args[0]), s.slice(x.Call.Args[1])...)
		}
		// binary.LittleEndian.AppendUintN(base, v): base followed by the N/8 bytes of v
		if base, fields, ok := appendUint(&x.Call); ok {
			return append(s.slice(base), fields...)
		}
		return shape{{Kind: bOpaque, N: -1, Desc: shortCallee(&x.Call), Fn: x.Call.StaticCallee()}}
	case *ssa.Extract:
		if call, ok := x.Tuple.(*ssa.Call); ok {
			return shape{{Kind: bOpaque, N: -1, Desc: shortCallee(&call.Call), Fn: call.Call.StaticCallee()}}
		}
	case *ssa.Convert:
		// []byte(string)
		if k, ok := x.X.(*ssa.Const); ok && k.Value != nil && k.Value.Kind() == constant.String {
			var out shape
			for _, b := range []byte(constant.StringVal(k.Value)) {
				out = append(out, bElem{Kind: bConst, C: b})
			}
			return out
		}
	case *ssa.UnOp:
		if x.Op == token.MUL {
			return shape{{Kind: bOpaque, N: -1, Desc: "load"}}
		}
	case *ssa.Parameter:
		return shape{{Kind: bOpaque, N: -1, Desc: "param " + x.Name()}}
	}
	return shape{{Kind: bOpaque, N: -1, Desc: fmt.Sprintf("%T", v)}}
}

func shortCallee(cc *ssa.CallCommon) string {
	n := calleeName(cc)
	if n == "" {
		return "dynamic-call"
	}
	if i := strings.LastIndex(n, "/"); i >= 0 {
		n = n[i+1:]
	}
	return n
}

// arrayLit: `[]byte{a, b, c}` is lowered to new [N]byte + element stores + slice.
func (s *shaper) arrayLit(al *ssa.Alloc) shape {
	pt, ok := al.Type().Underlying().(*types.Pointer)
	if !ok {
		return shape{{Kind: bOpaque, N: -1, Desc: "alloc"}}
	}
	arr, ok := pt.Elem().Underlying().(*types.Array)
	if !ok {
		return shape{{Kind: bOpaque, N: -1, Desc: "alloc"}}
	}
	n := int(arr.Len())
	out := make(shape, n)
	for i := range out {
		out[i] = bElem{Kind: bConst, C: 0}
	}
	if al.Referrers() == nil {
		return out
	}
	for _, r := range *al.Referrers() {
		switch y := r.(type) {
		case *ssa.IndexAddr:
			k, ok := y.Index.(*ssa.Const)
			if !ok || y.Referrers() == nil {
				return shape{{Kind: bOpaque, N: n, Desc: "indexed"}}
			}
			for _, r2 := range *y.Referrers() {
				if st, ok := r2.(*ssa.Store); ok && st.Addr == y {
					i := int(k.Int64())
					if i >= 0 && i < n {
						out[i] = s.byteOf(st.Val)
					}
				}
			}
		case *ssa.Slice:
			// the slice itself; PutUintN on it?
			if y.Referrers() != nil {
				for _, r2 := range *y.Referrers() {
					if ci, ok := r2.(ssa.CallInstruction); ok {
						if sh, ok := s.putUint(ci.Common(), y, n); ok {
							return sh
						}
					}
				}
			}
		}
	}
	return out
}

// made: make([]byte, n): zeros unless filled by PutUintN / element stores.
func (s *shaper) made(ms *ssa.MakeSlice, ln ssa.Value) shape {
	k, isConst := ln.(*ssa.Const)
	n := -1
	if isConst {
		n = int(k.Int64())
	}
	if ms.Referrers() != nil {
		for _, r := range *ms.Referrers() {
			if ci, ok := r.(ssa.CallInstruction); ok {
				if sh, ok := s.putUint(ci.Common(), ms, n); ok {
					return sh
				}
			}
		}
		if n >= 0 {
			out := make(shape, n)
			for i := range out {
				out[i] = bElem{Kind: bConst, C: 0}
			}
			stored := false
			for _, r := range *ms.Referrers() {
				if ia, ok := r.(*ssa.IndexAddr); ok && ia.Referrers() != nil {
					kk, ok := ia.Index.(*ssa.Const)
					for _, r2 := range *ia.Referrers() {
						if st, isSt := r2.(*ssa.Store); isSt && st.Addr == ia {
							if !ok {
								return shape{{Kind: bOpaque, N: n, Desc: "indexed"}}
							}
							stored = true
							if i := int(kk.Int64()); i >= 0 && i < n {
								out[i] = s.byteOf(st.Val)
							}
						}
					}
				}
			}
			if stored {
				return out
			}
		}
	}
	return shape{{Kind: bOpaque, N: n, Desc: "zeros"}}
}

// putUint: binary.{Little,Big}Endian.PutUint16/32/64(buf, uint(V)) with buf == target.
func (s *shaper) putUint(cc *ssa.CallCommon, target ssa.Value, n int) (shape, bool) {
	name := calleeName(cc)
	var width int
	switch {
	case strings.HasSuffix(name, "PutUint16"):
		width = 2
	case strings.HasSuffix(name, "PutUint32"):
		width = 4
	case strings.HasSuffix(name, "PutUint64"):
		width = 8
	default:
		return nil, false
	}
	if !strings.Contains(name, "encoding/binary") {
		return nil, false
	}
	// args: [receiver], buf, value
	args := cc.Args
	if len(args) == 3 {
		args = args[1:]
	}
	if len(args) != 2 || args[0] != target {
		return nil, false
	}
	be := strings.Contains(name, "bigEndian")
	v := args[1]
	for {
		if cv, ok := v.(*ssa.Convert); ok {
			v = cv.X
			continue
		}
		break
	}
	var out shape
	for i := 0; i < width; i++ {
		sh := 8 * i
		if be {
			sh = 8 * (width - 1 - i)
		}
		out = append(out, bElem{Kind: bField, V: v, Shift: sh, BE: be})
	}
	for i := width; i < n; i++ {
		out = append(out, bElem{Kind: bConst, C: 0})
	}
	return out, true
}

// byteOf abstracts one byte-valued SSA value.
func (s *shaper) byteOf(v ssa.Value) bElem {
	v = s.p.resolve(v)
	if k, ok := v.(*ssa.Const); ok {
		return bElem{Kind: bConst, C: byte(k.Uint64())}
	}
	// strip conversions to byte and masks with 0xff
	x := v
	for i := 0; i < 8; i++ {
		switch y := x.(type) {
		case *ssa.Convert:
			x = s.p.resolve(y.X)
			continue
		case *ssa.BinOp:
			if y.Op == token.AND {
				if k, ok := y.Y.(*ssa.Const); ok && k.Uint64() == 0xff {
					x = s.p.resolve(y.X)
					continue
				}
			}
		}
		break
	}
	if k, ok := x.(*ssa.Const); ok {
		return bElem{Kind: bConst, C: byte(k.Uint64())}
	}
	if bo, ok := x.(*ssa.BinOp); ok {
		switch bo.Op {
		case token.SHR:
			if k, ok := bo.Y.(*ssa.Const); ok {
				base := s.p.resolve(bo.X)
				return bElem{Kind: bField, V: base, Shift: int(k.Uint64())}
			}
		case token.ADD, token.OR:
			l, r := s.p.resolve(bo.X), s.p.resolve(bo.Y)
			return bElem{Kind: bExpr, V: bo, L: l, R: r, Op: bo.Op, Desc: fmt.Sprintf("%s %s %s", valName(l), bo.Op, valName(r))}
		}
	}
	return bElem{Kind: bField, V: x, Shift: 0}
}

// ---- linear normal form ----

// linear expresses an integer SSA value as sum(coef*leaf) + K over + and - with constants,
// looking through conversions between integer types. Leaves are SSA values.
type linear struct {
	Terms map[ssa.Value]int64
	K     int64
}

func (p *pathInfo) linearOf(v ssa.Value) linear {
	l := linear{Terms: map[ssa.Value]int64{}}
	var walk func(v ssa.Value, sign int64, depth int)
	walk = func(v ssa.Value, sign int64, depth int) {
		v = p.resolve(v)
		if depth > 32 {
			l.Terms[v] += sign
			return
		}
		switch x := v.(type) {
		case *ssa.Const:
			if x.Value != nil && x.Value.Kind() == constant.Int {
				l.K += sign * x.Int64()
				return
			}
		case *ssa.Convert:
			if isIntType(x.Type()) && isIntType(x.X.Type()) {
				walk(x.X, sign, depth+1)
				return
			}
		case *ssa.BinOp:
			switch x.Op {
			case token.ADD:
				walk(x.X, sign, depth+1)
				walk(x.Y, sign, depth+1)
				return
			case token.SUB:
				walk(x.X, sign, depth+1)
				walk(x.Y, -sign, depth+1)
				return
			}
		}
		l.Terms[v] += sign
	}
	walk(v, 1, 0)
	for k, c := range l.Terms {
		if c == 0 {
			delete(l.Terms, k)
		}
	}
	return l
}

// narrowed reports whether v, on the way linearOf looks through it, passes a conversion to a
// smaller integer type: a range test made on such a value says nothing about the value before
// the conversion (int64(int16(x)) is always within the 16-bit range).
func (p *pathInfo) narrowed(v ssa.Value) bool {
	sizes := types.SizesFor("gc", "amd64")
	found := false
	var walk func(v ssa.Value, depth int)
	walk = func(v ssa.Value, depth int) {
		v = p.resolve(v)
		if depth > 32 || found {
			return
		}
		switch x := v.(type) {
		case *ssa.Convert:
			if isIntType(x.Type()) && isIntType(x.X.Type()) {
				if sizes.Sizeof(x.Type().Underlying()) < sizes.Sizeof(x.X.Type().Underlying()) {
					found = true
					return
				}
				walk(x.X, depth+1)
			}
		case *ssa.BinOp:
			if x.Op == token.ADD || x.Op == token.SUB {
				walk(x.X, depth+1)
				walk(x.Y, depth+1)
			}
		}
	}
	walk(v, 0)
	return found
}

func isIntType(t types.Type) bool {
	b, ok := t.Underlying().(*types.Basic)
	return ok && b.Info()&types.IsInteger != 0
}

func sameTerms(a, b linear) bool {
	if len(a.Terms) != len(b.Terms) {
		return false
	}
	for k, c := range a.Terms {
		if b.Terms[k] != c {
			return false
		}
	}
	return true
}

func (l linear) String() string {
	var p []string
	for v, c := range l.Terms {
		switch c {
		case 1:
			p = append(p, "+"+valName(v))
		case -1:
			p = append(p, "-"+valName(v))
		default:
			p = append(p, fmt.Sprintf("%+d*%s", c, valName(v)))
		}
	}
	// deterministic order
	for i := 0; i < len(p); i++ {
		for j := i + 1; j < len(p); j++ {
			if p[j] < p[i] {
				p[i], p[j] = p[j], p[i]
			}
		}
	}
	return fmt.Sprintf("%s %+d", strings.Join(p, ""), l.K)
}

// ---- intervals ----

// ivTest: value `V` compared with constants, normalised to lo <= V <= hi (nil = unbounded).
type interval struct {
	V      ssa.Value
	Lo, Hi *int64
}

// cmpToBound turns `X op C` (taken or not) into a bound on X.
func cmpBound(bo *ssa.BinOp, taken bool) (v ssa.Value, lo, hi *int64, ok bool) {
	var c *ssa.Const
	var x ssa.Value
	op := bo.Op
	if k, isK := bo.Y.(*ssa.Const); isK {
		c, x = k, bo.X
	} else if k, isK := bo.X.(*ssa.Const); isK {
		c, x = k, bo.Y
		// C op X  ==  X op' C
		switch op {
		case token.LSS:
			op = token.GTR
		case token.LEQ:
			op = token.GEQ
		case token.GTR:
			op = token.LSS
		case token.GEQ:
			op = token.LEQ
		}
	} else {
		return nil, nil, nil, false
	}
	if c.Value == nil || c.Value.Kind() != constant.Int {
		return nil, nil, nil, false
	}
	k := c.Int64()
	if !taken {
		switch op {
		case token.LSS:
			op = token.GEQ
		case token.LEQ:
			op = token.GTR
		case token.GTR:
			op = token.LEQ
		case token.GEQ:
			op = token.LSS
		default:
			return nil, nil, nil, false
		}
	}
	p := func(v int64) *int64 { return &v }
	switch op {
	case token.LSS:
		return x, nil, p(k - 1), true
	case token.LEQ:
		return x, nil, p(k), true
	case token.GTR:
		return x, p(k + 1), nil, true
	case token.GEQ:
		return x, p(k), nil, true
	}
	return nil, nil, nil, false
}

// ---- inlining of byte-producing helpers ----

// shapesWithHelpers computes, for one path of f, the shapes of value v with every static call to
// a function of gosk that returns a single []byte replaced by the shapes of that function's own
// paths (one result per combination). The returned paths carry the helper's blocks, guards and
// the parameter bindings, so that guards and displacement arithmetic inside the helper are read
// in the caller's terms. Extracting an encoder into a helper must not change a verdict.
type shapedPath struct {
	Shape shape
	Path  pathInfo
}

func shapesWithHelpers(p pathInfo, v ssa.Value, depth int) []shapedPath {
	base := (&shaper{p: &p}).slice(v)
	if depth <= 0 {
		return []shapedPath{{base, p}}
	}
	// find the first opaque element produced by an inlinable call on this path
	var call *ssa.Call
	for _, e := range base {
		if e.Kind == bOpaque && e.Fn != nil && inlinableBytesHelper(e.Fn) {
			call = findCallOnPath(&p, e.Fn)
			if call != nil {
				break
			}
		}
	}
	if call == nil {
		return []shapedPath{{base, p}}
	}
	callee := call.Call.StaticCallee()
	cpaths, ok := enumPaths(callee, 256)
	if !ok {
		return []shapedPath{{base, p}}
	}
	var out []shapedPath
	for _, q := range cpaths {
		if len(q.Ret.Results) != 1 {
			continue
		}
		np := pathInfo{Ret: p.Ret, Subst: map[ssa.Value]ssa.Value{}}
		np.Blocks = append(append([]*ssa.BasicBlock{}, p.Blocks...), q.Blocks...)
		np.Guards = append(append([]guard{}, p.Guards...), q.Guards...)
		for k, a := range p.Subst {
			np.Subst[k] = a
		}
		for i, prm := range callee.Params {
			if i < len(call.Call.Args) {
				np.Subst[prm] = call.Call.Args[i]
			}
		}
		// the helper's own result on its path q, read with the combined bindings
		hs := (&shaper{p: &np}).slice(q.Ret.Results[0])
		// nested helpers inside the helper / further helpers in the caller
		sub := shapesWithHelpersInl(np, v, map[*ssa.Call]shape{call: hs}, depth-1)
		out = append(out, sub...)
	}
	if len(out) == 0 {
		return []shapedPath{{base, p}}
	}
	return out
}

func shapesWithHelpersInl(p pathInfo, v ssa.Value, inl map[*ssa.Call]shape, depth int) []shapedPath {
	sh := (&shaper{p: &p, inl: inl}).slice(v)
	return []shapedPath{{sh, p}}
}

func inlinableBytesHelper(f *ssa.Function) bool {
	if f == nil || f.Pkg == nil || len(f.Blocks) == 0 || !strings.HasPrefix(f.Pkg.Pkg.Path(), modPath) {
		return false
	}
	res := f.Signature.Results()
	if res.Len() != 1 {
		return false
	}
	sl, ok := res.At(0).Type().Underlying().(*types.Slice)
	return ok && isByte(sl.Elem())
}

func findCallOnPath(p *pathInfo, callee *ssa.Function) *ssa.Call {
	for _, b := range p.Blocks {
		for _, in := range b.Instrs {
			if call, ok := in.(*ssa.Call); ok && call.Call.StaticCallee() == callee {
				return call
			}
		}
	}
	return nil
}

// appendUint recognises encoding/binary's ByteOrder.AppendUint16/32/64(base, v): the base slice
// and the bytes appended to it.
func appendUint(cc *ssa.CallCommon) (ssa.Value, shape, bool) {
	name := calleeName(cc)
	if !strings.Contains(name, "encoding/binary") {
		return nil, nil, false
	}
	var width int
	switch {
	case strings.HasSuffix(name, "AppendUint16"):
		width = 2
	case strings.HasSuffix(name, "AppendUint32"):
		width = 4
	case strings.HasSuffix(name, "AppendUint64"):
		width = 8
	default:
		return nil, nil, false
	}
	args := cc.Args
	if len(args) == 3 {
		args = args[1:]
	}
	if len(args) != 2 {
		return nil, nil, false
	}
	be := strings.Contains(name, "bigEndian")
	v := args[1]
	for {
		cv, ok := v.(*ssa.Convert)
		if !ok {
			break
		}
		v = cv.X
	}
	var out shape
	for i := 0; i < width; i++ {
		sh := 8 * i
		if be {
			sh = 8 * (width - 1 - i)
		}
		out = append(out, bElem{Kind: bField, V: v, Shift: sh, BE: be})
	}
	return args[0], out, true
}

// sliceIsWholeArray: x is arr[:] or arr[0:n] / arr[:n:n] with n the array's length (the lowering of
// a small constant make([]byte, n)).
func sliceIsWholeArray(x *ssa.Slice, al *ssa.Alloc) bool {
	pt, ok := al.Type().Underlying().(*types.Pointer)
	if !ok {
		return false
	}
	arr, ok := pt.Elem().Underlying().(*types.Array)
	if !ok {
		return false
	}
	isK := func(v ssa.Value, want int64) bool {
		if v == nil {
			return true
		}
		k, ok := v.(*ssa.Const)
		return ok && k.Value != nil && k.Value.Kind() == constant.Int && k.Int64() == want
	}
	return isK(x.Low, 0) && isK(x.High, arr.Len()) && isK(x.Max, arr.Len())
}

// tableByteConst: v is the value looked up in a package-level map[K]byte that is filled with
// constants by the package initialiser and never updated elsewhere, and all of whose values lie
// in one block of sixteen (the condition-code opcodes 70..7F, …): a representative constant (the
// smallest value). The shape rules need the length and the class of such a byte, not the row;
// the rows are compared with their oracle by the table rules.
var tableByteCache = map[*ssa.Global]*ssa.Const{}

func tableByteConst(v ssa.Value) *ssa.Const {
	if ex, ok := v.(*ssa.Extract); ok && ex.Index == 0 {
		v = ex.Tuple
	}
	lk, ok := v.(*ssa.Lookup)
	if !ok {
		return nil
	}
	ld, ok := lk.X.(*ssa.UnOp)
	if !ok || ld.Op != token.MUL {
		return nil
	}
	g, ok := ld.X.(*ssa.Global)
	if !ok || g.Pkg == nil {
		return nil
	}
	if k, ok := tableByteCache[g]; ok {
		return k
	}
	tableByteCache[g] = nil
	mt, ok := g.Type().(*types.Pointer).Elem().Underlying().(*types.Map)
	if !ok {
		return nil
	}
	if b, ok := mt.Elem().Underlying().(*types.Basic); !ok || b.Kind() != types.Uint8 {
		return nil
	}
	initFn := g.Pkg.Func("init")
	if initFn == nil {
		return nil
	}
	var fns []*ssa.Function
	var add func(f *ssa.Function)
	add = func(f *ssa.Function) {
		fns = append(fns, f)
		for _, a := range f.AnonFuncs {
			add(a)
		}
	}
	for _, m := range g.Pkg.Members {
		if f, ok := m.(*ssa.Function); ok {
			add(f)
		}
	}
	isG := func(x ssa.Value) bool {
		l, ok := x.(*ssa.UnOp)
		return ok && l.Op == token.MUL && l.X == ssa.Value(g)
	}
	var theMap ssa.Value
	for _, f := range fns {
		for _, b := range f.Blocks {
			for _, in := range b.Instrs {
				switch x := in.(type) {
				case *ssa.Store:
					if x.Addr == ssa.Value(g) {
						if f != initFn || theMap != nil {
							return nil
						}
						theMap = x.Val
					}
				case *ssa.MapUpdate:
					if isG(x.Map) {
						return nil // updated through the variable
					}
				}
			}
		}
	}
	mm, ok := theMap.(*ssa.MakeMap)
	if !ok || mm.Referrers() == nil {
		return nil
	}
	lo, hi, n := int64(256), int64(-1), 0
	for _, r := range *mm.Referrers() {
		switch x := r.(type) {
		case *ssa.MapUpdate:
			k, ok := x.Value.(*ssa.Const)
			if !ok || x.Parent() != initFn {
				return nil
			}
			val := k.Int64()
			if val < lo {
				lo = val
			}
			if val > hi {
				hi = val
			}
			n++
		case *ssa.Store:
		case *ssa.DebugRef:
		default:
			return nil
		}
	}
	if n == 0 || lo&^0xF != hi&^0xF {
		return nil
	}
	k := ssa.NewConst(constant.MakeInt64(lo), mt.Elem())
	tableByteCache[g] = k
	return k
}
