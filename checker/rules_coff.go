package main

// C08 / C09: COFF writer. T8 (record layouts and constants vs the PE/COFF specification),
// P4 (capture-then-write ordering of offsets), symbol rules.

import (
	"fmt"
	"go/ast"
	"go/token"
	"go/types"
	"strings"

	"golang.org/x/tools/go/ssa"
)

type coffField struct {
	Name string
	Size int64
	Sign bool
}

var coffLayouts = map[string][]coffField{
	"CoffHeader": {{"Machine", 2, false}, {"NumberOfSections", 2, false}, {"TimeDateStamp", 4, false}, {"PointerToSymbolTable", 4, false},
		{"NumberOfSymbols", 4, false}, {"SizeOfOptionalHeader", 2, false}, {"Characteristics", 2, false}},
	"CoffSectionHeader": {{"Name", 8, false}, {"VirtualSize", 4, false}, {"VirtualAddress", 4, false}, {"SizeOfRawData", 4, false}, {"PointerToRawData", 4, false},
		{"PointerToRelocations", 4, false}, {"PointerToLinenumbers", 4, false}, {"NumberOfRelocations", 2, false}, {"NumberOfLinenumbers", 2, false}, {"Characteristics", 4, false}},
	"CoffSymbol": {{"Name", 8, false}, {"Value", 4, false}, {"SectionNumber", 2, true}, {"Type", 2, false}, {"StorageClass", 1, false}, {"NumberOfAuxSymbols", 1, false}},
}
var coffTotals = map[string]int64{"CoffHeader": 20, "CoffSectionHeader": 40, "CoffSymbol": 18}

func ruleT8(c *Ctx) {
	c.doc("T8", "COFF records have the field order/width of the PE-COFF specification (20/40/18 bytes, little endian), the header and symbol constants are the specified ones (machine 0x14c, 3 sections .text/.data/.bss, classes 103/3/2, sections -2/1..3/1/0, aux counts match aux records)")
	p := c.L.Pkg("internal/filefmt")
	if p == nil {
		c.anchorMissing("T8", "internal/filefmt")
		return
	}
	info := p.TypesInfo
	sizes := types.SizesFor("gc", "amd64")
	// (a) layouts
	for _, tn := range sortedKeys(coffLayouts) {
		obj := p.Types.Scope().Lookup(tn)
		if obj == nil {
			c.anchorMissing("T8", "type filefmt."+tn)
			continue
		}
		st, ok := obj.Type().Underlying().(*types.Struct)
		if !ok {
			c.fail("T8", tn+"|struct", "", "not a struct")
			continue
		}
		want := coffLayouts[tn]
		okAll := st.NumFields() == len(want)
		var got []string
		var total int64
		for i := 0; i < st.NumFields(); i++ {
			f := st.Field(i)
			sz := sizes.Sizeof(f.Type())
			total += sz
			signed := false
			if b, ok := f.Type().Underlying().(*types.Basic); ok {
				signed = b.Info()&types.IsUnsigned == 0 && b.Info()&types.IsInteger != 0
			}
			got = append(got, fmt.Sprintf("%s:%d", f.Name(), sz))
			if i < len(want) && (f.Name() != want[i].Name || sz != want[i].Size || signed != want[i].Sign) {
				okAll = false
			}
		}
		c.check(okAll && total == coffTotals[tn], "T8", tn+"|layout", c.L.Pos(obj.Pos()), fmt.Sprintf("record layout %v (total %d) must be the specification's %v (total %d)", got, total, want, coffTotals[tn]))
	}
	// (b) size constants
	for name, want := range map[string]int64{"coffHeaderSize": 20, "coffSectionHeaderSize": 40, "coffSymbolSize": 18, "coffStringTableSizeEntrySize": 4} {
		obj, ok := p.Types.Scope().Lookup(name).(*types.Const)
		if !ok {
			c.anchorMissing("T8", "const filefmt."+name)
			continue
		}
		v, _ := constantInt(obj)
		c.check(v == want, "T8", "const "+name, c.L.Pos(obj.Pos()), fmt.Sprintf("%s = %d, specification says %d", name, v, want))
	}
	// (c) every struc pack call is little endian
	packs := 0
	for _, f := range p.Syntax {
		ast.Inspect(f, func(n ast.Node) bool {
			call, ok := n.(*ast.CallExpr)
			if !ok {
				return true
			}
			fn, ok := calleeOf(info, call).(*types.Func)
			if !ok || fn.Pkg() == nil || !strings.HasSuffix(fn.Pkg().Path(), "lunixbochs/struc") || !strings.HasPrefix(fn.Name(), "Pack") {
				return true
			}
			packs++
			// a packing helper (pack(w, &record)) stands for each of its call sites
			if efd := enclosingFunc(f, call.Pos()); efd != nil && efd.Recv == nil && efd.Name.Name != "Write" {
				k := 0
				forCallsOf(p, efd, func(*ast.CallExpr) { k++ })
				if k > 1 {
					packs += k - 1
				}
			}
			le := false
			if fn.Name() == "PackWithOptions" && len(call.Args) == 3 {
				ast.Inspect(call.Args[2], func(m ast.Node) bool {
					if kv, ok := m.(*ast.KeyValueExpr); ok {
						if id, ok := kv.Key.(*ast.Ident); ok && id.Name == "Order" {
							if sel, ok := kv.Value.(*ast.SelectorExpr); ok && sel.Sel.Name == "LittleEndian" {
								le = true
							}
						}
					}
					return true
				})
			}
			name := ""
			if fd := enclosingFunc(f, call.Pos()); fd != nil {
				name = fdName(fd)
			}
			c.check(le, "T8", fmt.Sprintf("%s|%s little endian", name, fn.Name()), c.L.Pos(call.Pos()), "COFF records must be packed little endian (struc defaults to big endian)")
			return true
		})
	}
	c.check(packs >= 3, "T8", "pack-sites", "", fmt.Sprintf("found %d struc pack sites (header, section header, symbol expected)", packs))

	// (d) header literal
	if fd, _ := c.L.FuncDecl("internal/filefmt", "(*CoffFormat).generateHeader"); fd == nil {
		c.anchorMissing("T8", "filefmt.(*CoffFormat).generateHeader")
	} else {
		lits := structLits(info, fd.Body, "CoffHeader")
		if len(lits) != 1 {
			c.fail("T8", "generateHeader|literal", c.L.Pos(fd.Pos()), fmt.Sprintf("expected one CoffHeader literal, found %d", len(lits)))
		} else {
			l := lits[0]
			checkConstField(c, info, l, "generateHeader", "Machine", 0x14c)
			checkConstField(c, info, l, "generateHeader", "TimeDateStamp", 0)
			checkConstField(c, info, l, "generateHeader", "SizeOfOptionalHeader", 0)
			for _, fld := range []string{"NumberOfSections", "PointerToSymbolTable", "NumberOfSymbols"} {
				_, isParam := paramRefOf(info, fd, field(l, fld))
				c.check(isParam, "T8", "generateHeader|"+fld, c.L.Pos(l.Pos()), fld+" must be the value computed by the writer (a parameter), not a constant")
			}
		}
	}
	// (e) sections
	if fd, _ := c.L.FuncDecl("internal/filefmt", "(*CoffFormat).generateSectionHeaders"); fd == nil {
		c.anchorMissing("T8", "filefmt.(*CoffFormat).generateSectionHeaders")
	} else {
		lits := structLits(info, fd.Body, "CoffSectionHeader")
		var names []string
		for _, l := range lits {
			names = append(names, byteArrayLitString(info, field(l, "Name")))
		}
		c.check(len(names) == 3 && names[0] == ".text" && names[1] == ".data" && names[2] == ".bss", "T8", "generateSectionHeaders|names", c.L.Pos(fd.Pos()), fmt.Sprintf("section headers must be .text, .data, .bss in this order; found %q", names))
		if len(lits) >= 1 {
			for _, fld := range []string{"SizeOfRawData", "PointerToRawData"} {
				_, isParam := paramRefOf(info, fd, field(lits[0], fld))
				c.check(isParam, "T8", "generateSectionHeaders|.text "+fld, c.L.Pos(lits[0].Pos()), ".text "+fld+" must be the value measured by the writer")
			}
			checkConstField(c, info, lits[0], "generateSectionHeaders[.text]", "NumberOfRelocations", 0)
		}
		for i, l := range lits {
			if i == 0 {
				continue
			}
			checkConstField(c, info, l, "generateSectionHeaders["+names[i]+"]", "PointerToRawData", 0)
		}
	}
	// numSections == 3 in Write
	if fd, _ := c.L.FuncDecl("internal/filefmt", "(*CoffFormat).Write"); fd != nil {
		found := false
		ast.Inspect(fd.Body, func(n ast.Node) bool {
			as, ok := n.(*ast.AssignStmt)
			if ok && len(as.Lhs) == 1 && len(as.Rhs) == 1 {
				if id, ok := as.Lhs[0].(*ast.Ident); ok && id.Name == "numSections" {
					v, ok := constInt(info, as.Rhs[0])
					found = true
					c.check(ok && v == 3, "T8", "Write|numSections", c.L.Pos(as.Pos()), "three section headers are written; NumberOfSections must be 3")
				}
			}
			return true
		})
		if !found {
			c.anchorMissing("T8", "filefmt.Write: numSections")
		}
	}
	// (f) symbol literals
	if fd, _ := c.L.FuncDecl("internal/filefmt", "(*CoffFormat).generateSymbolEntries"); fd == nil {
		c.anchorMissing("T8", "filefmt.(*CoffFormat).generateSymbolEntries")
	} else {
		syms := map[string]*ast.CompositeLit{} // local var name -> literal (last one per scope is fine: we pair by position)
		type pair struct {
			sym *ast.CompositeLit
			aux ast.Expr
			pos token.Pos
		}
		var pairs []pair
		var stack []map[string]*ast.CompositeLit
		_ = stack
		ast.Inspect(fd.Body, func(n ast.Node) bool {
			switch x := n.(type) {
			case *ast.AssignStmt:
				if len(x.Lhs) == 1 && len(x.Rhs) == 1 {
					if id, ok := x.Lhs[0].(*ast.Ident); ok {
						if cl, ok := x.Rhs[0].(*ast.CompositeLit); ok && isNamedLit(info, cl, "CoffSymbol") {
							syms[id.Name] = cl
						}
					}
				}
			case *ast.CompositeLit:
				if isNamedLit(info, x, "SymbolEntry") {
					m := field(x, "Main")
					var sym *ast.CompositeLit
					switch mm := m.(type) {
					case *ast.Ident:
						sym = syms[mm.Name]
					case *ast.CompositeLit:
						sym = mm
					}
					pairs = append(pairs, pair{sym, field(x, "Aux"), x.Pos()})
				}
			case *ast.CallExpr:
				// newEntry(name, value, section): a same-package constructor that returns one
				// SymbolEntry literal; its parameters are replaced by the arguments
				if sym, aux, ok := entryConstructorCall(c, p, x); ok {
					pairs = append(pairs, pair{sym, aux, x.Pos()})
				}
			}
			return true
		})
		for i, pr := range pairs {
			key := fmt.Sprintf("generateSymbolEntries|entry#%d", i+1)
			if pr.sym == nil {
				c.fail("T8", key, c.L.Pos(pr.pos), "undecided: Main is not a CoffSymbol literal")
				continue
			}
			name := byteArrayLitString(info, field(pr.sym, "Name"))
			cls, _ := constInt(info, field(pr.sym, "StorageClass"))
			naux, okAux := constInt(info, field(pr.sym, "NumberOfAuxSymbols"))
			auxNil := pr.aux == nil
			if id, ok := pr.aux.(*ast.Ident); ok && id.Name == "nil" {
				auxNil = true
			}
			c.check(okAux && ((naux == 0) == auxNil) && naux <= 1, "T8", key+"|aux count", c.L.Pos(pr.pos), fmt.Sprintf("NumberOfAuxSymbols=%d but aux record present=%v (each aux buffer is one 18-byte record)", naux, !auxNil))
			sec, secConst := constInt(info, field(pr.sym, "SectionNumber"))
			switch {
			case name == ".file":
				c.check(cls == 103 && secConst && sec == -2 && naux == 1, "T8", key+"|.file", c.L.Pos(pr.pos), fmt.Sprintf(".file symbol: class %d (103), section %d (-2), aux %d (1)", cls, sec, naux))
			case field(pr.sym, "Name") != nil && name == "" && cls == 3:
				c.check(naux == 1 && !secConst, "T8", key+"|section symbol", c.L.Pos(pr.pos), "section symbols: class 3 (static), one aux record, section number i+1")
			default:
				c.check(cls == 2 && naux == 0, "T8", key+"|external", c.L.Pos(pr.pos), fmt.Sprintf("GLOBAL/EXTERN symbols: class %d (must be 2 = external), aux %d (0)", cls, naux))
				if !secConst {
					// a defined symbol: its section is a local that holds the constant 1 (.text — the
					// only section gosk puts code and labels in)
					good := false
					if id, ok := field(pr.sym, "SectionNumber").(*ast.Ident); ok {
						ast.Inspect(fd.Body, func(n ast.Node) bool {
							as, ok := n.(*ast.AssignStmt)
							if !ok || len(as.Lhs) != 1 || len(as.Rhs) != 1 {
								return true
							}
							if l, ok := as.Lhs[0].(*ast.Ident); ok && l.Name == id.Name {
								rhs := as.Rhs[0]
								if call, ok := rhs.(*ast.CallExpr); ok && len(call.Args) == 1 {
									rhs = call.Args[0]
								}
								if v, ok := constInt(info, rhs); ok && v == 1 {
									good = true
								} else {
									good = false
								}
							}
							return true
						})
					}
					c.check(good, "T8", key+"|defined symbol section", c.L.Pos(pr.pos), "a defined GLOBAL symbol belongs to section 1 (.text): its section number must be that constant, not a value computed from a directive")
				}
				if secConst {
					c.check(sec == 0, "T8", key+"|undefined section", c.L.Pos(pr.pos), "an undefined symbol has section number 0 and value 0")
					v, vok := constInt(info, field(pr.sym, "Value"))
					c.check(vok && v == 0, "T8", key+"|undefined value", c.L.Pos(pr.pos), "an undefined symbol has value 0")
				}
			}
		}
		c.check(len(pairs) >= 5, "T8", "generateSymbolEntries|entries", c.L.Pos(fd.Pos()), fmt.Sprintf("found %d symbol entry literals (.file, section, defined global, undefined global, extern expected)", len(pairs)))
		// aux buffers are one record long
		nmake := 0
		ast.Inspect(fd.Body, func(n ast.Node) bool {
			call, ok := n.(*ast.CallExpr)
			if !ok {
				return true
			}
			if id, ok := call.Fun.(*ast.Ident); ok && id.Name == "make" && len(call.Args) == 2 {
				if v, ok := constInt(info, call.Args[1]); ok {
					if s, ok := info.TypeOf(call.Args[0]).Underlying().(*types.Slice); ok {
						if b, ok := s.Elem().Underlying().(*types.Basic); ok && b.Kind() == types.Uint8 {
							nmake++
							c.check(v == 18, "T8", fmt.Sprintf("generateSymbolEntries|aux buffer#%d", nmake), c.L.Pos(call.Pos()), fmt.Sprintf("aux record buffer is %d bytes, must be 18", v))
						}
					}
				}
			}
			return true
		})
		// defined globals: value = SymTable[name], section 1
		var valueExprs []ast.Expr
		for _, pr := range pairs {
			if pr.sym != nil {
				if v := field(pr.sym, "Value"); v != nil {
					valueExprs = append(valueExprs, v)
				}
			}
		}
		c.check(hasSymTableValue(info, fd, valueExprs), "T8", "generateSymbolEntries|value from symbol table", c.L.Pos(fd.Pos()), "a defined GLOBAL symbol's Value must be the address looked up in SymTable under the same name")
	}
	// (g) name conversion
	if fd, _ := c.L.FuncDecl("internal/filefmt", "(*CoffFormat).convertNameToBytes"); fd == nil {
		c.anchorMissing("T8", "filefmt.(*CoffFormat).convertNameToBytes")
	} else {
		thr := false
		ast.Inspect(fd.Body, func(n ast.Node) bool {
			be, ok := n.(*ast.BinaryExpr)
			if !ok {
				return true
			}
			if call, ok := ast.Unparen(be.X).(*ast.CallExpr); ok {
				if id, ok := call.Fun.(*ast.Ident); ok && id.Name == "len" {
					if v, ok := constInt(info, be.Y); ok {
						thr = true
						good := (be.Op == token.GTR && v == 8) || (be.Op == token.GEQ && v == 9) || (be.Op == token.LEQ && v == 8) || (be.Op == token.LSS && v == 9)
						c.check(good, "T8", "convertNameToBytes|inline-name threshold", c.L.Pos(be.Pos()), fmt.Sprintf("names of up to 8 bytes are stored inline, longer ones go to the string table; test is len(name) %s %d", be.Op, v))
					}
				}
			}
			return true
		})
		if !thr {
			c.anchorMissing("T8", "convertNameToBytes: len(name) threshold")
		}
		// offset = stringTable.Len() + 4, NUL after each name, (0, offset) in the two halves
		src := nodeText(c, fd.Body)
		_ = src
		var puts [][3]int64 // lo, hi, isZero
		nul, wstr, plus4 := false, false, false
		ast.Inspect(fd.Body, func(n ast.Node) bool {
			switch x := n.(type) {
			case *ast.CallExpr:
				if sel, ok := x.Fun.(*ast.SelectorExpr); ok {
					switch sel.Sel.Name {
					case "PutUint32":
						if se, ok := x.Args[0].(*ast.SliceExpr); ok {
							lo, _ := constInt(info, se.Low)
							hi, _ := constInt(info, se.High)
							z := int64(0)
							if v, ok := constInt(info, x.Args[1]); ok && v == 0 {
								z = 1
							}
							puts = append(puts, [3]int64{lo, hi, z})
						}
					case "WriteByte":
						if v, ok := constInt(info, x.Args[0]); ok && v == 0 {
							nul = true
						}
					case "WriteString":
						wstr = true
					}
				}
			case *ast.BinaryExpr:
				if x.Op == token.ADD {
					for _, pr := range [][2]ast.Expr{{x.X, x.Y}, {x.Y, x.X}} {
						if v, ok := constInt(info, pr[1]); ok && v == 4 {
							if strings.Contains(types.ExprString(pr[0]), ".Len()") {
								plus4 = true
							}
						}
					}
				}
			}
			return true
		})
		okPuts := len(puts) == 2 && puts[0] == [3]int64{0, 4, 1} && puts[1][0] == 4 && puts[1][1] == 8 && puts[1][2] == 0
		c.check(okPuts, "T8", "convertNameToBytes|long-name field", c.L.Pos(fd.Pos()), fmt.Sprintf("a long name is encoded as u32 0 followed by the u32 string-table offset; found %v", puts))
		c.check(plus4, "T8", "convertNameToBytes|offset base", c.L.Pos(fd.Pos()), "string-table offsets count from the 4-byte length field: offset = current content length + 4")
		c.check(nul && wstr, "T8", "convertNameToBytes|NUL terminated", c.L.Pos(fd.Pos()), "each string-table entry is the name followed by a NUL byte")
	}
	c.floor("T8", 35)
}

func constantInt(cst *types.Const) (int64, bool) {
	v := cst.Val()
	if v == nil {
		return 0, false
	}
	i, ok := constantToInt64(v)
	return i, ok
}

func structLits(info *types.Info, n ast.Node, typeName string) []*ast.CompositeLit {
	var out []*ast.CompositeLit
	ast.Inspect(n, func(x ast.Node) bool {
		if cl, ok := x.(*ast.CompositeLit); ok && isNamedLit(info, cl, typeName) {
			out = append(out, cl)
		}
		return true
	})
	return out
}

func isNamedLit(info *types.Info, cl *ast.CompositeLit, name string) bool {
	t := info.TypeOf(cl)
	if t == nil {
		return false
	}
	n, ok := t.(*types.Named)
	return ok && n.Obj().Name() == name
}

func checkConstField(c *Ctx, info *types.Info, l *ast.CompositeLit, where, fld string, want int64) {
	e := field(l, fld)
	if e == nil {
		// omitted field = zero value
		c.check(want == 0, "T8", where+"|"+fld, c.L.Pos(l.Pos()), fmt.Sprintf("%s omitted (zero), must be %#x", fld, want))
		return
	}
	v, ok := constInt(info, e)
	c.check(ok && v == want, "T8", where+"|"+fld, c.L.Pos(e.Pos()), fmt.Sprintf("%s = %#x, must be %#x", fld, v, want))
}

// paramRef: a parameter of a function, or one field of a struct-typed parameter (layout.textDataOffset).
type paramRef struct {
	idx   int
	field string
}

// paramRefOf: e is a parameter of fd, or a field selected from one.
func paramRefOf(info *types.Info, fd *ast.FuncDecl, e ast.Expr) (paramRef, bool) {
	if i, ok := paramIndexOf(info, fd, e); ok {
		return paramRef{i, ""}, true
	}
	if sel, ok := ast.Unparen(e).(*ast.SelectorExpr); ok {
		if i, ok := paramIndexOf(info, fd, sel.X); ok {
			return paramRef{i, sel.Sel.Name}, true
		}
	}
	return paramRef{}, false
}

// argValue: the SSA value a call passes for ref — the argument itself (methods carry their
// receiver first), or, for a field of a struct argument that the caller builds in a local, the
// value stored into that field.
func argValue(call *ssa.Call, ref paramRef) ssa.Value {
	callee := call.Call.StaticCallee()
	if callee == nil {
		return nil
	}
	off := 0
	if callee.Signature.Recv() != nil {
		off = 1
	}
	if ref.idx+off >= len(call.Call.Args) {
		return nil
	}
	a := call.Call.Args[ref.idx+off]
	if ref.field == "" {
		return a
	}
	ld, ok := a.(*ssa.UnOp)
	if !ok || ld.Op != token.MUL {
		return nil
	}
	al, ok := ld.X.(*ssa.Alloc)
	if !ok || al.Referrers() == nil {
		return nil
	}
	var val ssa.Value
	for _, r := range *al.Referrers() {
		fa, ok := r.(*ssa.FieldAddr)
		if !ok || fieldName(fa) != ref.field || fa.Referrers() == nil {
			continue
		}
		for _, r2 := range *fa.Referrers() {
			if st, ok := r2.(*ssa.Store); ok && st.Addr == ssa.Value(fa) {
				if val != nil {
					return nil // assigned more than once: not modelled
				}
				val = st.Val
			}
		}
	}
	return val
}

// paramIndexOf: if e is an identifier naming a parameter of fd, returns its index.
func paramIndexOf(info *types.Info, fd *ast.FuncDecl, e ast.Expr) (int, bool) {
	id, ok := e.(*ast.Ident)
	if !ok {
		return 0, false
	}
	obj := info.Uses[id]
	i := 0
	for _, f := range fd.Type.Params.List {
		for _, n := range f.Names {
			if info.Defs[n] == obj {
				return i, true
			}
			i++
		}
	}
	return 0, false
}

// byteArrayLitString renders [8]byte{'.','t',…} literals; "" when not such a literal.
func byteArrayLitString(info *types.Info, e ast.Expr) string {
	cl, ok := e.(*ast.CompositeLit)
	if !ok {
		return ""
	}
	var sb strings.Builder
	for _, el := range cl.Elts {
		v, ok := constInt(info, el)
		if !ok {
			return ""
		}
		sb.WriteByte(byte(v))
	}
	return sb.String()
}

func hasSymTableValue(info *types.Info, fd *ast.FuncDecl, values []ast.Expr) bool {
	// `addr, ok := ctx.SymTable[globalName]` … `Value: uint32(addr)`
	var addrObj, keyObj types.Object
	ast.Inspect(fd.Body, func(n ast.Node) bool {
		as, ok := n.(*ast.AssignStmt)
		if !ok || len(as.Rhs) != 1 {
			return true
		}
		ie, ok := as.Rhs[0].(*ast.IndexExpr)
		if !ok {
			return true
		}
		if sel, ok := ie.X.(*ast.SelectorExpr); ok && sel.Sel.Name == "SymTable" {
			if id, ok := as.Lhs[0].(*ast.Ident); ok {
				addrObj = info.Defs[id]
			}
			if k, ok := ie.Index.(*ast.Ident); ok {
				keyObj = info.Uses[k]
			}
		}
		return true
	})
	if addrObj == nil || keyObj == nil {
		return false
	}
	ok := false
	for _, ve := range values {
		ast.Inspect(ve, func(m ast.Node) bool {
			if v, isV := m.(*ast.Ident); isV && info.Uses[v] == addrObj {
				ok = true
			}
			return true
		})
	}
	return ok
}

// entryConstructorCall: call is f(args…) where f is a function of the same package whose body
// is `return SymbolEntry{Main: CoffSymbol{…}, Aux: …}`; returns the CoffSymbol literal and the
// Aux expression with f's parameters replaced by the call's arguments.
func entryConstructorCall(c *Ctx, p *packagesPackage, call *ast.CallExpr) (*ast.CompositeLit, ast.Expr, bool) {
	info := p.TypesInfo
	fn, ok := calleeOf(info, call).(*types.Func)
	if !ok || fn.Pkg() != p.Types {
		return nil, nil, false
	}
	hd := funcDeclOf(p, fn)
	if hd == nil || hd.Body == nil || len(hd.Body.List) < 1 || len(hd.Body.List) > 2 || hd.Type.Params == nil {
		return nil, nil, false
	}
	// optionally: sym := CoffSymbol{…} first
	var localSym *ast.CompositeLit
	var localObj types.Object
	if len(hd.Body.List) == 2 {
		as, ok := hd.Body.List[0].(*ast.AssignStmt)
		if !ok || as.Tok != token.DEFINE || len(as.Lhs) != 1 || len(as.Rhs) != 1 {
			return nil, nil, false
		}
		cl, ok := as.Rhs[0].(*ast.CompositeLit)
		if !ok || !isNamedLit(info, cl, "CoffSymbol") {
			return nil, nil, false
		}
		localSym = cl
		localObj = info.Defs[as.Lhs[0].(*ast.Ident)]
	}
	ret, ok := hd.Body.List[len(hd.Body.List)-1].(*ast.ReturnStmt)
	if !ok || len(ret.Results) != 1 {
		return nil, nil, false
	}
	entry, ok := ret.Results[0].(*ast.CompositeLit)
	if !ok || !isNamedLit(info, entry, "SymbolEntry") {
		return nil, nil, false
	}
	bind := map[types.Object]ast.Expr{}
	i := 0
	for _, fld := range hd.Type.Params.List {
		for _, nm := range fld.Names {
			if i < len(call.Args) {
				bind[info.Defs[nm]] = call.Args[i]
			}
			i++
		}
	}
	if i != len(call.Args) {
		return nil, nil, false
	}
	subst := func(e ast.Expr) ast.Expr {
		if id, ok := ast.Unparen(e).(*ast.Ident); ok {
			if a, ok := bind[info.Uses[id]]; ok {
				return a
			}
		}
		return e
	}
	main, ok := field(entry, "Main").(*ast.CompositeLit)
	if !ok {
		if id, isId := field(entry, "Main").(*ast.Ident); isId && localSym != nil && info.Uses[id] == localObj {
			main, ok = localSym, true
		}
	}
	if !ok {
		return nil, nil, false
	}
	cp := &ast.CompositeLit{Type: main.Type, Lbrace: main.Lbrace, Rbrace: main.Rbrace}
	for _, el := range main.Elts {
		if kv, ok := el.(*ast.KeyValueExpr); ok {
			cp.Elts = append(cp.Elts, &ast.KeyValueExpr{Key: kv.Key, Colon: kv.Colon, Value: subst(kv.Value)})
		} else {
			cp.Elts = append(cp.Elts, el)
		}
	}
	aux := field(entry, "Aux")
	if aux != nil {
		aux = subst(aux)
	}
	return cp, aux, true
}

func nodeText(c *Ctx, n ast.Node) string { return "" }

// ---------------------------------------------------------------------------------------
// P4: capture-then-write ordering in the COFF writer
// ---------------------------------------------------------------------------------------

type bufEvent struct {
	in    ssa.Instruction
	kind  string // "len" | "write"
	label string
	val   ssa.Value
}

func ruleP4(c *Ctx) {
	c.doc("P4", "in the COFF writer every offset stored in a header is the buffer length captured immediately before the data it points to is appended; records are appended in file order header, 3 section headers, .text, symbols, string-table length, strings; counts are final before the headers are packed")
	f := c.L.SSAFunc("internal/filefmt", "(*CoffFormat).Write")
	if f == nil {
		c.anchorMissing("P4", "filefmt.(*CoffFormat).Write")
		return
	}
	// the file buffer: the *bytes.Buffer whose Bytes() feeds the final file write
	var fileBuf ssa.Value
	callsIn(f, func(ci ssa.CallInstruction) {
		if calleeName(ci.Common()) == "(*os.File).Write" && len(ci.Common().Args) == 2 {
			// arg is (a slice of) buf.Bytes()
			r := rootOf(ci.Common().Args[1])
			if call, ok := r.(*ssa.Call); ok && calleeName(&call.Call) == "(*bytes.Buffer).Bytes" {
				fileBuf = call.Call.Args[0]
			}
		}
	})
	if fileBuf == nil {
		c.anchorMissing("P4", "Write: file.Write(buf.Bytes())")
		return
	}
	var evs []bufEvent
	callsIn(f, func(ci ssa.CallInstruction) {
		cc := ci.Common()
		n := calleeName(cc)
		if len(cc.Args) == 0 || cc.Args[0] != fileBuf {
			return
		}
		switch n {
		case "(*bytes.Buffer).Len":
			evs = append(evs, bufEvent{ci, "len", "", ci.(ssa.Value)})
		case "(*bytes.Buffer).Write":
			evs = append(evs, bufEvent{ci, "write", labelWritten(cc.Args[1]), nil})
		case "(*bytes.Buffer).WriteString", "(*bytes.Buffer).WriteByte":
			evs = append(evs, bufEvent{ci, "write", "other", nil})
		}
	})
	// order by dominance
	before := func(a, b ssa.Instruction) bool {
		if a.Block() == b.Block() {
			for _, in := range a.Block().Instrs {
				if in == a {
					return true
				}
				if in == b {
					return false
				}
			}
		}
		return a.Block().Dominates(b.Block())
	}
	for i := 0; i < len(evs); i++ {
		for j := i + 1; j < len(evs); j++ {
			if before(evs[j].in, evs[i].in) {
				evs[i], evs[j] = evs[j], evs[i]
			}
		}
	}
	var order []string
	for _, e := range evs {
		if e.kind == "write" {
			order = append(order, e.label)
		}
	}
	want := []string{"placeholder(20)", "placeholder(3*40)", "machinecode", "symtab", "strsize", "strtab"}
	c.check(strings.Join(order, ",") == strings.Join(want, ","), "P4", "Write|append order", c.L.Pos(f.Pos()), fmt.Sprintf("records appended in order %v, file order must be %v", order, want))

	// which Len() feeds which header field
	nextWrite := func(i int) string {
		for j := i + 1; j < len(evs); j++ {
			if evs[j].kind == "write" {
				return evs[j].label
			}
		}
		return "<none>"
	}
	feedsVal := func(v ssa.Value, a ssa.Value) bool {
		if a == nil {
			return false
		}
		for i := 0; i < 6; i++ {
			// a field of a local struct that is assigned exactly once: the value assigned
			if ld, ok := a.(*ssa.UnOp); ok && ld.Op == token.MUL {
				if fa, ok := ld.X.(*ssa.FieldAddr); ok {
					if al, ok := fa.X.(*ssa.Alloc); ok && al.Referrers() != nil {
						var val ssa.Value
						n := 0
						for _, r := range *al.Referrers() {
							fa2, ok := r.(*ssa.FieldAddr)
							if !ok || fa2.Field != fa.Field || fa2.Referrers() == nil {
								continue
							}
							for _, r2 := range *fa2.Referrers() {
								if st, ok := r2.(*ssa.Store); ok && st.Addr == ssa.Value(fa2) {
									val = st.Val
									n++
								}
							}
						}
						if n == 1 {
							a = val
							continue
						}
					}
				}
			}
			if a == v {
				return true
			}
			switch x := a.(type) {
			case *ssa.Convert:
				a = x.X
			case *ssa.ChangeType:
				a = x.X
			default:
				return false
			}
		}
		return false
	}
	// resolve parameter positions from the callee literals
	hdrFd, p := c.L.FuncDecl("internal/filefmt", "(*CoffFormat).generateHeader")
	secFd, _ := c.L.FuncDecl("internal/filefmt", "(*CoffFormat).generateSectionHeaders")
	if hdrFd == nil || secFd == nil {
		c.anchorMissing("P4", "generateHeader / generateSectionHeaders")
		return
	}
	info := p.TypesInfo
	hl := structLits(info, hdrFd.Body, "CoffHeader")
	sl := structLits(info, secFd.Body, "CoffSectionHeader")
	if len(hl) != 1 || len(sl) < 1 {
		c.anchorMissing("P4", "header literals")
		return
	}
	symOffRef, ok1 := paramRefOf(info, hdrFd, field(hl[0], "PointerToSymbolTable"))
	nsymRef, ok2 := paramRefOf(info, hdrFd, field(hl[0], "NumberOfSymbols"))
	textOffRef, ok3 := paramRefOf(info, secFd, field(sl[0], "PointerToRawData"))
	textSzRef, ok4 := paramRefOf(info, secFd, field(sl[0], "SizeOfRawData"))
	if !(ok1 && ok2 && ok3 && ok4) {
		c.fail("P4", "Write|header fields from parameters", "", "undecided: header fields are not plain parameters")
		return
	}
	var hdrCall, secCall *ssa.Call
	callsIn(f, func(ci ssa.CallInstruction) {
		n := calleeName(ci.Common())
		if call, ok := ci.(*ssa.Call); ok {
			if strings.HasSuffix(n, ".generateHeader") {
				hdrCall = call
			}
			if strings.HasSuffix(n, ".generateSectionHeaders") {
				secCall = call
			}
		}
	})
	if hdrCall == nil || secCall == nil {
		c.anchorMissing("P4", "Write: calls of generateHeader / generateSectionHeaders")
		return
	}
	symOK, textOK := false, false
	for i, e := range evs {
		if e.kind != "len" {
			continue
		}
		if feedsVal(e.val, argValue(hdrCall, symOffRef)) {
			symOK = nextWrite(i) == "symtab"
			c.check(symOK, "P4", "Write|PointerToSymbolTable", c.L.Pos(instrPos(e.in)), "PointerToSymbolTable must be the buffer length captured immediately before the symbol table is appended; next append is "+nextWrite(i))
		}
		if feedsVal(e.val, argValue(secCall, textOffRef)) {
			textOK = nextWrite(i) == "machinecode"
			c.check(textOK, "P4", "Write|.text PointerToRawData", c.L.Pos(instrPos(e.in)), ".text PointerToRawData must be the buffer length captured immediately before the machine code is appended; next append is "+nextWrite(i))
		}
	}
	if !symOK {
		c.check(false, "P4", "Write|PointerToSymbolTable source", c.L.Pos(f.Pos()), "PointerToSymbolTable is not fed by a buffer-length capture placed directly before the symbol-table append")
	}
	if !textOK {
		c.check(false, "P4", "Write|.text PointerToRawData source", c.L.Pos(f.Pos()), ".text PointerToRawData is not fed by a buffer-length capture placed directly before the code append")
	}
	// .text SizeOfRawData = len(ctx.MachineCode)
	szArg := argValue(secCall, textSzRef)
	szOK := false
	if cv, ok := szArg.(*ssa.Convert); ok {
		if call, ok := cv.X.(*ssa.Call); ok {
			if bi, ok := call.Call.Value.(*ssa.Builtin); ok && bi.Name() == "len" && isFieldLoad(call.Call.Args[0], "MachineCode") {
				szOK = true
			}
		}
	}
	c.check(szOK, "P4", "Write|.text SizeOfRawData", c.L.Pos(instrPos(secCall)), ".text SizeOfRawData must be len(ctx.MachineCode)")
	// headers are packed after the last append (counts are final)
	hdrLast := true
	for _, e := range evs {
		if before(hdrCall, e.in) || before(secCall, e.in) {
			hdrLast = false
		}
	}
	c.check(hdrLast, "P4", "Write|headers after data", c.L.Pos(instrPos(hdrCall)), "header and section headers must be generated after every append so that offsets and counts are final")
	// NumberOfSymbols: counter incremented by 1 per main record and by the aux count per aux record
	nsArg := argValue(hdrCall, nsymRef)
	c.check(symbolCounterOK(nsArg), "P4", "Write|NumberOfSymbols counter", c.L.Pos(instrPos(hdrCall)), "NumberOfSymbols must count 1 per main record plus NumberOfAuxSymbols per entry that has an aux record")
	// string table length = content + 4
	c.check(strSizeOK(f), "P4", "Write|string table length", c.L.Pos(f.Pos()), "the string-table length field must be len(content)+4 (it counts itself)")
	c.floor("P4", 7)
}

func isFieldLoad(v ssa.Value, fld string) bool {
	if u, ok := v.(*ssa.UnOp); ok && u.Op == token.MUL {
		if fa, ok := u.X.(*ssa.FieldAddr); ok {
			return fieldName(fa) == fld
		}
	}
	return false
}

// helperResults: v is (a component of) the result of a call to a function of this repository;
// the values that function returns in that position, constants (the zero results that go with
// an error) left out. nil when v is not such a result.
func helperResults(v ssa.Value) []ssa.Value {
	idx := 0
	var call *ssa.Call
	switch x := v.(type) {
	case *ssa.Extract:
		call, _ = x.Tuple.(*ssa.Call)
		idx = x.Index
	case *ssa.Call:
		call = x
	}
	if call == nil {
		return nil
	}
	g := call.Call.StaticCallee()
	if g == nil || g.Blocks == nil || !strings.HasPrefix(funcName(g), modPath) && !strings.Contains(funcName(g), modPath) {
		return nil
	}
	var out []ssa.Value
	for _, b := range g.Blocks {
		if ret, ok := b.Instrs[len(b.Instrs)-1].(*ssa.Return); ok && idx < len(ret.Results) {
			if _, isK := ret.Results[idx].(*ssa.Const); isK {
				continue
			}
			out = append(out, ret.Results[idx])
		}
	}
	return out
}

func labelWritten(v ssa.Value) string {
	if isFieldLoad(v, "MachineCode") {
		return "machinecode"
	}
	switch x := v.(type) {
	case *ssa.MakeSlice:
		if k, ok := x.Len.(*ssa.Const); ok {
			n := k.Int64()
			// is it the target of PutUint32 (string table size)?
			if x.Referrers() != nil {
				for _, r := range *x.Referrers() {
					if ci, ok := r.(ssa.CallInstruction); ok && strings.HasSuffix(calleeName(ci.Common()), "PutUint32") {
						return "strsize"
					}
				}
			}
			return fmt.Sprintf("placeholder(%d)", n)
		}
		// len = int(numSections) * 40
		if bo, ok := x.Len.(*ssa.BinOp); ok && bo.Op == token.MUL {
			a, b := constOfVal(bo.X), constOfVal(bo.Y)
			return fmt.Sprintf("placeholder(%s*%s)", a, b)
		}
		return "placeholder(?)"
	case *ssa.Call:
		if calleeName(&x.Call) == "(*bytes.Buffer).Bytes" {
			return "symtab"
		}
	case *ssa.Extract:
		if call, ok := x.Tuple.(*ssa.Call); ok && strings.HasSuffix(calleeName(&call.Call), ".generateSymbolEntries") && x.Index == 1 {
			return "strtab"
		}
	case *ssa.Slice:
		return labelWritten(x.X)
	case *ssa.Alloc:
		// make([]byte, const) of small size is lowered to an array Alloc + Slice
		if at, ok := x.Type().Underlying().(*types.Pointer); ok {
			if arr, ok := at.Elem().Underlying().(*types.Array); ok {
				if x.Referrers() != nil {
					for _, r := range *x.Referrers() {
						if sl, ok := r.(*ssa.Slice); ok && sl.Referrers() != nil {
							for _, r2 := range *sl.Referrers() {
								if ci, ok := r2.(ssa.CallInstruction); ok && strings.HasSuffix(calleeName(ci.Common()), "PutUint32") {
									return "strsize"
								}
							}
						}
					}
				}
				return fmt.Sprintf("placeholder(%d)", arr.Len())
			}
		}
	}
	// the bytes a packing helper hands back
	if rs := helperResults(v); len(rs) > 0 {
		lbl := ""
		for _, r := range rs {
			l := labelWritten(r)
			if lbl != "" && l != lbl {
				return "other"
			}
			lbl = l
		}
		if lbl != "other" {
			return lbl
		}
	}
	return "other"
}

func constOfVal(v ssa.Value) string {
	for i := 0; i < 4; i++ {
		switch x := v.(type) {
		case *ssa.Const:
			return x.Value.String()
		case *ssa.Convert:
			v = x.X
		case *ssa.ChangeType:
			v = x.X
		default:
			return "?"
		}
	}
	return "?"
}

// symbolCounterOK: the value is a loop-carried counter c with c' = c + 1 on every
// iteration and c” = c' + NumberOfAuxSymbols under the aux != nil branch, starting at 0.
func symbolCounterOK(v ssa.Value) bool {
	// the count a packing helper hands back
	if rs := helperResults(v); len(rs) > 0 {
		for _, r := range rs {
			if !symbolCounterOK(r) {
				return false
			}
		}
		return true
	}
	phi, ok := v.(*ssa.Phi)
	if !ok {
		return false
	}
	seen := map[ssa.Value]bool{}
	var incs []ssa.Value
	zero := false
	var walk func(x ssa.Value)
	walk = func(x ssa.Value) {
		if seen[x] {
			return
		}
		seen[x] = true
		switch y := x.(type) {
		case *ssa.Phi:
			for _, e := range y.Edges {
				walk(e)
			}
		case *ssa.BinOp:
			if y.Op == token.ADD {
				incs = append(incs, y.Y)
				walk(y.X)
			}
		case *ssa.Const:
			if y.Int64() == 0 {
				zero = true
			}
		}
	}
	walk(phi)
	one, aux := false, false
	for _, inc := range incs {
		if k, ok := inc.(*ssa.Const); ok && k.Int64() == 1 {
			one = true
			continue
		}
		r := inc
		if cv, ok := r.(*ssa.Convert); ok {
			r = cv.X
		}
		if u, ok := r.(*ssa.UnOp); ok && u.Op == token.MUL {
			if fa, ok := u.X.(*ssa.FieldAddr); ok && fieldName(fa) == "NumberOfAuxSymbols" {
				aux = true
				continue
			}
		}
		if fl, ok := r.(*ssa.Field); ok {
			_ = fl
		}
		return false
	}
	return zero && one && aux && len(incs) == 2
}

func strSizeOK(f *ssa.Function) bool {
	ok := false
	callsIn(f, func(ci ssa.CallInstruction) {
		if !strings.HasSuffix(calleeName(ci.Common()), "PutUint32") || len(ci.Common().Args) < 3 {
			return
		}
		v := ci.Common().Args[2]
		if cv, isCv := v.(*ssa.Convert); isCv {
			v = cv.X
		}
		bo, isBo := v.(*ssa.BinOp)
		if !isBo || bo.Op != token.ADD {
			return
		}
		k, isK := bo.Y.(*ssa.Const)
		call, isCall := bo.X.(*ssa.Call)
		if !isK || !isCall || k.Int64() != 4 {
			return
		}
		if bi, isBi := call.Call.Value.(*ssa.Builtin); isBi && bi.Name() == "len" {
			if ex, isEx := call.Call.Args[0].(*ssa.Extract); isEx && ex.Index == 1 {
				ok = true
			}
		}
	})
	return ok
}

// ---------------------------------------------------------------------------------------
// C09: symbol ordering, same code in both formats, bounded name copies
// ---------------------------------------------------------------------------------------

func ruleSymSort(c *Ctx) {
	c.doc("S9", "user symbols are ordered with a stable sort over exactly the entries after the four fixed ones; the comparator reads only SectionNumber and Value (never the name) and orders by Value ascending")
	f := c.L.SSAFunc("internal/filefmt", "(*CoffFormat).generateSymbolEntries")
	if f == nil {
		c.anchorMissing("S9", "filefmt.(*CoffFormat).generateSymbolEntries")
		return
	}
	n := 0
	callsIn(f, func(ci ssa.CallInstruction) {
		name := calleeName(ci.Common())
		if !strings.HasPrefix(name, "sort.") && !strings.HasPrefix(name, "slices.Sort") {
			return
		}
		n++
		pos := c.L.Pos(instrPos(ci))
		c.check(name == "sort.SliceStable" || name == "slices.SortStableFunc", "S9", "generateSymbolEntries|stable", pos, "symbols with equal keys must keep declaration order: "+name+" is not a stable sort")
		// sorted range starts after the fixed entries
		var low ssa.Value
		arg := ci.Common().Args[0]
		if mi, ok := arg.(*ssa.MakeInterface); ok {
			arg = mi.X
		}
		if sl, ok := arg.(*ssa.Slice); ok {
			low = sl.Low
		}
		k, ok := low.(*ssa.Const)
		c.check(ok && k.Int64() == 4, "S9", "generateSymbolEntries|sorted range", pos, "the sort must cover exactly the entries after .file and the three section symbols (slice from index 4)")
		// comparator
		var cmp *ssa.Function
		if mc, ok := ci.Common().Args[1].(*ssa.MakeClosure); ok {
			cmp = mc.Fn.(*ssa.Function)
		} else if fn, ok := ci.Common().Args[1].(*ssa.Function); ok {
			cmp = fn
		}
		if cmp == nil {
			c.fail("S9", "generateSymbolEntries|comparator", pos, "undecided: comparator is not a function literal")
			return
		}
		fields := map[string]bool{}
		var lss []*ssa.BinOp
		for _, b := range cmp.Blocks {
			for _, in := range b.Instrs {
				switch x := in.(type) {
				case *ssa.FieldAddr:
					fields[fieldName(x)] = true
				case *ssa.Field:
					if st, ok := x.X.Type().Underlying().(*types.Struct); ok {
						fields[st.Field(x.Field).Name()] = true
					}
				case *ssa.BinOp:
					if x.Op == token.LSS || x.Op == token.GTR {
						lss = append(lss, x)
					}
				}
			}
		}
		var fl []string
		bad := false
		for _, k := range sortedKeys(fields) {
			fl = append(fl, k)
			if k != "Main" && k != "SectionNumber" && k != "Value" {
				bad = true
			}
		}
		c.check(!bad && fields["Value"] && fields["SectionNumber"], "S9", "generateSymbolEntries|comparator keys", c.L.Pos(cmp.Pos()), fmt.Sprintf("comparator reads fields %v; it must order by (undefined last, Value) and never by name", fl))
		// Value ascending: Value(i) < Value(j)
		asc := false
		for _, b := range lss {
			xi, yi := derivesFromParam(b.X, cmp.Params[0]), derivesFromParam(b.Y, cmp.Params[1])
			xj, yj := derivesFromParam(b.X, cmp.Params[1]), derivesFromParam(b.Y, cmp.Params[0])
			if isFieldLoad(b.X, "Value") && isFieldLoad(b.Y, "Value") {
				if (b.Op == token.LSS && xi && yi) || (b.Op == token.GTR && xj && yj) {
					asc = true
				}
			}
		}
		c.check(asc, "S9", "generateSymbolEntries|ascending by value", c.L.Pos(cmp.Pos()), "less(i,j) must be Value[i] < Value[j] (defined symbols in address order)")
	})
	c.check(n == 1, "S9", "generateSymbolEntries|one sort", c.L.Pos(f.Pos()), fmt.Sprintf("expected exactly one sort of the symbol entries, found %d", n))
	c.floor("S9", 5)
}

func derivesFromParam(v ssa.Value, p *ssa.Parameter) bool {
	seen := map[ssa.Value]bool{}
	var walk func(ssa.Value) bool
	walk = func(x ssa.Value) bool {
		if x == p {
			return true
		}
		if seen[x] {
			return false
		}
		seen[x] = true
		if in, ok := x.(ssa.Instruction); ok {
			for _, op := range in.Operands(nil) {
				if op != nil && *op != nil && walk(*op) {
					return true
				}
			}
		}
		return false
	}
	return walk(v)
}

func ruleF4(c *Ctx) {
	c.doc("F4", "both output paths write the field CodeGenContext.MachineCode unmodified, and that field is stored only by the emission loop")
	// writers of the field
	for _, f := range c.L.RepoFuncs() {
		if c.isGeneratedFn(f) {
			continue
		}
		for _, b := range f.Blocks {
			for _, in := range b.Instrs {
				st, ok := in.(*ssa.Store)
				if !ok {
					continue
				}
				fa, ok := st.Addr.(*ssa.FieldAddr)
				if !ok || fieldName(fa) != "MachineCode" || !namedTypeIs(fa.X.Type(), "internal/codegen", "CodeGenContext") {
					continue
				}
				key := shortName(f) + "|store MachineCode"
				top := shortName(outermost(f))
				switch {
				case top == "internal/codegen.GenerateX86":
					c.ok("F4", key, c.L.Pos(instrPos(in)), "emission loop result")
				case isFreshAlloc(fa.X):
					c.ok("F4", key, c.L.Pos(instrPos(in)), "initialisation of a fresh context")
				default:
					c.fail("F4", key, c.L.Pos(instrPos(in)), "CodeGenContext.MachineCode is modified outside the emission loop: the flat binary and the .text section could differ from the generated code")
				}
			}
		}
	}
	// the flat write
	f := c.L.SSAFunc("internal/frontend", "Exec")
	if f == nil {
		c.anchorMissing("F4", "internal/frontend.Exec")
		return
	}
	n := 0
	callsIn(f, func(ci ssa.CallInstruction) {
		if calleeName(ci.Common()) == "(*os.File).Write" {
			n++
			c.check(isFieldLoad(ci.Common().Args[1], "MachineCode"), "F4", "internal/frontend.Exec|flat write source", c.L.Pos(instrPos(ci)), "the flat binary must be exactly ctx.MachineCode")
		}
	})
	c.check(n == 1, "F4", "internal/frontend.Exec|one flat write", c.L.Pos(f.Pos()), fmt.Sprintf("%d flat writes", n))
	// the COFF write: covered by the P4 label "machinecode"; re-check source here
	w := c.L.SSAFunc("internal/filefmt", "(*CoffFormat).Write")
	if w == nil {
		c.anchorMissing("F4", "filefmt.(*CoffFormat).Write")
		return
	}
	m := 0
	callsIn(w, func(ci ssa.CallInstruction) {
		if calleeName(ci.Common()) == "(*bytes.Buffer).Write" && isFieldLoad(ci.Common().Args[1], "MachineCode") {
			m++
		}
	})
	c.check(m == 1, "F4", "filefmt.Write|.text source", c.L.Pos(w.Pos()), fmt.Sprintf(".text raw data must be ctx.MachineCode written once; found %d such writes", m))
	// same context object on both paths: format.Write receives the ctx whose MachineCode the flat path writes
	c.floor("F4", 4)
}

func isFreshAlloc(v ssa.Value) bool {
	_, ok := v.(*ssa.Alloc)
	return ok
}

func ruleBoundedCopy(c *Ctx) {
	c.doc("B9", "a copy of a caller-supplied name into a fixed-size COFF field is preceded by a test of its length (otherwise the name is truncated silently)")
	total := 0
	for _, f := range c.L.RepoFuncs() {
		if pkgRel(f) != "internal/filefmt" {
			continue
		}
		n := 0
		for _, b := range f.Blocks {
			for _, in := range b.Instrs {
				call, ok := in.(*ssa.Call)
				if !ok {
					continue
				}
				bi, ok := call.Call.Value.(*ssa.Builtin)
				if !ok || bi.Name() != "copy" {
					continue
				}
				dst, src := call.Call.Args[0], call.Call.Args[1]
				if !fixedSizeBuf(dst) || !isStringish(src) {
					continue
				}
				n++
				total++
				key := fmt.Sprintf("%s|name copy#%d", shortName(f), n)
				// the destination is the whole field: a window that stops short of a fixed-size
				// buffer (record[:17] of an 18-byte record) loses the last byte of a name that
				// fills the field
				if sl, ok := dst.(*ssa.Slice); ok && sl.Low == nil {
					if hk, ok := sl.High.(*ssa.Const); ok && isIntConst(hk) {
						if full, ok := staticLen(sl.X); ok && hk.Int64() < full {
							c.fail("B9", key+" destination", c.L.Pos(instrPos(in)), fmt.Sprintf("the name is copied into the first %d bytes of a %d-byte field: a name that fills the field loses its last byte(s)", hk.Int64(), full))
						}
					}
				}
				// headerBuf/sectionHeaderBuf copies into finalBytes slices: source length is checked explicitly
				if constStringSource(src) {
					c.ok("B9", key, c.L.Pos(instrPos(in)), "source is a constant string")
					continue
				}
				if lengthTested(f, src, b) {
					c.ok("B9", key, c.L.Pos(instrPos(in)), "length of the source is tested before the copy")
					continue
				}
				c.fail("B9", key, c.L.Pos(instrPos(in)), "copy into a fixed-size field without a length test: longer input is truncated without a diagnostic")
			}
		}
	}
	c.floor("B9", 3)
}

func fixedSizeBuf(v ssa.Value) bool {
	switch x := v.(type) {
	case *ssa.Slice:
		// slice of an array (Alloc of [N]byte) or of a const-size make
		if x.Low != nil || x.High != nil {
			// finalBytes[a:b] — bounded window
			return true
		}
		return fixedSizeBuf(x.X)
	case *ssa.Alloc:
		if p, ok := x.Type().Underlying().(*types.Pointer); ok {
			_, isArr := p.Elem().Underlying().(*types.Array)
			return isArr
		}
	case *ssa.MakeSlice:
		_, ok := x.Len.(*ssa.Const)
		return ok
	}
	return false
}

func constStringSource(v ssa.Value) bool {
	seen := map[ssa.Value]bool{}
	var walk func(ssa.Value) bool
	walk = func(x ssa.Value) bool {
		if seen[x] {
			return true
		}
		seen[x] = true
		switch y := x.(type) {
		case *ssa.Const:
			return true
		case *ssa.Phi:
			for _, e := range y.Edges {
				if !walk(e) {
					return false
				}
			}
			return true
		case *ssa.UnOp:
			if y.Op == token.MUL {
				return walk(y.X)
			}
		case *ssa.IndexAddr:
			return walk(y.X)
		case *ssa.Slice:
			return walk(y.X)
		case *ssa.Alloc:
			// array literal of constants: every store into it is a constant
			if y.Referrers() == nil {
				return false
			}
			for _, r := range *y.Referrers() {
				switch z := r.(type) {
				case *ssa.IndexAddr:
					if z.Referrers() != nil {
						for _, r2 := range *z.Referrers() {
							if st, ok := r2.(*ssa.Store); ok && st.Addr == z {
								if _, ok := st.Val.(*ssa.Const); !ok {
									return false
								}
							}
						}
					}
				}
			}
			return true
		case *ssa.Convert:
			return walk(y.X)
		}
		return false
	}
	return walk(v)
}

// lengthTested: some comparison involving len(src) (same SSA value, or a value src was
// converted from) sits in a block that dominates blk.
func lengthTested(f *ssa.Function, src ssa.Value, blk *ssa.BasicBlock) bool {
	alias := map[ssa.Value]bool{src: true}
	if cv, ok := src.(*ssa.Convert); ok {
		alias[cv.X] = true
	}
	for _, b := range f.Blocks {
		if !b.Dominates(blk) {
			continue
		}
		for _, in := range b.Instrs {
			bo, ok := in.(*ssa.BinOp)
			if !ok {
				continue
			}
			for _, side := range []ssa.Value{bo.X, bo.Y} {
				if call, ok := side.(*ssa.Call); ok {
					if bi, ok := call.Call.Value.(*ssa.Builtin); ok && bi.Name() == "len" && alias[call.Call.Args[0]] {
						return true
					}
				}
			}
		}
	}
	return false
}

// isStringish: the copy source is a string (copy(dst, s)) or a []byte converted from one.
func isStringish(v ssa.Value) bool {
	if isStringType(v.Type()) {
		return true
	}
	if cv, ok := v.(*ssa.Convert); ok {
		return isStringType(cv.X.Type())
	}
	return false
}
