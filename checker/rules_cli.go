package main

// C19: command-line contract. T9 (exit-code table), P6 (output discipline).

import (
	"fmt"
	"go/ast"
	"go/token"
	"go/types"
	"os"
	"strings"

	"golang.org/x/tools/go/packages"
	"golang.org/x/tools/go/ssa"
)

type exitSite struct {
	call   *ast.CallExpr
	code   int64
	codeOK bool
	guard  string // argcount | flag | err:<callee> | ok | unconditional | other
	prints []*ast.CallExpr
	errVar types.Object
}

// exitSites walks a function body and classifies every os.Exit call by the test guarding it.
func exitSites(p *packages.Package, body *ast.BlockStmt) []exitSite {
	info := p.TypesInfo
	var out []exitSite
	lastCall := map[types.Object]*ast.CallExpr{}
	errType := types.Universe.Lookup("error").Type()

	recordAssign := func(as *ast.AssignStmt) {
		if len(as.Rhs) != 1 {
			return
		}
		call, ok := ast.Unparen(as.Rhs[0]).(*ast.CallExpr)
		if !ok {
			// v, ok := x.(T)
			if ta, ok := ast.Unparen(as.Rhs[0]).(*ast.TypeAssertExpr); ok && len(as.Lhs) == 2 {
				_ = ta
			}
			return
		}
		for _, l := range as.Lhs {
			id, ok := l.(*ast.Ident)
			if !ok || id.Name == "_" {
				continue
			}
			obj := info.Defs[id]
			if obj == nil {
				obj = info.Uses[id]
			}
			if obj != nil && (types.Identical(obj.Type(), errType) || len(as.Lhs) == 1) {
				lastCall[obj] = call
			}
		}
	}

	var classify func(cond ast.Expr) (string, types.Object)
	classify = func(cond ast.Expr) (string, types.Object) {
		cond = ast.Unparen(cond)
		switch x := cond.(type) {
		case *ast.BinaryExpr:
			if x.Op == token.NEQ || x.Op == token.EQL {
				for _, pair := range [][2]ast.Expr{{x.X, x.Y}, {x.Y, x.X}} {
					if id, ok := ast.Unparen(pair[0]).(*ast.Ident); ok {
						if tv, ok := info.Types[pair[1]]; ok && tv.IsNil() {
							obj := info.Uses[id]
							if obj != nil && types.Identical(obj.Type(), errType) && x.Op == token.NEQ {
								if call := lastCall[obj]; call != nil {
									return "err:" + calleeLabel(info, call), obj
								}
								return "err:?", obj
							}
						}
					}
				}
			}
			// len(flag.Args()) < N
			for _, side := range []ast.Expr{x.X, x.Y} {
				if call, ok := ast.Unparen(side).(*ast.CallExpr); ok {
					if id, ok := call.Fun.(*ast.Ident); ok && id.Name == "len" && len(call.Args) == 1 {
						if inner, ok := ast.Unparen(call.Args[0]).(*ast.CallExpr); ok && isCallTo(info, inner, "flag", "", "Args") {
							return "argcount", nil
						}
						// args := flag.Args(); … len(args)
						if id, ok := ast.Unparen(call.Args[0]).(*ast.Ident); ok {
							if obj := info.Uses[id]; obj != nil {
								if dc := lastCall[obj]; dc != nil && isCallTo(info, dc, "flag", "", "Args") {
									return "argcount", nil
								}
							}
						}
						if sel, ok := ast.Unparen(call.Args[0]).(*ast.SelectorExpr); ok {
							if x, ok := sel.X.(*ast.Ident); ok && x.Name == "os" && sel.Sel.Name == "Args" {
								return "argcount", nil
							}
						}
					}
				}
			}
			if x.Op == token.LOR || x.Op == token.LAND {
				g1, o1 := classify(x.X)
				if g1 != "other" {
					return g1, o1
				}
				return classify(x.Y)
			}
		case *ast.UnaryExpr:
			if x.Op == token.NOT {
				if id, ok := ast.Unparen(x.X).(*ast.Ident); ok {
					if b, ok := info.TypeOf(id).Underlying().(*types.Basic); ok && b.Kind() == types.Bool {
						return "ok:" + id.Name, nil
					}
				}
			}
		case *ast.StarExpr:
			return "flag", nil
		}
		return "other", nil
	}

	var walk func(list []ast.Stmt, guard string, errObj types.Object, prints []*ast.CallExpr)
	walk = func(list []ast.Stmt, guard string, errObj types.Object, prints []*ast.CallExpr) {
		local := append([]*ast.CallExpr{}, prints...)
		for _, st := range list {
			switch s := st.(type) {
			case *ast.AssignStmt:
				recordAssign(s)
			case *ast.ExprStmt:
				if call, ok := s.X.(*ast.CallExpr); ok {
					if isCallTo(info, call, "os", "", "Exit") && len(call.Args) == 1 {
						v, ok := constInt(info, call.Args[0])
						out = append(out, exitSite{call: call, code: v, codeOK: ok, guard: guard, prints: append([]*ast.CallExpr{}, local...), errVar: errObj})
					} else if fn, ok := calleeOf(info, call).(*types.Func); ok && fn.Pkg() != nil && fn.Pkg().Path() == "fmt" {
						local = append(local, call)
					}
				}
			case *ast.IfStmt:
				if as, ok := s.Init.(*ast.AssignStmt); ok {
					recordAssign(as)
				}
				g, o := classify(s.Cond)
				walk(s.Body.List, g, o, nil)
				if s.Else != nil {
					switch e := s.Else.(type) {
					case *ast.BlockStmt:
						walk(e.List, guard, errObj, local)
					case *ast.IfStmt:
						walk([]ast.Stmt{e}, guard, errObj, local)
					}
				}
			case *ast.BlockStmt:
				walk(s.List, guard, errObj, local)
			case *ast.SwitchStmt:
				for _, cc := range s.Body.List {
					walk(cc.(*ast.CaseClause).Body, guard, errObj, local)
				}
			case *ast.ForStmt:
				walk(s.Body.List, guard, errObj, local)
			case *ast.RangeStmt:
				walk(s.Body.List, guard, errObj, local)
			}
		}
	}
	walk(body.List, "unconditional", nil, nil)
	return out
}

func calleeLabel(info *types.Info, call *ast.CallExpr) string {
	if fn, ok := calleeOf(info, call).(*types.Func); ok {
		if fn.Pkg() != nil {
			short := fn.Pkg().Path()
			short = strings.TrimPrefix(short, modPath+"/")
			sig := fn.Type().(*types.Signature)
			if sig.Recv() != nil {
				t := sig.Recv().Type()
				if pt, ok := t.(*types.Pointer); ok {
					t = pt.Elem()
				}
				if n, ok := t.(*types.Named); ok {
					return short + "." + n.Obj().Name() + "." + fn.Name()
				}
			}
			return short + "." + fn.Name()
		}
		return fn.Name()
	}
	return "?"
}

var ioFailureCallees = map[string]string{
	"os.Stat": "source", "os.Lstat": "source", "os.ReadFile": "source", "os.Open": "source", "cmd/gosk.readAssets": "source",
	"io.ReadAll": "source", "os.OpenFile": "destination", "os.Create": "destination",
}

func ruleT9(c *Ctx) {
	c.doc("T9", "every os.Exit site carries the status the CLI contract assigns to the failure guarding it: missing arguments 16, unreadable source / uncreatable output 17, parse / pass-2 / write failure non-zero, success 0")
	sites := 0
	have := map[string]bool{}
	for _, t := range []struct{ pkg, fn string }{{"cmd/gosk", "main"}, {"internal/frontend", "Exec"}} {
		fd, p := c.L.FuncDecl(t.pkg, t.fn)
		if fd == nil {
			c.anchorMissing("T9", t.pkg+"."+t.fn)
			continue
		}
		for _, s := range exitSites(p, fd.Body) {
			sites++
			key := fmt.Sprintf("%s.%s|exit on %s", t.pkg, t.fn, s.guard)
			pos := c.L.Pos(s.call.Pos())
			if !s.codeOK {
				c.fail("T9", key, pos, "undecided: exit status is not a constant")
				continue
			}
			status := s.code & 0xff
			switch {
			case s.guard == "argcount":
				have["argcount"] = true
				c.check(s.code == 16, "T9", key, pos, fmt.Sprintf("missing arguments must exit 16, exits %d", s.code))
			case s.guard == "flag":
				c.check(s.code == 0, "T9", key, pos, fmt.Sprintf("informational flag must exit 0, exits %d", s.code))
			case s.guard == "unconditional":
				have["success"] = true
				c.check(s.code == 0, "T9", key, pos, fmt.Sprintf("the success path must exit 0, exits %d", s.code))
			case strings.HasPrefix(s.guard, "err:"):
				callee := strings.TrimPrefix(s.guard, "err:")
				if kind, ok := ioFailureCallees[callee]; ok {
					have[kind] = true
					c.check(s.code == 17, "T9", key, pos, fmt.Sprintf("failure to read the source / create the output (%s) must exit 17, exits %d", callee, s.code))
				} else {
					if strings.HasSuffix(callee, "gen.Parse") {
						have["parse"] = true
						// the message must carry the parser's error (which holds line:col)
						hasErr := false
						for _, pr := range s.prints {
							for _, a := range pr.Args {
								if id, ok := ast.Unparen(a).(*ast.Ident); ok && p.TypesInfo.Uses[id] == s.errVar {
									hasErr = true
								}
							}
						}
						c.check(hasErr, "T9", key+"|message", pos, "the parse-failure message must include the parser error (it carries the position)")
					}
					c.check(status != 0, "T9", key, pos, fmt.Sprintf("failure of %s must exit non-zero, exits %d", callee, s.code))
				}
			case strings.HasPrefix(s.guard, "ok:"):
				c.check(status != 0, "T9", key, pos, fmt.Sprintf("failure (%s) must exit non-zero, exits %d", s.guard, s.code))
			default:
				c.fail("T9", key, pos, "undecided: exit guarded by a condition the rule does not classify")
			}
		}
	}
	for _, need := range []string{"argcount", "source", "destination", "parse", "success"} {
		c.check(have[need], "T9", "contract-case|"+need, "", "no os.Exit site implements the contract case: "+need)
	}
	// the argument-count test itself
	if fd, p := c.L.FuncDecl("cmd/gosk", "main"); fd != nil {
		found := false
		ast.Inspect(fd.Body, func(n ast.Node) bool {
			be, ok := n.(*ast.BinaryExpr)
			if !ok {
				return true
			}
			call, ok := ast.Unparen(be.X).(*ast.CallExpr)
			if !ok {
				return true
			}
			if id, ok := call.Fun.(*ast.Ident); !ok || id.Name != "len" {
				return true
			}
			v, ok := constInt(p.TypesInfo, be.Y)
			if !ok {
				return true
			}
			found = true
			good := (be.Op == token.LSS && v == 2) || (be.Op == token.LEQ && v == 1) || (be.Op == token.NEQ && v == 2)
			c.check(good, "T9", "cmd/gosk.main|argument-count test", c.L.Pos(be.Pos()), fmt.Sprintf("source and output are both required: test is `len(args) %s %d`", be.Op, v))
			return true
		})
		if !found {
			c.anchorMissing("T9", "cmd/gosk.main: len(args) comparison")
		}
	}
	c.analysed["T9_exit_sites"] = sites
	c.floor("T9", 11)
}

// ---------------------------------------------------------------------------------------
// P6: output discipline
// ---------------------------------------------------------------------------------------

func ruleP6(c *Ctx) {
	c.doc("P6", "the destination is opened with create+truncate; no failing exit follows a successful write of the image; the image is written exactly once per format")
	// (a) open flags
	opens := 0
	for _, f := range c.L.RepoFuncs() {
		if c.isGeneratedFn(f) {
			continue
		}
		pk := pkgRel(f)
		if pk != "internal/frontend" && pk != "internal/filefmt" {
			continue
		}
		callsIn(f, func(ci ssa.CallInstruction) {
			n := calleeName(ci.Common())
			switch n {
			case "os.OpenFile":
				opens++
				key := shortName(f) + "|os.OpenFile flags"
				k, ok := ci.Common().Args[1].(*ssa.Const)
				if !ok || k.Value == nil {
					c.fail("P6", key, c.L.Pos(instrPos(ci)), "undecided: open flags are not constant")
					return
				}
				fl := int(k.Int64())
				acc := fl & (os.O_RDONLY | os.O_WRONLY | os.O_RDWR)
				good := fl&os.O_CREATE != 0 && fl&os.O_TRUNC != 0 && (acc == os.O_WRONLY || acc == os.O_RDWR) && fl&os.O_APPEND == 0
				c.check(good, "P6", key, c.L.Pos(instrPos(ci)), fmt.Sprintf("destination must be opened writable with O_CREATE|O_TRUNC and without O_APPEND (stale bytes of a longer previous file would survive); flags=%#x", fl))
			case "os.Create":
				opens++
				c.ok("P6", shortName(f)+"|os.Create", c.L.Pos(instrPos(ci)), "os.Create truncates")
			}
		})
	}
	c.check(opens >= 2, "P6", "destination-open-sites", "", fmt.Sprintf("found %d open/create sites for the destination (flat path and COFF path expected)", opens))

	// (b) no failing exit after a successful write, exactly one image write per path
	f := c.L.SSAFunc("internal/frontend", "Exec")
	if f == nil {
		c.anchorMissing("P6", "internal/frontend.Exec")
		return
	}
	type wsite struct {
		in  ssa.CallInstruction
		lbl string
	}
	var writes []wsite
	callsIn(f, func(ci ssa.CallInstruction) {
		cc := ci.Common()
		n := calleeName(cc)
		if n == "(*os.File).Write" || n == "(*os.File).WriteString" || n == "(*os.File).WriteAt" || n == "os.WriteFile" {
			writes = append(writes, wsite{ci, n})
		}
		if cc.IsInvoke() && cc.Method.Name() == "Write" && namedTypeIs(cc.Value.Type(), "internal/filefmt", "FileFormat") {
			writes = append(writes, wsite{ci, "FileFormat.Write"})
		}
	})
	c.check(len(writes) == 2, "P6", "internal/frontend.Exec|image writes", c.L.Pos(f.Pos()), fmt.Sprintf("expected exactly one flat write and one format write, found %d", len(writes)))
	for i, w := range writes {
		for j, w2 := range writes {
			if i != j && w.in.Block().Dominates(w2.in.Block()) {
				c.fail("P6", fmt.Sprintf("internal/frontend.Exec|%s then %s", w.lbl, w2.lbl), c.L.Pos(instrPos(w2.in)), "two image writes on one path (output would contain the image twice or be overwritten)")
			}
		}
	}
	for _, w := range writes {
		failBlocks := errBranchBlocks(w.in)
		for _, b := range f.Blocks {
			if !w.in.Block().Dominates(b) || b == w.in.Block() {
				continue
			}
			for _, in := range b.Instrs {
				ci, ok := in.(ssa.CallInstruction)
				if !ok || calleeName(ci.Common()) != "os.Exit" {
					continue
				}
				k, ok := ci.Common().Args[0].(*ssa.Const)
				if ok && k.Int64()&0xff == 0 {
					continue
				}
				key := fmt.Sprintf("internal/frontend.Exec|exit after %s", w.lbl)
				if failBlocks[b] {
					c.ok("P6", key, c.L.Pos(instrPos(in)), "failing exit is in the error branch of the write")
				} else {
					c.fail("P6", key, c.L.Pos(instrPos(in)), "a failing exit is reachable after the image was written successfully")
				}
			}
		}
	}
	// (c) the write happens after pass 2 (never a partially assembled image): the write is
	// dominated by the pass-2 call and by its error test
	var p2 ssa.CallInstruction
	callsIn(f, func(ci ssa.CallInstruction) {
		if strings.HasSuffix(calleeName(ci.Common()), "pass2.Pass2).Eval") {
			p2 = ci
		}
	})
	if p2 == nil {
		c.anchorMissing("P6", "internal/frontend.Exec: call of (*pass2.Pass2).Eval")
	} else {
		for _, w := range writes {
			c.check(p2.Block().Dominates(w.in.Block()) && p2.Block() != w.in.Block(), "P6", "internal/frontend.Exec|"+w.lbl+" after pass 2", c.L.Pos(instrPos(w.in)),
				"the image must be written only after pass 2 has completed and its error was tested")
		}
	}
	c.floor("P6", 6)
}

// errBranchBlocks: blocks dominated by the true-successor of `if err != nil` on the error
// result of call ci.
func errBranchBlocks(ci ssa.CallInstruction) map[*ssa.BasicBlock]bool {
	out := map[*ssa.BasicBlock]bool{}
	v, ok := ci.(ssa.Value)
	if !ok || v.Referrers() == nil {
		return out
	}
	var errVals []ssa.Value
	if _, isTuple := v.Type().(*types.Tuple); isTuple {
		for _, r := range *v.Referrers() {
			if ex, ok := r.(*ssa.Extract); ok && types.Identical(ex.Type(), types.Universe.Lookup("error").Type()) {
				errVals = append(errVals, ex)
			}
		}
	} else {
		errVals = append(errVals, v)
	}
	f := ci.Parent()
	// (value, ok bool): the branch on which ok is false
	if tup, isTuple := v.Type().(*types.Tuple); isTuple && tup.Len() >= 2 && isBoolType(tup.At(tup.Len()-1).Type()) {
		for _, r := range *v.Referrers() {
			ex, ok := r.(*ssa.Extract)
			if !ok || ex.Index != tup.Len()-1 || ex.Referrers() == nil {
				continue
			}
			mark := func(t *ssa.BasicBlock) {
				for _, b := range f.Blocks {
					if t.Dominates(b) {
						out[b] = true
					}
				}
			}
			for _, r2 := range *ex.Referrers() {
				switch y := r2.(type) {
				case *ssa.If:
					if len(y.Block().Succs[1].Preds) == 1 {
						mark(y.Block().Succs[1])
					}
				case *ssa.UnOp:
					if y.Op == token.NOT && y.Referrers() != nil {
						for _, r3 := range *y.Referrers() {
							if iff, ok := r3.(*ssa.If); ok && len(iff.Block().Succs[0].Preds) == 1 {
								mark(iff.Block().Succs[0])
							}
						}
					}
				}
			}
		}
	}
	for _, ev := range errVals {
		if ev.Referrers() == nil {
			continue
		}
		for _, r := range *ev.Referrers() {
			bo, ok := r.(*ssa.BinOp)
			if !ok || bo.Op != token.NEQ || bo.Referrers() == nil {
				continue
			}
			for _, r2 := range *bo.Referrers() {
				iff, ok := r2.(*ssa.If)
				if !ok {
					continue
				}
				t := iff.Block().Succs[0]
				for _, b := range f.Blocks {
					if t.Dominates(b) {
						out[b] = true
					}
				}
			}
		}
	}
	return out
}
