package main

// Loading of the repository under analysis: go/packages (full syntax + types for all
// packages incl. dependencies) and, lazily, go/ssa + call graph.

import (
	"fmt"
	"go/ast"
	"go/token"
	"go/types"
	"os"
	"path/filepath"
	"sort"
	"strings"

	"golang.org/x/tools/go/callgraph"
	"golang.org/x/tools/go/callgraph/cha"
	"golang.org/x/tools/go/callgraph/vta"
	"golang.org/x/tools/go/packages"
	"golang.org/x/tools/go/ssa"
	"golang.org/x/tools/go/ssa/ssautil"
)

const modPath = "github.com/HobbyOSs/gosk"

type Loaded struct {
	Root  string // repository root directory
	Fset  *token.FileSet
	Pkgs  []*packages.Package          // the repository's own packages
	ByPth map[string]*packages.Package // every loaded package (incl. deps) by import path
	Prog  *ssa.Program                 // nil until SSA() is called
	cg    *callgraph.Graph
	cgVTA bool
}

func loadRepo(root string, overlay map[string][]byte) (*Loaded, error) {
	env := append(os.Environ(),
		"GOFLAGS=-mod=mod", "GOPROXY=off", "GOSUMDB=off", "GOTOOLCHAIN=local", "GOWORK=off")
	cfg := &packages.Config{
		Mode:       packages.LoadAllSyntax,
		Dir:        root,
		Env:        env,
		Tests:      false,
		BuildFlags: []string{"-tags=verif"},
		Overlay:    overlay,
	}
	pkgs, err := packages.Load(cfg, "./...")
	if err != nil {
		return nil, fmt.Errorf("packages.Load: %w", err)
	}
	if len(pkgs) == 0 {
		return nil, fmt.Errorf("no packages loaded from %s", root)
	}
	l := &Loaded{Root: root, ByPth: map[string]*packages.Package{}}
	var errs []string
	packages.Visit(pkgs, nil, func(p *packages.Package) {
		l.ByPth[p.PkgPath] = p
		if strings.HasPrefix(p.PkgPath, modPath) {
			for _, e := range p.Errors {
				errs = append(errs, e.Error())
			}
		}
	})
	if len(errs) > 0 {
		return nil, fmt.Errorf("type/load errors in %s: %s", root, strings.Join(errs, "; "))
	}
	for _, p := range pkgs {
		if strings.HasPrefix(p.PkgPath, modPath) {
			l.Pkgs = append(l.Pkgs, p)
			if l.Fset == nil {
				l.Fset = p.Fset
			}
		}
	}
	sort.Slice(l.Pkgs, func(i, j int) bool { return l.Pkgs[i].PkgPath < l.Pkgs[j].PkgPath })
	if len(l.Pkgs) == 0 {
		return nil, fmt.Errorf("no packages of module %s under %s", modPath, root)
	}
	return l, nil
}

// Pkg returns a repository package by its path relative to the module ("internal/codegen").
func (l *Loaded) Pkg(rel string) *packages.Package {
	return l.ByPth[modPath+"/"+rel]
}

// Pos renders a position relative to the repository root.
func (l *Loaded) Pos(p token.Pos) string {
	if !p.IsValid() {
		return "?"
	}
	pos := l.Fset.Position(p)
	fn := pos.Filename
	if r, err := filepath.Rel(l.Root, fn); err == nil && !strings.HasPrefix(r, "..") {
		fn = r
	}
	return fmt.Sprintf("%s:%d", fn, pos.Line)
}

// FileOf returns the repo-relative file name of a position.
func (l *Loaded) FileOf(p token.Pos) string {
	if !p.IsValid() {
		return ""
	}
	fn := l.Fset.Position(p).Filename
	if r, err := filepath.Rel(l.Root, fn); err == nil {
		return r
	}
	return fn
}

// isGenerated reports whether the file holding pos carries the standard generated-code header.
func (l *Loaded) isGeneratedFile(f *ast.File) bool {
	for _, cg := range f.Comments {
		if cg.Pos() > f.Package {
			break
		}
		for _, c := range cg.List {
			if strings.HasPrefix(c.Text, "// Code generated") && strings.HasSuffix(c.Text, "DO NOT EDIT.") {
				return true
			}
		}
	}
	return false
}

// FuncDecl finds a function or method declaration. name is "Func" or "(*T).M" / "T.M".
func (l *Loaded) FuncDecl(rel, name string) (*ast.FuncDecl, *packages.Package) {
	p := l.Pkg(rel)
	if p == nil {
		return nil, nil
	}
	recv, fn := "", name
	if i := strings.LastIndex(name, "."); i >= 0 {
		recv, fn = strings.Trim(name[:i], "()*"), name[i+1:]
	}
	for _, f := range p.Syntax {
		for _, d := range f.Decls {
			fd, ok := d.(*ast.FuncDecl)
			if !ok || fd.Name.Name != fn {
				continue
			}
			if recv == "" && fd.Recv == nil {
				return fd, p
			}
			if recv != "" && fd.Recv != nil && len(fd.Recv.List) == 1 {
				t := fd.Recv.List[0].Type
				if s, ok := t.(*ast.StarExpr); ok {
					t = s.X
				}
				if id, ok := t.(*ast.Ident); ok && id.Name == recv {
					return fd, p
				}
			}
		}
	}
	// the same code as a function instead of a method, or on another receiver type: the one
	// declaration of that bare name in the package, if there is exactly one
	var only *ast.FuncDecl
	cnt := 0
	for _, f := range p.Syntax {
		for _, d := range f.Decls {
			if fd, ok := d.(*ast.FuncDecl); ok && fd.Name.Name == fn && fd.Body != nil {
				only = fd
				cnt++
			}
		}
	}
	if cnt == 1 {
		return only, p
	}
	// renamed: the one function of the package with the shape this anchor has
	if finder, ok := shapeAnchors[rel+"."+fn]; ok {
		var match *ast.FuncDecl
		m := 0
		for _, f := range p.Syntax {
			for _, d := range f.Decls {
				if fd, ok := d.(*ast.FuncDecl); ok && fd.Body != nil && finder(p, fd) {
					match = fd
					m++
				}
			}
		}
		if m == 1 {
			return match, p
		}
	}
	return nil, p
}

// shapeAnchors: for anchors whose function is identified by what it is rather than what it is
// called — used only when no declaration of the expected name exists.
var shapeAnchors = map[string]func(p *packages.Package, fd *ast.FuncDecl) bool{
	// the displacement-width classifier: func(int64) int
	"internal/codegen.getOffsetSize": func(p *packages.Package, fd *ast.FuncDecl) bool {
		fn, _ := p.TypesInfo.Defs[fd.Name].(*types.Func)
		if fn == nil || fd.Recv != nil {
			return false
		}
		sig := fn.Type().(*types.Signature)
		if sig.Params().Len() != 1 || sig.Results().Len() != 1 {
			return false
		}
		pb, ok1 := sig.Params().At(0).Type().Underlying().(*types.Basic)
		rb, ok2 := sig.Results().At(0).Type().Underlying().(*types.Basic)
		return ok1 && ok2 && pb.Kind() == types.Int64 && rb.Kind() == types.Int
	},
	// the symbol-name encoder: takes the name, returns the 8-byte name field
	"internal/filefmt.convertNameToBytes": func(p *packages.Package, fd *ast.FuncDecl) bool {
		fn, _ := p.TypesInfo.Defs[fd.Name].(*types.Func)
		if fn == nil {
			return false
		}
		sig := fn.Type().(*types.Signature)
		if sig.Results().Len() != 1 || sig.Params().Len() < 1 {
			return false
		}
		arr, ok := sig.Results().At(0).Type().Underlying().(*types.Array)
		if !ok || arr.Len() != 8 {
			return false
		}
		pb, ok := sig.Params().At(0).Type().Underlying().(*types.Basic)
		return ok && pb.Kind() == types.String
	},
}

// AllFuncDecls calls fn for every function declaration (with body) of the repository's
// own packages.
func (l *Loaded) AllFuncDecls(fn func(p *packages.Package, f *ast.File, fd *ast.FuncDecl)) {
	for _, p := range l.Pkgs {
		for _, f := range p.Syntax {
			for _, d := range f.Decls {
				if fd, ok := d.(*ast.FuncDecl); ok && fd.Body != nil {
					fn(p, f, fd)
				}
			}
		}
	}
}

// ---- SSA ----

func (l *Loaded) SSA() *ssa.Program {
	if l.Prog != nil {
		return l.Prog
	}
	var roots []*packages.Package
	roots = append(roots, l.Pkgs...)
	prog, _ := ssautil.AllPackages(roots, ssa.InstantiateGenerics)
	prog.Build()
	l.Prog = prog
	return prog
}

func (l *Loaded) SSAPkg(rel string) *ssa.Package {
	p := l.Pkg(rel)
	if p == nil {
		return nil
	}
	return l.SSA().Package(p.Types)
}

// SSAFunc finds a function or method: "Func", "(*T).M", "T.M".
func (l *Loaded) SSAFunc(rel, name string) *ssa.Function {
	if f := l.ssaFuncExact(rel, name); f != nil {
		return f
	}
	// fall back on the one declaration of that bare name (function <-> method, other receiver)
	fd, p := l.FuncDecl(rel, name)
	if fd == nil || p == nil {
		return nil
	}
	obj, _ := p.TypesInfo.Defs[fd.Name].(*types.Func)
	if obj == nil {
		return nil
	}
	return l.SSA().FuncValue(obj)
}

func (l *Loaded) ssaFuncExact(rel, name string) *ssa.Function {
	sp := l.SSAPkg(rel)
	if sp == nil {
		return nil
	}
	if i := strings.LastIndex(name, "."); i >= 0 {
		recv, fn := name[:i], name[i+1:]
		ptr := strings.HasPrefix(recv, "(*")
		tn := strings.Trim(recv, "()*")
		obj := sp.Pkg.Scope().Lookup(tn)
		if obj == nil {
			return nil
		}
		var t types.Type = obj.Type()
		if ptr {
			t = types.NewPointer(t)
		}
		ms := l.Prog.MethodSets.MethodSet(t)
		for i := 0; i < ms.Len(); i++ {
			if ms.At(i).Obj().Name() == fn {
				return l.Prog.MethodValue(ms.At(i))
			}
		}
		return nil
	}
	return sp.Func(name)
}

// RepoFuncs returns every SSA function (incl. anonymous ones and init) whose package is one
// of the repository's own packages.
func (l *Loaded) RepoFuncs() []*ssa.Function {
	prog := l.SSA()
	var out []*ssa.Function
	for fn := range ssautil.AllFunctions(prog) {
		if fn.Pkg == nil && fn.Parent() == nil {
			// instantiated generics of other packages have Pkg==nil; attribute via Origin
			continue
		}
		if inRepo(fn) {
			out = append(out, fn)
		}
	}
	sort.Slice(out, func(i, j int) bool { return out[i].String() < out[j].String() })
	return out
}

func inRepo(fn *ssa.Function) bool {
	for fn.Parent() != nil {
		fn = fn.Parent()
	}
	if fn.Pkg == nil || fn.Pkg.Pkg == nil {
		return false
	}
	return strings.HasPrefix(fn.Pkg.Pkg.Path(), modPath)
}

func pkgRel(fn *ssa.Function) string {
	for fn.Parent() != nil {
		fn = fn.Parent()
	}
	if fn.Pkg == nil || fn.Pkg.Pkg == nil {
		return ""
	}
	return strings.TrimPrefix(strings.TrimPrefix(fn.Pkg.Pkg.Path(), modPath), "/")
}

// CallGraph returns the CHA graph (quick) or the VTA graph seeded with CHA (thorough).
func (l *Loaded) CallGraph(useVTA bool) *callgraph.Graph {
	if l.cg != nil && l.cgVTA == useVTA {
		return l.cg
	}
	prog := l.SSA()
	g := cha.CallGraph(prog)
	if useVTA {
		g = vta.CallGraph(ssautil.AllFunctions(prog), g)
	}
	l.cg, l.cgVTA = g, useVTA
	return g
}

// Reachable returns the set of functions reachable from roots in g.
func Reachable(g *callgraph.Graph, roots ...*ssa.Function) map[*ssa.Function]*callgraph.Edge {
	seen := map[*ssa.Function]*callgraph.Edge{}
	var stack []*ssa.Function
	for _, r := range roots {
		if r != nil {
			if _, ok := seen[r]; !ok {
				seen[r] = nil
				stack = append(stack, r)
			}
		}
	}
	for len(stack) > 0 {
		fn := stack[len(stack)-1]
		stack = stack[:len(stack)-1]
		n := g.Nodes[fn]
		if n == nil {
			continue
		}
		for _, e := range n.Out {
			c := e.Callee.Func
			if _, ok := seen[c]; !ok {
				seen[c] = e
				stack = append(stack, c)
			}
		}
	}
	return seen
}

// pathTo reconstructs a call path root→fn from the predecessor edges recorded by Reachable.
func pathTo(reach map[*ssa.Function]*callgraph.Edge, fn *ssa.Function) string {
	var parts []string
	for i := 0; fn != nil && i < 64; i++ {
		parts = append([]string{fn.String()}, parts...)
		e := reach[fn]
		if e == nil {
			break
		}
		fn = e.Caller.Func
	}
	return strings.Join(parts, " -> ")
}
