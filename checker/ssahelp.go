package main

import (
	"go/token"
	"go/types"
	"golang.org/x/tools/go/ssa/ssautil"
	"strings"

	"golang.org/x/tools/go/ssa"
)

// rootOf strips address arithmetic, loads and representation changes from v and returns the
// value the access is rooted at (a Global, Alloc, Parameter, FreeVar, call result, …).
func rootOf(v ssa.Value) ssa.Value {
	for i := 0; i < 64; i++ {
		switch x := v.(type) {
		case *ssa.FieldAddr:
			v = x.X
		case *ssa.IndexAddr:
			v = x.X
		case *ssa.Field:
			v = x.X
		case *ssa.Index:
			v = x.X
		case *ssa.UnOp:
			if x.Op == token.MUL {
				v = x.X
			} else {
				return v
			}
		case *ssa.ChangeType:
			v = x.X
		case *ssa.Slice:
			v = x.X
		case *ssa.Lookup:
			v = x.X
		default:
			return v
		}
	}
	return v
}

// calleeName returns "pkgpath.Func" / "(pkgpath.T).M" for static calls, "" otherwise.
func calleeName(c *ssa.CallCommon) string {
	if f := c.StaticCallee(); f != nil {
		return funcName(f)
	}
	return ""
}

func funcName(f *ssa.Function) string {
	if f == nil {
		return ""
	}
	if o := f.Origin(); o != nil {
		f = o
	}
	return f.String()
}

// isInitFunc: the synthetic package initialiser or a declared init function.
func isInitFunc(f *ssa.Function) bool {
	if f.Parent() != nil {
		return false
	}
	n := f.Name()
	return n == "init" || strings.HasPrefix(n, "init#")
}

func instrPos(in ssa.Instruction) token.Pos {
	if p := in.Pos(); p.IsValid() {
		return p
	}
	// fall back to the nearest instruction with a position in the same block
	b := in.Block()
	for _, o := range b.Instrs {
		if p := o.Pos(); p.IsValid() {
			return p
		}
	}
	return in.Parent().Pos()
}

// outermost returns the top-level function enclosing an anonymous function.
func outermost(f *ssa.Function) *ssa.Function {
	for f.Parent() != nil {
		f = f.Parent()
	}
	return f
}

// shortName: "pkg.Func" with the module prefix removed, closures as Func$1.
func shortName(f *ssa.Function) string {
	s := funcName(f)
	s = strings.ReplaceAll(s, modPath+"/", "")
	return s
}

func isMapType(t types.Type) bool {
	_, ok := t.Underlying().(*types.Map)
	return ok
}

// callsIn yields every call instruction (call, go, defer) of f.
func callsIn(f *ssa.Function, fn func(ssa.CallInstruction)) {
	for _, b := range f.Blocks {
		for _, in := range b.Instrs {
			if ci, ok := in.(ssa.CallInstruction); ok {
				fn(ci)
			}
		}
	}
}

func ssautilAll(prog *ssa.Program) map[*ssa.Function]bool { return ssautil.AllFunctions(prog) }

// ---- parameters resolved at call sites ----

type callIndex struct {
	sites map[*ssa.Function][]ssa.CallInstruction
	taken map[*ssa.Function]bool // used as a value somewhere: callers cannot be enumerated
}

var callIdxCache = map[*Ctx]*callIndex{}

func (c *Ctx) callIndex() *callIndex {
	if ci, ok := callIdxCache[c]; ok {
		return ci
	}
	idx := &callIndex{sites: map[*ssa.Function][]ssa.CallInstruction{}, taken: map[*ssa.Function]bool{}}
	for _, g := range c.L.RepoFuncs() {
		for _, b := range g.Blocks {
			for _, in := range b.Instrs {
				var callee *ssa.Function
				if ci, ok := in.(ssa.CallInstruction); ok {
					callee = ci.Common().StaticCallee()
					if callee != nil && !ci.Common().IsInvoke() {
						idx.sites[callee] = append(idx.sites[callee], ci)
					}
				}
				for _, op := range in.Operands(nil) {
					if op == nil || *op == nil {
						continue
					}
					if fn, ok := (*op).(*ssa.Function); ok && fn != callee {
						idx.taken[fn] = true
					}
					if mc, ok := (*op).(*ssa.MakeClosure); ok {
						_ = mc
					}
				}
			}
		}
	}
	callIdxCache[c] = idx
	return idx
}

// boundArgs: the arguments every call site in the repository passes for parameter prm of an
// unexported, never address-taken function; nil when the callers cannot be enumerated.
func (c *Ctx) boundArgs(prm *ssa.Parameter) []ssa.Value {
	f := prm.Parent()
	if f == nil || f.Parent() != nil {
		return nil
	}
	idx := c.callIndex()
	if idx.taken[f] || len(idx.sites[f]) == 0 {
		return nil
	}
	if obj := f.Object(); obj != nil && obj.Exported() && pkgRel(f) != "main" {
		// exported: callers outside the loaded packages cannot exist for this module's internal
		// packages, but keep to the conservative reading for pkg/
		if strings.HasPrefix(pkgRel(f), "pkg/") {
			return nil
		}
	}
	pi := -1
	for i, p := range f.Params {
		if p == prm {
			pi = i
		}
	}
	if pi < 0 {
		return nil
	}
	var out []ssa.Value
	for _, ci := range idx.sites[f] {
		args := ci.Common().Args
		if pi >= len(args) {
			return nil
		}
		out = append(out, args[pi])
	}
	return out
}

// holdsThroughParams: pred holds for v, or v is a parameter and pred holds (recursively, two
// levels) for what every call site passes for it.
func (c *Ctx) holdsThroughParams(v ssa.Value, pred func(ssa.Value) bool, depth int) bool {
	if pred(v) {
		return true
	}
	prm, ok := v.(*ssa.Parameter)
	if !ok || depth >= 2 {
		return false
	}
	args := c.boundArgs(prm)
	if len(args) == 0 {
		return false
	}
	for _, a := range args {
		if !c.holdsThroughParams(a, pred, depth+1) {
			return false
		}
	}
	return true
}
