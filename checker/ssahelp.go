package main

import (
	"go/token"
	"go/types"
	"golang.org/x/tools/go/ssa/ssautil"
	"strings"

	"golang.org/x/tools/go/ssa"
)

// rootOf strips address arithmetic, loads and representation changes from v and returns the
// value the access is rooted at (a Global, Alloc, Parameter, FreeVar, call result, …).
func rootOf(v ssa.Value) ssa.Value {
	for i := 0; i < 64; i++ {
		switch x := v.(type) {
		case *ssa.FieldAddr:
			v = x.X
		case *ssa.IndexAddr:
			v = x.X
		case *ssa.Field:
			v = x.X
		case *ssa.Index:
			v = x.X
		case *ssa.UnOp:
			if x.Op == token.MUL {
				v = x.X
			} else {
				return v
			}
		case *ssa.ChangeType:
			v = x.X
		case *ssa.Slice:
			v = x.X
		case *ssa.Lookup:
			v = x.X
		default:
			return v
		}
	}
	return v
}

// calleeName returns "pkgpath.Func" / "(pkgpath.T).M" for static calls, "" otherwise.
func calleeName(c *ssa.CallCommon) string {
	if f := c.StaticCallee(); f != nil {
		return funcName(f)
	}
	return ""
}

func funcName(f *ssa.Function) string {
	if f == nil {
		return ""
	}
	if o := f.Origin(); o != nil {
		f = o
	}
	return f.String()
}

// isInitFunc: the synthetic package initialiser or a declared init function.
func isInitFunc(f *ssa.Function) bool {
	if f.Parent() != nil {
		return false
	}
	n := f.Name()
	return n == "init" || strings.HasPrefix(n, "init#")
}

func instrPos(in ssa.Instruction) token.Pos {
	if p := in.Pos(); p.IsValid() {
		return p
	}
	// fall back to the nearest instruction with a position in the same block
	b := in.Block()
	for _, o := range b.Instrs {
		if p := o.Pos(); p.IsValid() {
			return p
		}
	}
	return in.Parent().Pos()
}

// outermost returns the top-level function enclosing an anonymous function.
func outermost(f *ssa.Function) *ssa.Function {
	for f.Parent() != nil {
		f = f.Parent()
	}
	return f
}

// shortName: "pkg.Func" with the module prefix removed, closures as Func$1.
func shortName(f *ssa.Function) string {
	s := funcName(f)
	s = strings.ReplaceAll(s, modPath+"/", "")
	return s
}

func isMapType(t types.Type) bool {
	_, ok := t.Underlying().(*types.Map)
	return ok
}

// callsIn yields every call instruction (call, go, defer) of f.
func callsIn(f *ssa.Function, fn func(ssa.CallInstruction)) {
	for _, b := range f.Blocks {
		for _, in := range b.Instrs {
			if ci, ok := in.(ssa.CallInstruction); ok {
				fn(ci)
			}
		}
	}
}

func ssautilAll(prog *ssa.Program) map[*ssa.Function]bool { return ssautil.AllFunctions(prog) }
