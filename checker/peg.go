package main

// Extraction of pigeon grammars from the generated Go source: the composite literal
// `var g = &grammar{rules: []*rule{...}}` is turned into a PEG tree, from which derived
// attributes (nullability, terminal alphabets, FIRST characters, reference graph) are
// computed. Rule *bodies* are never compared with a frozen copy — only attributes are.

import (
	"fmt"
	"go/ast"
	"go/constant"
	"go/types"
	"sort"
	"strings"

	"golang.org/x/tools/go/packages"
)

type pegNode struct {
	Kind     string // rule action seq choice labeled star plus opt ref lit class any not and code
	Name     string // rule / ref / label name; action: run method name
	Val      string // literal
	ICase    bool
	Chars    []rune
	Ranges   []rune
	Inverted bool
	Kids     []*pegNode
	Pos      ast.Node
}

type pegGrammar struct {
	Pkg   *packages.Package
	Rules map[string]*pegNode
	Order []string
	Errs  []string
}

func (g *pegGrammar) errf(f string, a ...any) { g.Errs = append(g.Errs, fmt.Sprintf(f, a...)) }

// extractGrammar finds `var g = &grammar{...}` in package p.
func extractGrammar(p *packages.Package) *pegGrammar {
	g := &pegGrammar{Pkg: p, Rules: map[string]*pegNode{}}
	var lit *ast.CompositeLit
	for _, f := range p.Syntax {
		for _, d := range f.Decls {
			gd, ok := d.(*ast.GenDecl)
			if !ok {
				continue
			}
			for _, sp := range gd.Specs {
				vs, ok := sp.(*ast.ValueSpec)
				if !ok || len(vs.Values) != 1 {
					continue
				}
				u, ok := vs.Values[0].(*ast.UnaryExpr)
				if !ok {
					continue
				}
				cl, ok := u.X.(*ast.CompositeLit)
				if !ok {
					continue
				}
				if t := p.TypesInfo.TypeOf(cl); t != nil {
					if n, ok := t.(*types.Named); ok && n.Obj().Name() == "grammar" {
						lit = cl
					}
				}
			}
		}
	}
	if lit == nil {
		g.errf("no `&grammar{...}` literal in %s", p.PkgPath)
		return g
	}
	rules := field(lit, "rules")
	rl, ok := rules.(*ast.CompositeLit)
	if !ok {
		g.errf("grammar.rules is not a composite literal")
		return g
	}
	for _, e := range rl.Elts {
		cl := unaddr(e)
		if cl == nil {
			g.errf("rule element is not a literal")
			continue
		}
		name := g.str(field(cl, "name"))
		body := g.node(field(cl, "expr"))
		g.Rules[name] = &pegNode{Kind: "rule", Name: name, Kids: []*pegNode{body}, Pos: cl}
		g.Order = append(g.Order, name)
	}
	return g
}

func unaddr(e ast.Expr) *ast.CompositeLit {
	if u, ok := e.(*ast.UnaryExpr); ok {
		e = u.X
	}
	cl, _ := e.(*ast.CompositeLit)
	return cl
}

func field(cl *ast.CompositeLit, name string) ast.Expr {
	for _, e := range cl.Elts {
		if kv, ok := e.(*ast.KeyValueExpr); ok {
			if id, ok := kv.Key.(*ast.Ident); ok && id.Name == name {
				return kv.Value
			}
		}
	}
	return nil
}

func (g *pegGrammar) str(e ast.Expr) string {
	if e == nil {
		return ""
	}
	if v := constOf(g.Pkg.TypesInfo, e); v != nil && v.Kind() == constant.String {
		return constant.StringVal(v)
	}
	g.errf("non-constant string in grammar literal")
	return ""
}

func (g *pegGrammar) boolean(e ast.Expr) bool {
	if e == nil {
		return false
	}
	if v := constOf(g.Pkg.TypesInfo, e); v != nil && v.Kind() == constant.Bool {
		return constant.BoolVal(v)
	}
	g.errf("non-constant bool in grammar literal")
	return false
}

func (g *pegGrammar) runes(e ast.Expr) []rune {
	if e == nil {
		return nil
	}
	cl, ok := e.(*ast.CompositeLit)
	if !ok {
		g.errf("rune list is not a literal")
		return nil
	}
	var out []rune
	for _, el := range cl.Elts {
		v, ok := constInt(g.Pkg.TypesInfo, el)
		if !ok {
			g.errf("non-constant rune")
			continue
		}
		out = append(out, rune(v))
	}
	return out
}

func (g *pegGrammar) list(e ast.Expr) []*pegNode {
	cl, ok := e.(*ast.CompositeLit)
	if !ok {
		g.errf("expression list is not a literal")
		return nil
	}
	var out []*pegNode
	for _, el := range cl.Elts {
		out = append(out, g.node(el))
	}
	return out
}

func (g *pegGrammar) node(e ast.Expr) *pegNode {
	cl := unaddr(e)
	if cl == nil {
		g.errf("grammar expression is not a literal")
		return &pegNode{Kind: "unknown"}
	}
	tn := ""
	switch t := cl.Type.(type) {
	case *ast.Ident:
		tn = t.Name
	}
	n := &pegNode{Pos: cl}
	one := func() { n.Kids = []*pegNode{g.node(field(cl, "expr"))} }
	switch tn {
	case "actionExpr":
		n.Kind = "action"
		if r := field(cl, "run"); r != nil {
			// (*parser).callonX
			if se, ok := r.(*ast.SelectorExpr); ok {
				n.Name = se.Sel.Name
			}
		}
		one()
	case "seqExpr":
		n.Kind = "seq"
		n.Kids = g.list(field(cl, "exprs"))
	case "choiceExpr":
		n.Kind = "choice"
		n.Kids = g.list(field(cl, "alternatives"))
	case "labeledExpr":
		n.Kind = "labeled"
		n.Name = g.str(field(cl, "label"))
		one()
	case "zeroOrMoreExpr":
		n.Kind = "star"
		one()
	case "oneOrMoreExpr":
		n.Kind = "plus"
		one()
	case "zeroOrOneExpr":
		n.Kind = "opt"
		one()
	case "notExpr":
		n.Kind = "not"
		one()
	case "andExpr":
		n.Kind = "and"
		one()
	case "ruleRefExpr":
		n.Kind = "ref"
		n.Name = g.str(field(cl, "name"))
	case "litMatcher":
		n.Kind = "lit"
		n.Val = g.str(field(cl, "val"))
		n.ICase = g.boolean(field(cl, "ignoreCase"))
	case "charClassMatcher":
		n.Kind = "class"
		n.Val = g.str(field(cl, "val"))
		n.Chars = g.runes(field(cl, "chars"))
		n.Ranges = g.runes(field(cl, "ranges"))
		n.ICase = g.boolean(field(cl, "ignoreCase"))
		n.Inverted = g.boolean(field(cl, "inverted"))
		if field(cl, "classes") != nil {
			g.errf("unicode classes in char class %s not modelled", n.Val)
		}
	case "anyMatcher":
		n.Kind = "any"
	case "andCodeExpr", "notCodeExpr", "stateCodeExpr":
		n.Kind = "code"
	default:
		g.errf("unmodelled grammar expression type %q", tn)
		n.Kind = "unknown"
	}
	return n
}

// ---- printing ----

func (n *pegNode) String() string {
	switch n.Kind {
	case "rule":
		return n.Name + " <- " + n.Kids[0].String()
	case "action":
		return n.Kids[0].String() + " {…}"
	case "seq":
		var p []string
		for _, k := range n.Kids {
			s := k.String()
			if k.Kind == "choice" {
				s = "(" + s + ")"
			}
			p = append(p, s)
		}
		return strings.Join(p, " ")
	case "choice":
		var p []string
		for _, k := range n.Kids {
			p = append(p, k.String())
		}
		return strings.Join(p, " / ")
	case "labeled":
		return n.Name + ":" + wrap(n.Kids[0])
	case "star":
		return wrap(n.Kids[0]) + "*"
	case "plus":
		return wrap(n.Kids[0]) + "+"
	case "opt":
		return wrap(n.Kids[0]) + "?"
	case "not":
		return "!" + wrap(n.Kids[0])
	case "and":
		return "&" + wrap(n.Kids[0])
	case "ref":
		return n.Name
	case "lit":
		return fmt.Sprintf("%q", n.Val)
	case "class":
		return n.Val
	case "any":
		return "."
	}
	return "<" + n.Kind + ">"
}

func wrap(n *pegNode) string {
	s := n.String()
	if n.Kind == "seq" || n.Kind == "choice" || n.Kind == "action" {
		return "(" + s + ")"
	}
	return s
}

// ---- derived attributes ----

// strip removes action/labeled wrappers.
func strip(n *pegNode) *pegNode {
	for n != nil && (n.Kind == "action" || n.Kind == "labeled" || n.Kind == "rule") {
		n = n.Kids[0]
	}
	return n
}

// nullable: can the expression succeed without consuming input?
func (g *pegGrammar) nullable(n *pegNode, seen map[string]bool) bool {
	switch n.Kind {
	case "rule", "action", "labeled":
		return g.nullable(n.Kids[0], seen)
	case "seq":
		for _, k := range n.Kids {
			if !g.nullable(k, seen) {
				return false
			}
		}
		return true
	case "choice":
		for _, k := range n.Kids {
			if g.nullable(k, seen) {
				return true
			}
		}
		return false
	case "star", "opt", "not", "and", "code":
		return true
	case "plus":
		return g.nullable(n.Kids[0], seen)
	case "ref":
		if seen[n.Name] {
			return false
		}
		r := g.Rules[n.Name]
		if r == nil {
			return false
		}
		seen[n.Name] = true
		defer delete(seen, n.Name)
		return g.nullable(r, seen)
	case "lit":
		return n.Val == ""
	}
	return false
}

// charSet is a set over bytes 0..255 plus a flag for "anything ≥ 256".
type charSet struct {
	b    [256]bool
	high bool
}

func (s *charSet) addRange(lo, hi rune) {
	for c := lo; c <= hi && c < 256; c++ {
		if c >= 0 {
			s.b[c] = true
		}
	}
	if hi >= 256 {
		s.high = true
	}
}
func (s *charSet) union(o *charSet) {
	for i := range s.b {
		s.b[i] = s.b[i] || o.b[i]
	}
	s.high = s.high || o.high
}
func (s *charSet) has(c byte) bool { return s.b[c] }
func (s *charSet) String() string {
	var sb strings.Builder
	for i := 0; i < 256; i++ {
		if s.b[i] {
			if i > 32 && i < 127 {
				sb.WriteByte(byte(i))
			} else {
				fmt.Fprintf(&sb, "\\x%02x", i)
			}
		}
	}
	if s.high {
		sb.WriteString("…")
	}
	return sb.String()
}
func (s *charSet) count() int {
	n := 0
	for _, b := range s.b {
		if b {
			n++
		}
	}
	return n
}

func classSet(n *pegNode) *charSet {
	s := &charSet{}
	for _, c := range n.Chars {
		s.addRange(c, c)
		if n.ICase {
			s.addRange(toggleCase(c), toggleCase(c))
		}
	}
	for i := 0; i+1 < len(n.Ranges); i += 2 {
		s.addRange(n.Ranges[i], n.Ranges[i+1])
		if n.ICase {
			for c := n.Ranges[i]; c <= n.Ranges[i+1]; c++ {
				s.addRange(toggleCase(c), toggleCase(c))
			}
		}
	}
	if n.Inverted {
		inv := &charSet{high: true}
		for i := range s.b {
			inv.b[i] = !s.b[i]
		}
		return inv
	}
	return s
}

func toggleCase(c rune) rune {
	switch {
	case c >= 'a' && c <= 'z':
		return c - 32
	case c >= 'A' && c <= 'Z':
		return c + 32
	}
	return c
}

// first: the set of bytes with which a match of n may begin (over-approximation that
// ignores predicates), following rule references.
func (g *pegGrammar) first(n *pegNode, seen map[string]bool) *charSet {
	s := &charSet{}
	switch n.Kind {
	case "rule", "action", "labeled", "star", "plus", "opt":
		return g.first(n.Kids[0], seen)
	case "seq":
		for _, k := range n.Kids {
			if k.Kind == "not" || k.Kind == "and" || k.Kind == "code" {
				continue
			}
			s.union(g.first(k, seen))
			if !g.nullable(k, map[string]bool{}) {
				break
			}
		}
	case "choice":
		for _, k := range n.Kids {
			s.union(g.first(k, seen))
		}
	case "ref":
		if seen[n.Name] || g.Rules[n.Name] == nil {
			return s
		}
		seen[n.Name] = true
		return g.first(g.Rules[n.Name], seen)
	case "lit":
		if n.Val != "" {
			c := rune(n.Val[0])
			s.addRange(c, c)
			if n.ICase {
				s.addRange(toggleCase(c), toggleCase(c))
			}
		}
	case "class":
		return classSet(n)
	case "any":
		s.addRange(0, 255)
		s.high = true
	}
	return s
}

// alphabet: every byte some terminal inside n (following references) can consume.
func (g *pegGrammar) alphabet(n *pegNode, seen map[string]bool) *charSet {
	s := &charSet{}
	switch n.Kind {
	case "ref":
		if seen[n.Name] || g.Rules[n.Name] == nil {
			return s
		}
		seen[n.Name] = true
		return g.alphabet(g.Rules[n.Name], seen)
	case "lit":
		for _, c := range n.Val {
			s.addRange(c, c)
			if n.ICase {
				s.addRange(toggleCase(c), toggleCase(c))
			}
		}
	case "class":
		return classSet(n)
	case "any":
		s.addRange(0, 255)
		s.high = true
	case "not", "and", "code":
		return s
	default:
		for _, k := range n.Kids {
			s.union(g.alphabet(k, seen))
		}
	}
	return s
}

// refs: rule names referenced directly by n (not through other rules). Predicates included
// when withPred.
func refs(n *pegNode, withPred bool, out map[string]bool) {
	if n == nil {
		return
	}
	if n.Kind == "ref" {
		out[n.Name] = true
	}
	if !withPred && (n.Kind == "not" || n.Kind == "and") {
		return
	}
	for _, k := range n.Kids {
		refs(k, withPred, out)
	}
}

// refClosure: all rules reachable from rule name through consuming (non-predicate) references.
func (g *pegGrammar) refClosure(name string) map[string]bool {
	seen := map[string]bool{}
	var walk func(string)
	walk = func(r string) {
		if seen[r] || g.Rules[r] == nil {
			return
		}
		seen[r] = true
		m := map[string]bool{}
		refs(g.Rules[r], false, m)
		for k := range m {
			walk(k)
		}
	}
	walk(name)
	return seen
}

// literalAlternatives returns the literal strings of a rule whose body is a choice of literals
// (optionally wrapped in an action).
func (g *pegGrammar) literalAlternatives(name string) ([]string, bool) {
	r := g.Rules[name]
	if r == nil {
		return nil, false
	}
	b := strip(r)
	var out []string
	if b.Kind == "lit" {
		return []string{b.Val}, true
	}
	if b.Kind != "choice" {
		return nil, false
	}
	for _, k := range b.Kids {
		k = strip(k)
		if k.Kind != "lit" {
			return nil, false
		}
		out = append(out, k.Val)
	}
	return out, true
}

func sortedSet(m map[string]bool) []string {
	var out []string
	for k := range m {
		out = append(out, k)
	}
	sort.Strings(out)
	return out
}
