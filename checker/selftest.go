package main

// Thorough tier: validation of the checker itself. Each variant is a small edit of the
// *current* tree (applied in memory through go/packages' overlay — nothing is written to
// /repo, nothing is executed) that breaks one rule instance; the rule must report a new
// failing obligation. Results are evidence about the checker and never change the verdict
// on /repo.

import (
	"bufio"
	"bytes"
	"encoding/json"
	"fmt"
	"os"
	"os/exec"
	"path/filepath"
	"sort"
	"strings"
	"sync"
)

type variant struct {
	ID      string   `json:"id"`
	Props   []string `json:"props"`
	File    string   `json:"file"`
	Find    string   `json:"find"`
	Replace string   `json:"replace"`
	Expect  string   `json:"expect"`
	Note    string   `json:"note"`
	Control bool     `json:"control,omitempty"` // positive control for a rule whose expected count on /repo is zero: also run in the quick tier
	Extra   *struct {
		File    string `json:"file"`
		Find    string `json:"find"`
		Replace string `json:"replace"`
	} `json:"extra,omitempty"`
}

func loadVariants(verif string) ([]variant, error) {
	b, err := os.ReadFile(filepath.Join(verif, "checker", "selftest", "variants.json"))
	if err != nil {
		return nil, err
	}
	var vs []variant
	if err := json.Unmarshal(b, &vs); err != nil {
		return nil, err
	}
	return vs, nil
}

// overlayFor builds the overlay for one variant; ok=false when the edit cannot be located.
func overlayFor(repo string, v variant) (map[string][]byte, bool) {
	path := filepath.Join(repo, v.File)
	b, err := os.ReadFile(path)
	if err != nil || !bytes.Contains(b, []byte(v.Find)) {
		return nil, false
	}
	nb := bytes.Replace(b, []byte(v.Find), []byte(v.Replace), 1)
	ov := map[string][]byte{path: nb}
	if v.Extra != nil {
		p2 := filepath.Join(repo, v.Extra.File)
		b2, ok := ov[p2]
		if !ok {
			var err error
			b2, err = os.ReadFile(p2)
			if err != nil {
				return nil, false
			}
		}
		if !bytes.Contains(b2, []byte(v.Extra.Find)) {
			return nil, false
		}
		ov[p2] = bytes.Replace(b2, []byte(v.Extra.Find), []byte(v.Extra.Replace), 1)
	}
	return ov, true
}

type selfResult struct {
	Variant string   `json:"variant"`
	Expect  string   `json:"expected_rule"`
	Result  string   `json:"result"` // caught | missed | skipped | invalid
	NewKeys []string `json:"new_failing_obligations,omitempty"`
	Note    string   `json:"note"`
}

func selfValidate(c *Ctx, repo string, controlsOnly bool) {
	vs, err := loadVariants(c.Verif)
	if err != nil {
		fmt.Println("SELFTEST: cannot load variants:", err)
		return
	}
	base := map[string]bool{}
	for _, o := range c.obs {
		if !o.OK {
			base[o.Key] = true
		}
	}
	var mine []variant
	for _, v := range vs {
		if controlsOnly && !v.Control {
			continue
		}
		for _, p := range v.Props {
			if p == c.Prop {
				mine = append(mine, v)
			}
		}
	}
	results := make([]selfResult, len(mine))
	sem := make(chan struct{}, 6)
	var wg sync.WaitGroup
	for i, v := range mine {
		wg.Add(1)
		go func(i int, v variant) {
			defer wg.Done()
			sem <- struct{}{}
			defer func() { <-sem }()
			r := selfResult{Variant: v.ID, Expect: v.Expect, Note: v.Note}
			if _, ok := overlayFor(repo, v); !ok {
				r.Result = "skipped"
				results[i] = r
				return
			}
			cmd := exec.Command(os.Args[0], "-repo", repo, "-verif", c.Verif, "-variant", v.ID, "-q", c.Prop, "quick")
			out, _ := cmd.Output()
			sc := bufio.NewScanner(bytes.NewReader(out))
			sc.Buffer(make([]byte, 1<<20), 1<<24)
			loadFail := false
			for sc.Scan() {
				line := sc.Text()
				if strings.HasPrefix(line, "FAILKEY ") {
					k := strings.TrimPrefix(line, "FAILKEY ")
					if strings.HasPrefix(k, "load|") {
						loadFail = true
					}
					if !base[k] {
						r.NewKeys = append(r.NewKeys, k)
					}
				}
			}
			sort.Strings(r.NewKeys)
			switch {
			case loadFail:
				r.Result = "invalid"
			default:
				r.Result = "missed"
				for _, k := range r.NewKeys {
					if strings.HasPrefix(k, v.Expect+"|") {
						r.Result = "caught"
					}
				}
				if r.Result == "missed" && len(r.NewKeys) > 0 {
					r.Result = "caught-by-other-rule"
				}
			}
			if len(r.NewKeys) > 4 {
				r.NewKeys = append(r.NewKeys[:4], fmt.Sprintf("… %d more", len(r.NewKeys)-4))
			}
			results[i] = r
		}(i, v)
	}
	wg.Wait()
	counts := map[string]int{}
	for _, r := range results {
		counts[r.Result]++
		tag := "SELFTEST"
		if controlsOnly {
			tag = "CONTROL"
		}
		fmt.Printf("%s property=%s variant=%s expect=%s result=%s %v\n", tag, c.Prop, r.Variant, r.Expect, r.Result, r.NewKeys)
	}
	name := "self_validation"
	if controlsOnly {
		name = "positive_controls"
	}
	c.analysed[name] = map[string]any{
		"what":     "in-memory edits of the current tree (go/packages overlay), one per rule instance class; the rule must report a new failing obligation",
		"variants": results,
		"summary":  counts,
	}
}
