package main

// T5: hand-written instruction forms (pkg/asmdb fallback table) against the SDM.

import (
	"fmt"
	"go/ast"
	"go/token"
	"go/types"
	"sort"
	"strconv"
	"strings"
)

type fbEncoding struct {
	Opcode        string
	Addend        string
	HasModRM      bool
	Mode, Reg, Rm string
	HasImm        bool
	ImmSize       int64
	ImmValue      string
	Pos           token.Pos
	Undecided     string
}

type fbForm struct {
	Mnemonic  string
	Operands  []string
	Encodings []fbEncoding
	Pos       token.Pos
	Fn        string
}

var fbCache []fbForm

// fallbackForms extracts every InstructionForm composite literal of package asmdb together
// with the mnemonic it is registered under.
func fallbackForms(c *Ctx) []fbForm {
	if fbCache != nil {
		return fbCache
	}
	p := c.L.Pkg("pkg/asmdb")
	if p == nil {
		return nil
	}
	info := p.TypesInfo
	curFormPkg = p
	var out []fbForm
	for _, f := range p.Syntax {
		for _, d := range f.Decls {
			fd, ok := d.(*ast.FuncDecl)
			if !ok || fd.Body == nil {
				continue
			}
			// key assignments: instructionData.Instructions["K"] = …
			var keys []keySpan
			ast.Inspect(fd.Body, func(n ast.Node) bool {
				as, ok := n.(*ast.AssignStmt)
				if !ok || len(as.Lhs) != 1 {
					return true
				}
				ie, ok := as.Lhs[0].(*ast.IndexExpr)
				if !ok {
					return true
				}
				if sel, ok := ie.X.(*ast.SelectorExpr); ok && sel.Sel.Name == "Instructions" {
					if k, ok := constStr(info, ie.Index); ok {
						keys = append(keys, keySpan{k, as.Pos(), as.End()})
					}
				}
				return true
			})
			if len(keys) == 0 {
				continue
			}
			sort.Slice(keys, func(i, j int) bool { return keys[i].pos < keys[j].pos })
			ast.Inspect(fd.Body, func(n ast.Node) bool {
				cl, ok := n.(*ast.CompositeLit)
				if !ok || !isNamedLit(info, cl, "InstructionForm") {
					return true
				}
				// elements of []InstructionForm{ {…} } have no explicit type: handled below
				out = append(out, parseForm(info, cl, mnemonicFor(keys, cl.Pos()), fd.Name.Name))
				return false
			})
			// untyped element literals inside []InstructionForm{…}
			ast.Inspect(fd.Body, func(n ast.Node) bool {
				cl, ok := n.(*ast.CompositeLit)
				if !ok {
					return true
				}
				t := info.TypeOf(cl)
				sl, ok := t.(*types.Slice)
				if !ok {
					return true
				}
				if nn, ok := sl.Elem().(*types.Named); !ok || nn.Obj().Name() != "InstructionForm" {
					return true
				}
				for _, e := range cl.Elts {
					if el, ok := e.(*ast.CompositeLit); ok && el.Type == nil {
						out = append(out, parseForm(info, el, mnemonicFor(keys, el.Pos()), fd.Name.Name))
					}
				}
				return true
			})
		}
	}
	sort.Slice(out, func(i, j int) bool { return out[i].Pos < out[j].Pos })
	fbCache = out
	return out
}

type keySpan struct {
	key      string
	pos, end token.Pos
}

func mnemonicFor(keys []keySpan, pos token.Pos) string {
	for _, k := range keys {
		if k.pos <= pos && pos <= k.end {
			return k.key
		}
	}
	for _, k := range keys {
		if k.pos > pos {
			return k.key
		}
	}
	if len(keys) > 0 {
		return keys[len(keys)-1].key
	}
	return "?"
}

func parseForm(info *types.Info, cl *ast.CompositeLit, mnemonic, fn string) fbForm {
	fm := fbForm{Mnemonic: mnemonic, Pos: cl.Pos(), Fn: fn}
	if ops := field(cl, "Operands"); ops != nil {
		if ol := unaddr(ops); ol != nil {
			for _, e := range ol.Elts {
				if el, ok := e.(*ast.CompositeLit); ok {
					t, _ := constStr(info, field(el, "Type"))
					fm.Operands = append(fm.Operands, t)
				} else if call, ok := e.(*ast.CallExpr); ok {
					// dstOperand("r16"): a constructor whose only statement returns an Operand
					// literal with Type: <its parameter>
					if t, ok := operandCtorType(info, call); ok {
						fm.Operands = append(fm.Operands, t)
					}
				}
			}
		}
	}
	if encs := field(cl, "Encodings"); encs != nil {
		if el, ok := encs.(*ast.CompositeLit); ok {
			for _, e := range el.Elts {
				ec, ok := e.(*ast.CompositeLit)
				if !ok {
					continue
				}
				en := fbEncoding{Pos: ec.Pos()}
				if oc := unaddr(field(ec, "Opcode")); oc != nil {
					en.Opcode, _ = constStr(info, field(oc, "Byte"))
					if ad := field(oc, "Addend"); ad != nil {
						// lo.ToPtr("#0")
						if call, ok := ad.(*ast.CallExpr); ok && len(call.Args) == 1 {
							en.Addend, _ = constStr(info, call.Args[0])
						} else {
							en.Undecided = "Addend is not lo.ToPtr(const)"
						}
					}
				}
				if m := field(ec, "ModRM"); m != nil {
					if ml := unaddr(m); ml != nil {
						en.HasModRM = true
						en.Mode, _ = constStr(info, field(ml, "Mode"))
						en.Reg, _ = constStr(info, field(ml, "Reg"))
						en.Rm, _ = constStr(info, field(ml, "Rm"))
					} else {
						en.Undecided = "ModRM is not a literal"
					}
				}
				if im := field(ec, "Immediate"); im != nil {
					if il := unaddr(im); il != nil {
						en.HasImm = true
						en.ImmSize, _ = constInt(info, field(il, "Size"))
						en.ImmValue, _ = constStr(info, field(il, "Value"))
					} else {
						en.Undecided = "Immediate is not a literal"
					}
				}
				fm.Encodings = append(fm.Encodings, en)
			}
		}
	}
	return fm
}

type formOracle struct {
	Forms []struct {
		Mnemonic string        `json:"mnemonic"`
		Operands []string      `json:"operands"`
		Opcode   string        `json:"opcode"`
		Reg      *string       `json:"reg"`
		Rm       *string       `json:"rm"`
		Imm      []interface{} `json:"imm"`
		Addend   *string       `json:"addend"`
		Mode     *string       `json:"mode"`
		Note     string        `json:"note"`
	} `json:"forms"`
}

func isRegOrMemType(t string) bool {
	switch {
	case strings.HasPrefix(t, "r"), strings.HasPrefix(t, "m"), t == "sreg", t == "creg", t == "dreg", t == "al", t == "ax", t == "eax", t == "cl", t == "dx":
		return true
	}
	return false
}

func idx(s string) (int, bool) {
	if !strings.HasPrefix(s, "#") {
		return 0, false
	}
	n, err := strconv.Atoi(s[1:])
	return n, err == nil
}

// imulOverride reports the Reg/Rm values the IMUL emitter substitutes for opcodes 69/6B.
func imulOverride(c *Ctx) (reg, rm string, ok bool) {
	fd, p := c.L.FuncDecl("internal/codegen", "handleIMUL")
	if fd == nil {
		return
	}
	info := p.TypesInfo
	ast.Inspect(fd.Body, func(n ast.Node) bool {
		is, isIf := n.(*ast.IfStmt)
		if !isIf {
			return true
		}
		cs := types.ExprString(is.Cond)
		if !(strings.Contains(cs, `"69"`) && strings.Contains(cs, `"6B"`)) {
			return true
		}
		ast.Inspect(is.Body, func(m ast.Node) bool {
			as, isAs := m.(*ast.AssignStmt)
			if !isAs || len(as.Lhs) != 1 || len(as.Rhs) != 1 {
				return true
			}
			sel, isSel := as.Lhs[0].(*ast.SelectorExpr)
			if !isSel {
				return true
			}
			v, isC := constStr(info, as.Rhs[0])
			if !isC {
				return true
			}
			switch sel.Sel.Name {
			case "Reg":
				reg = v
			case "Rm":
				rm = v
			}
			return true
		})
		return true
	})
	ok = reg != "" && rm != ""
	return
}

func ruleT5(c *Ctx) {
	c.doc("T5", "every hand-written instruction form has the opcode, ModR/M operand roles (reg vs r/m or /digit), immediate width/index and +r index the SDM gives for that mnemonic and operand types; indices are in range and name operands of the right kind")
	var o formOracle
	if !c.oracle("forms.json", &o) {
		return
	}
	forms := fallbackForms(c)
	if len(forms) == 0 {
		c.anchorMissing("T5", "pkg/asmdb: InstructionForm literals")
		return
	}
	oreg, orm, hasOverride := imulOverride(c)
	seenKey := map[string]int{}
	for _, fm := range forms {
		base := fmt.Sprintf("%s %s", fm.Mnemonic, strings.Join(fm.Operands, ","))
		seenKey[base]++
		if seenKey[base] > 1 {
			// registered twice (two init functions add the same forms): same checks apply
			base = fmt.Sprintf("%s (%s)", base, fm.Fn)
		}
		// oracle row
		var want *struct {
			Mnemonic string        `json:"mnemonic"`
			Operands []string      `json:"operands"`
			Opcode   string        `json:"opcode"`
			Reg      *string       `json:"reg"`
			Rm       *string       `json:"rm"`
			Imm      []interface{} `json:"imm"`
			Addend   *string       `json:"addend"`
			Mode     *string       `json:"mode"`
			Note     string        `json:"note"`
		}
		for i := range o.Forms {
			if o.Forms[i].Mnemonic == fm.Mnemonic && strings.Join(o.Forms[i].Operands, ",") == strings.Join(fm.Operands, ",") {
				want = &o.Forms[i]
			}
		}
		for ei, en := range fm.Encodings {
			key := base
			if len(fm.Encodings) > 1 {
				key = fmt.Sprintf("%s#%d", base, ei+1)
			}
			pos := c.L.Pos(en.Pos)
			if en.Undecided != "" {
				c.fail("T5", key, pos, "undecided: "+en.Undecided)
				continue
			}
			// generic well-formedness
			var probs []string
			if len(en.Opcode) == 0 || len(en.Opcode)%2 != 0 {
				probs = append(probs, fmt.Sprintf("opcode %q is not a whole number of bytes", en.Opcode))
			}
			chk := func(what, v string, wantKind string) {
				if v == "" {
					return
				}
				i, ok := idx(v)
				if !ok {
					if what == "reg" {
						if _, err := strconv.Atoi(v); err == nil {
							return // /digit
						}
					}
					probs = append(probs, fmt.Sprintf("%s=%q is not an operand index", what, v))
					return
				}
				if i >= len(fm.Operands) {
					probs = append(probs, fmt.Sprintf("%s=%s is out of range for %d operand(s)", what, v, len(fm.Operands)))
					return
				}
				t := fm.Operands[i]
				if wantKind == "imm" && !strings.HasPrefix(t, "imm") {
					probs = append(probs, fmt.Sprintf("%s=%s names operand %q, which is not an immediate", what, v, t))
				}
				if wantKind == "regmem" && !isRegOrMemType(t) {
					probs = append(probs, fmt.Sprintf("%s=%s names operand %q, which is not a register/memory operand", what, v, t))
				}
			}
			reg, rm := en.Reg, en.Rm
			overridden := false
			if fm.Mnemonic == "IMUL" && (en.Opcode == "69" || en.Opcode == "6B") && hasOverride {
				reg, rm, overridden = oreg, orm, true
			}
			if en.HasModRM {
				chk("reg", reg, "regmem")
				chk("rm", rm, "regmem")
				if len(fm.Operands) == 2 && isRegOrMemType(fm.Operands[0]) && isRegOrMemType(fm.Operands[1]) && reg == rm {
					probs = append(probs, fmt.Sprintf("two-register form uses operand %s for both the reg and the r/m field", reg))
				}
			}
			if en.HasImm {
				chk("immediate", en.ImmValue, "imm")
				if i, ok := idx(en.ImmValue); ok && i < len(fm.Operands) {
					wantSz := map[string]int64{"imm8": 1, "imm16": 2, "imm32": 4}[fm.Operands[i]]
					if wantSz != 0 && wantSz != en.ImmSize {
						probs = append(probs, fmt.Sprintf("immediate size %d for an %s operand", en.ImmSize, fm.Operands[i]))
					}
				}
			}
			chk("addend", en.Addend, "regmem")
			// oracle comparison
			if want == nil {
				probs = append(probs, "form is not in the oracle (add its SDM row to oracle/forms.json)")
			} else {
				if !strings.EqualFold(en.Opcode, want.Opcode) {
					probs = append(probs, fmt.Sprintf("opcode %s, SDM says %s", en.Opcode, want.Opcode))
				}
				if (want.Reg != nil) != en.HasModRM {
					probs = append(probs, fmt.Sprintf("ModR/M present=%v, SDM form has ModR/M=%v", en.HasModRM, want.Reg != nil))
				}
				if want.Reg != nil && en.HasModRM {
					if reg != *want.Reg {
						probs = append(probs, fmt.Sprintf("reg field takes %s, SDM puts %s there", reg, *want.Reg))
					}
					if want.Rm != nil && rm != *want.Rm {
						probs = append(probs, fmt.Sprintf("r/m field takes %s, SDM puts %s there", rm, *want.Rm))
					}
				}
				if (want.Imm != nil) != en.HasImm {
					probs = append(probs, fmt.Sprintf("immediate present=%v, SDM=%v", en.HasImm, want.Imm != nil))
				}
				if want.Imm != nil && en.HasImm {
					if int64(want.Imm[0].(float64)) != en.ImmSize || want.Imm[1].(string) != en.ImmValue {
						probs = append(probs, fmt.Sprintf("immediate (%d bytes, %s), SDM (%v bytes, %v)", en.ImmSize, en.ImmValue, want.Imm[0], want.Imm[1]))
					}
				}
				wa := ""
				if want.Addend != nil {
					wa = *want.Addend
				}
				if wa != en.Addend {
					probs = append(probs, fmt.Sprintf("+r index %q, SDM %q", en.Addend, wa))
				}
			}
			detail := strings.Join(probs, "; ")
			if overridden && len(probs) == 0 {
				detail = fmt.Sprintf("table says reg=%s rm=%s; the IMUL emitter substitutes reg=%s rm=%s for opcodes 69/6B, which is what the SDM requires", en.Reg, en.Rm, reg, rm)
			}
			c.check(len(probs) == 0, "T5", key, pos, detail)
		}
	}
	c.analysed["T5_forms"] = len(forms)
	c.floor("T5", 28)
}

var curFormPkg *packagesPackage

func operandCtorType(info *types.Info, call *ast.CallExpr) (string, bool) {
	fn, ok := calleeOf(info, call).(*types.Func)
	if !ok || curFormPkg == nil {
		return "", false
	}
	for _, f := range curFormPkg.Syntax {
		for _, d := range f.Decls {
			fd, ok := d.(*ast.FuncDecl)
			if !ok || fd.Body == nil || fd.Recv != nil || info.Defs[fd.Name] != fn || len(fd.Body.List) != 1 {
				continue
			}
			ret, ok := fd.Body.List[0].(*ast.ReturnStmt)
			if !ok || len(ret.Results) != 1 {
				return "", false
			}
			cl, ok := ast.Unparen(ret.Results[0]).(*ast.CompositeLit)
			if !ok || !isNamedLit(info, cl, "Operand") {
				return "", false
			}
			tf := field(cl, "Type")
			if tf == nil {
				return "", false
			}
			if s, ok := constStr(info, tf); ok {
				return s, true
			}
			id, ok := ast.Unparen(tf).(*ast.Ident)
			if !ok {
				return "", false
			}
			i := 0
			for _, pf := range fd.Type.Params.List {
				for _, nm := range pf.Names {
					if info.Defs[nm] == info.Uses[id] && i < len(call.Args) {
						return constStr(info, call.Args[i])
					}
					i++
				}
			}
			return "", false
		}
	}
	return "", false
}
