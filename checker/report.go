package main

// Obligations, the findings protocol (VIOLATION / KNOWN-FINDING / fixed) and evidence.

import (
	"encoding/json"
	"fmt"
	"golang.org/x/tools/go/callgraph"
	"golang.org/x/tools/go/ssa"
	"os"
	"path/filepath"
	"regexp"
	"sort"
	"strings"
	"time"
)

var procStart = time.Now()

type Obligation struct {
	Rule   string `json:"rule"`
	Key    string `json:"key"` // rule|construct — never a line number
	Pos    string `json:"pos,omitempty"`
	OK     bool   `json:"ok"`
	Detail string `json:"detail,omitempty"`
}

type Finding struct {
	Key        string   `json:"key"`
	Properties []string `json:"properties"`
	What       string   `json:"what"`
	Witness    string   `json:"witness"`
	Status     string   `json:"status"` // "known" | "fixed: <commit>"
}

type Ctx struct {
	Prop     string
	Tier     string
	Seed     int
	L        *Loaded
	Verif    string // /verif
	obs      []Obligation
	seenKeys map[string]bool
	counts   map[string]int    // rule -> instance count
	floors   map[string]int    // rule -> floor
	analysed map[string]any    // free-form "what was analysed"
	rulesDoc map[string]string // rule -> one-line statement of the rule
	notes    []string
	start    time.Time
	quiet    bool
	variant  string
	dump     bool
	chain    map[*ssa.Function]bool
	reachSet map[*ssa.Function]*callgraph.Edge
}

func newCtx(prop, tier string, l *Loaded, verif string) *Ctx {
	return &Ctx{Prop: prop, Tier: tier, L: l, Verif: verif, seenKeys: map[string]bool{},
		counts: map[string]int{}, floors: map[string]int{}, analysed: map[string]any{},
		rulesDoc: map[string]string{}, start: procStart}
}

func (c *Ctx) doc(rule, text string) { c.rulesDoc[rule] = text }

func (c *Ctx) add(rule, construct, pos string, ok bool, detail string) {
	key := rule + "|" + construct
	if c.seenKeys[key] {
		// keep keys unique: a repeated construct gets an ordinal suffix
		for i := 2; ; i++ {
			k := fmt.Sprintf("%s#%d", key, i)
			if !c.seenKeys[k] {
				key = k
				break
			}
		}
	}
	c.seenKeys[key] = true
	c.counts[rule]++
	c.obs = append(c.obs, Obligation{Rule: rule, Key: key, Pos: pos, OK: ok, Detail: detail})
}

func (c *Ctx) ok(rule, construct, pos, detail string)   { c.add(rule, construct, pos, true, detail) }
func (c *Ctx) fail(rule, construct, pos, detail string) { c.add(rule, construct, pos, false, detail) }
func (c *Ctx) check(cond bool, rule, construct, pos, detail string) {
	c.add(rule, construct, pos, cond, detail)
}

// floor declares the minimum number of instances rule must have matched (counted by c.add).
// floor guards against a rule that silently matches nothing: it fails when the rule finds fewer
// than half of the instances confirmed by hand on the reference tree. (The full count was used at
// first; behaviour-preserving refactorings — two identical emitters merged into one helper —
// legitimately lower the count, and a floor must not turn that into an alarm.)
func (c *Ctx) floor(rule string, n int) { c.floors[rule] = (n + 1) / 2 }

// anchor reports a missing anchor (a shape/function the rule needs) as a failed obligation.
func (c *Ctx) anchorMissing(rule, what string) {
	c.fail(rule, "anchor-unresolved:"+what, "", "the construct this rule is anchored on was not found: "+what)
}

func loadFindings(verif string) ([]Finding, error) {
	b, err := os.ReadFile(filepath.Join(verif, "known_findings.json"))
	if err != nil {
		if os.IsNotExist(err) {
			return nil, nil
		}
		return nil, err
	}
	var f struct {
		Findings []Finding `json:"findings"`
	}
	if err := json.Unmarshal(b, &f); err != nil {
		return nil, fmt.Errorf("known_findings.json: %w", err)
	}
	return f.Findings, nil
}

// finish prints the verdict lines, writes evidence and returns the exit code.
func (c *Ctx) finish(onlyKey string) int {
	// coverage floors
	var rules []string
	for r := range c.floors {
		rules = append(rules, r)
	}
	sort.Strings(rules)
	for _, r := range rules {
		if c.counts[r] < c.floors[r] {
			c.fail("coverage-floor", r, "", fmt.Sprintf("rule %s matched %d instances, fewer than half of what was confirmed by hand (floor %d)", r, c.counts[r], c.floors[r]))
		}
	}

	findings, err := loadFindings(c.Verif)
	if err != nil {
		fmt.Println("ERROR:", err)
		return 2
	}
	known := map[string]Finding{}
	for _, f := range findings {
		if f.Status == "known" {
			known[f.Key] = f
		}
	}

	var viol, knownHit []Obligation
	discharged := 0
	for _, o := range c.obs {
		if onlyKey != "" && o.Key != onlyKey {
			continue
		}
		switch {
		case o.OK:
			discharged++
		default:
			if _, ok := known[o.Key]; ok {
				knownHit = append(knownHit, o)
			} else if kf, ok := knownByBareFunc(known, o.Key); ok {
				// the same construct after a method <-> function conversion of the enclosing function
				known[o.Key] = kf
				knownHit = append(knownHit, o)
			} else {
				viol = append(viol, o)
			}
		}
	}
	// known findings that no longer fail
	failing := map[string]bool{}
	for _, o := range c.obs {
		if !o.OK {
			failing[o.Key] = true
		}
	}

	// per-rule summary
	rs := map[string][2]int{}
	for _, o := range c.obs {
		v := rs[o.Rule]
		v[0]++
		if o.OK {
			v[1]++
		}
		rs[o.Rule] = v
	}
	var rnames []string
	for r := range rs {
		rnames = append(rnames, r)
	}
	sort.Strings(rnames)
	if !c.quiet {
		for _, r := range rnames {
			fl := ""
			if f, ok := c.floors[r]; ok {
				fl = fmt.Sprintf(" (floor %d)", f)
			}
			fmt.Printf("rule %-18s obligations=%d discharged=%d%s  %s\n", r, rs[r][0], rs[r][1], fl, c.rulesDoc[r])
		}
	}
	if c.dump {
		for _, o := range c.obs {
			fmt.Printf("  [%v] %s @%s %s\n", o.OK, o.Key, o.Pos, o.Detail)
		}
	}
	for _, o := range knownHit {
		fmt.Printf("KNOWN-FINDING: property=%s %s %s [%s] witness: %s\n", c.Prop, o.Key, known[o.Key].What, o.Pos, known[o.Key].Witness)
	}
	for _, f := range findings {
		if f.Status == "known" && !failing[f.Key] && c.seenKeys[f.Key] {
			fmt.Printf("RESOLVED-FINDING: property=%s %s no longer fails (update known_findings.json)\n", c.Prop, f.Key)
		}
	}
	repDir := filepath.Join(c.Verif, "evidence", "reports")
	if len(viol) > 0 {
		os.MkdirAll(repDir, 0o755)
	}
	for i, o := range viol {
		path := filepath.Join(repDir, fmt.Sprintf("%s-%d.json", c.Prop, i+1))
		rep := map[string]any{"property": c.Prop, "rule": o.Rule, "key": o.Key, "pos": o.Pos, "detail": o.Detail,
			"rule_text": c.rulesDoc[o.Rule], "tier": c.Tier}
		b, _ := json.MarshalIndent(rep, "", " ")
		os.WriteFile(path, b, 0o644)
		fmt.Printf("  violation: %s at %s: %s\n", o.Key, o.Pos, o.Detail)
		fmt.Printf("VIOLATION property=%s replay=%s\n", c.Prop, path)
	}

	// evidence
	total := 0
	distinct := map[string]bool{}
	for _, o := range c.obs {
		if onlyKey != "" && o.Key != onlyKey {
			continue
		}
		total++
		distinct[o.Key] = true
	}
	samples := []any{}
	perRule := map[string]int{}
	for _, o := range c.obs {
		if perRule[o.Rule] < 2 && len(samples) < 40 {
			perRule[o.Rule]++
			samples = append(samples, o)
		}
	}
	ruleCounts := map[string]any{}
	for _, r := range rnames {
		m := map[string]any{"instances": rs[r][0], "discharged": rs[r][1], "rule": c.rulesDoc[r]}
		if f, ok := c.floors[r]; ok {
			m["floor"] = f
		}
		ruleCounts[r] = m
	}
	var kf []any
	for _, o := range knownHit {
		kf = append(kf, map[string]any{"key": o.Key, "pos": o.Pos, "what": known[o.Key].What, "witness": known[o.Key].Witness})
	}
	var vs []any
	for _, o := range viol {
		vs = append(vs, o)
	}
	ev := map[string]any{
		"property_id": c.Prop,
		"tier":        c.Tier,
		"seed":        c.Seed,
		"level":       "other",
		"coverage": map[string]any{
			"explanation": fmt.Sprintf("Static analysis of /repo's current source (go/packages type-checked syntax, go/ssa where a rule needs dominators or value identity); nothing is executed. "+
				"Each obligation is one code construct (table row, return path, call site, writer, grammar attribute) checked against the rule named in its key; "+
				"the rules are structural necessary conditions of %s, not the behaviour itself. %s", c.Prop, strings.Join(c.notes, " ")),
			"obligations":         total,
			"discharged":          discharged,
			"known_findings":      len(knownHit),
			"evaluations":         total,
			"distinct_nontrivial": len(distinct),
			"rule":                "one obligation per anchored construct; distinct = distinct rule|construct keys; all are non-trivial (each compares source-derived facts with an oracle or a sibling construct)",
			"rules":               ruleCounts,
			"analysed":            c.analysed,
			"samples":             samples,
			"known":               kf,
			"violations_detail":   vs,
			"checker_cmd":         fmt.Sprintf("bin/check %s %s", c.Prop, c.Tier),
			"trusted_base": []string{"go/packages + go/types + go/ssa (x/tools v0.29.0)", "oracle tables in /verif/oracle (hand-entered from Intel SDM vol.2 / PE-COFF spec)",
				"third-party modules of gosk (pigeon runtime, samber/lo, struc, colog) are not analysed beyond their call-graph edges"},
			"exhaustive": true,
		},
		"assumptions": []string{"the Go type checker and SSA builder are correct", "oracle tables are correct", "single-goroutine execution (checked: no go statements in non-generated code)"},
		"wall_s":      time.Since(c.start).Seconds(),
		"violations":  len(viol),
	}
	if onlyKey == "" {
		os.MkdirAll(filepath.Join(c.Verif, "evidence"), 0o755)
		b, _ := json.MarshalIndent(ev, "", " ")
		if err := os.WriteFile(filepath.Join(c.Verif, "evidence", c.Prop+".json"), b, 0o644); err != nil {
			fmt.Println("ERROR: cannot write evidence:", err)
			return 2
		}
	}
	fmt.Printf("property=%s tier=%s obligations=%d discharged=%d known_findings=%d violations=%d wall=%.1fs\n",
		c.Prop, c.Tier, total, discharged, len(knownHit), len(viol), time.Since(c.start).Seconds())
	if len(viol) > 0 {
		return 1
	}
	return 0
}

// printFailKeys is the output of a self-test variant run: one line per failing obligation
// (floors included), nothing else.
func (c *Ctx) printFailKeys() {
	for r, fl := range c.floors {
		if c.counts[r] < fl {
			fmt.Printf("FAILKEY coverage-floor|%s\n", r)
		}
	}
	for _, o := range c.obs {
		if !o.OK {
			fmt.Printf("FAILKEY %s\n", o.Key)
		}
	}
}

var recvInKey = regexp.MustCompile(`\(\*?([\w./-]+)\.\w+\)\.`)

// bareFuncKey rewrites `(*pkg/path.Type).Method` / `(pkg/path.Type).Method` inside an obligation
// key to `pkg/path.Method`: the key of the same construct if the method were a plain function.
func bareFuncKey(k string) string { return recvInKey.ReplaceAllString(k, "$1.") }

// knownByBareFunc: a listed finding whose key differs from k only by the receiver of the
// enclosing function (exactly one such finding).
func knownByBareFunc(known map[string]Finding, k string) (Finding, bool) {
	nk := bareFuncKey(k)
	var hit Finding
	n := 0
	for fk, f := range known {
		if fk != k && bareFuncKey(fk) == nk {
			hit = f
			n++
		}
	}
	return hit, n == 1
}
