package main

// Family T: constant tables in the source compared row by row with an oracle.

import (
	"fmt"
	"go/ast"
	"go/token"
	"go/types"
	"sort"
	"strings"

	"golang.org/x/tools/go/packages"
)

type x86Oracle struct {
	Registers map[string]struct {
		Class string `json:"class"`
		Num   int    `json:"num"`
	} `json:"registers"`
	Noparam map[string]struct {
		B16     string `json:"b16"`
		B32     string `json:"b32"`
		Operand bool   `json:"operand"`
		Mode64  bool   `json:"mode64"`
		Other   bool   `json:"other"`
	} `json:"noparam"`
	Jcc map[string]int `json:"jcc"`
	Jmp map[string]int `json:"jmp"`
}

func loadX86(c *Ctx) *x86Oracle {
	var o x86Oracle
	if !c.oracle("x86.json", &o) {
		return nil
	}
	return &o
}

// ---------------------------------------------------------------------------------------
// T1: register-name tables
// ---------------------------------------------------------------------------------------

func ruleT1(c *Ctx) {
	c.doc("T1", "every register name in a name→number / name→class table carries the number/class the ISA assigns it (oracle/x86.json)")
	o := loadX86(c)
	if o == nil {
		return
	}
	// (a) name -> number switches: func(string) (int|byte, error|bool)
	numTables := []struct{ pkg, fn string }{
		{"internal/codegen", "GetRegisterNumber"},
		{"internal/codegen", "registerToPushPopCode"},
	}
	for _, t := range numTables {
		fd, p := c.L.FuncDecl(t.pkg, t.fn)
		if fd == nil {
			c.anchorMissing("T1", t.pkg+"."+t.fn)
			continue
		}
		info := p.TypesInfo
		n := 0
		type numRow struct {
			keys []ast.Expr
			val  ast.Expr
			pos  token.Pos
			num  *int64 // the row's number when it is its position in an indexed table
		}
		var rows []numRow
		for _, sw := range switchesIn(fd.Body) {
			if !isStringType(tagType(info, sw)) {
				continue
			}
			for _, row := range rowsOf(sw) {
				if row.Def {
					continue
				}
				ret := firstReturn(row.Body)
				if ret == nil || len(ret.Results) == 0 {
					c.fail("T1", fmt.Sprintf("%s.%s[%s]", t.pkg, t.fn, keysStr(info, row.Keys)), c.L.Pos(row.Pos), "undecided: clause does not return a value")
					continue
				}
				rows = append(rows, numRow{keys: row.Keys, val: ret.Results[0], pos: row.Pos})
			}
		}
		// the same table written as a read-only map[string]int the function indexes by the name
		if len(rows) == 0 {
			for _, kv := range readOnlyStringTable(c, p, fd) {
				rows = append(rows, numRow{keys: []ast.Expr{kv.Key}, val: kv.Value, pos: kv.Pos()})
			}
		}
		// the same table written as names-by-number: for num, names := range T { for … if name == x { return num } }
		if len(rows) == 0 {
			for _, r := range namesByNumberTable(p, fd) {
				num := r.num
				rows = append(rows, numRow{keys: r.names, pos: r.pos, num: &num})
			}
		}
		for _, row := range rows {
			var val int64
			ok := false
			if row.num != nil {
				val, ok = *row.num, true
			} else {
				val, ok = constInt(info, row.val)
			}
			for _, k := range row.keys {
				name, kok := constStr(info, k)
				key := fmt.Sprintf("%s.%s[%s]", t.pkg, t.fn, name)
				if !kok || !ok {
					c.fail("T1", key, c.L.Pos(k.Pos()), "undecided: non-constant key or value")
					continue
				}
				n++
				exp, known := o.Registers[name]
				switch {
				case !known:
					c.fail("T1", key, c.L.Pos(k.Pos()), fmt.Sprintf("register name %q is not in the oracle", name))
				case int64(exp.Num) != val:
					c.fail("T1", key, c.L.Pos(k.Pos()), fmt.Sprintf("register %s encoded as %d, ISA number is %d", name, val, exp.Num))
				default:
					c.ok("T1", key, c.L.Pos(k.Pos()), fmt.Sprintf("%s=%d", name, val))
				}
			}
		}
		if n == 0 {
			c.anchorMissing("T1", t.pkg+"."+t.fn+": switch over register names")
		}
	}
	// (b) name -> class: ng_operand.getRegisterType (switch over upper-cased name returning an OperandType constant)
	classOf := map[string]string{"r8": "r8", "r16": "r16", "r32": "r32", "r64": "r64", "sreg": "sreg", "creg": "creg", "dreg": "dreg", "treg": "treg"}
	if fd, p := c.L.FuncDecl("pkg/ng_operand", "getRegisterType"); fd == nil {
		c.anchorMissing("T1", "pkg/ng_operand.getRegisterType")
	} else {
		info := p.TypesInfo
		for _, sw := range switchesIn(fd.Body) {
			if !isStringType(tagType(info, sw)) {
				continue
			}
			for _, row := range rowsOf(sw) {
				if row.Def {
					continue
				}
				ret := firstReturn(row.Body)
				var cls string
				var ok bool
				if ret != nil && len(ret.Results) == 1 {
					cls, ok = constStr(info, ret.Results[0])
				}
				for _, k := range row.Keys {
					name, kok := constStr(info, k)
					key := fmt.Sprintf("pkg/ng_operand.getRegisterType[%s]", name)
					if !kok || !ok {
						c.fail("T1", key, c.L.Pos(k.Pos()), "undecided: non-constant key or class")
						continue
					}
					exp, known := o.Registers[name]
					switch {
					case !known:
						c.fail("T1", key, c.L.Pos(k.Pos()), fmt.Sprintf("register name %q is not in the oracle", name))
					case classOf[cls] != exp.Class:
						c.fail("T1", key, c.L.Pos(k.Pos()), fmt.Sprintf("register %s classified %q, ISA class is %s", name, cls, exp.Class))
					default:
						c.ok("T1", key, c.L.Pos(k.Pos()), name+":"+cls)
					}
				}
			}
		}
	}
	// (c) class predicates over OperandType constants: isR8Type/isR16Type/isR32Type (+ methods)
	preds := []struct{ pkg, fn, class string }{
		{"pkg/ng_operand", "isR8Type", "r8"}, {"pkg/ng_operand", "isR16Type", "r16"}, {"pkg/ng_operand", "isR32Type", "r32"},
		{"pkg/ng_operand", "OperandType.IsR16Type", "r16"}, {"pkg/ng_operand", "OperandType.IsR32Type", "r32"},
		{"internal/codegen", "is32BitRegister", "r32"},
	}
	for _, pr := range preds {
		fd, p := c.L.FuncDecl(pr.pkg, pr.fn)
		if fd == nil {
			c.anchorMissing("T1", pr.pkg+"."+pr.fn)
			continue
		}
		info := p.TypesInfo
		// collect every string constant compared/listed in the function body
		names := map[string]ast.Expr{}
		ast.Inspect(fd.Body, func(n ast.Node) bool {
			switch x := n.(type) {
			case *ast.CaseClause:
				for _, k := range x.List {
					if s, ok := constStr(info, k); ok {
						names[s] = k
					}
				}
			case *ast.BinaryExpr:
				for _, e := range []ast.Expr{x.X, x.Y} {
					if s, ok := constStr(info, e); ok {
						names[s] = e
					}
				}
			}
			return true
		})
		if len(names) == 0 {
			// the same membership written as a lookup in a read-only table: TABLE[x] (a set) or
			// TABLE[x] == K (the keys whose value is K)
			var want ast.Expr
			ast.Inspect(fd.Body, func(n ast.Node) bool {
				if be, ok := n.(*ast.BinaryExpr); ok && be.Op == token.EQL {
					if _, isIx := ast.Unparen(be.X).(*ast.IndexExpr); isIx {
						want = be.Y
					} else if _, isIx := ast.Unparen(be.Y).(*ast.IndexExpr); isIx {
						want = be.X
					}
				}
				return true
			})
			for _, kv := range readOnlyStringTable(c, p, fd) {
				s, ok := constStr(info, kv.Key)
				if !ok {
					continue
				}
				if want != nil {
					wv, ok1 := info.Types[want]
					kvv, ok2 := info.Types[kv.Value]
					if ok1 && ok2 && wv.Value != nil && kvv.Value != nil && wv.Value.ExactString() == kvv.Value.ExactString() {
						names[s] = kv.Key
					}
				} else if isMemberValue(kv.Value) {
					names[s] = kv.Key
				}
			}
		}
		if len(names) == 0 {
			c.anchorMissing("T1", pr.pkg+"."+pr.fn+": member list")
			continue
		}
		seen := map[string]bool{}
		for _, s := range sortedKeys(names) {
			key := fmt.Sprintf("%s.%s[%s]", pr.pkg, pr.fn, s)
			up := strings.ToUpper(s)
			if s == pr.class { // the generic class constant itself ("r16")
				c.ok("T1", key, c.L.Pos(names[s].Pos()), "class constant")
				continue
			}
			exp, known := o.Registers[up]
			if !known || exp.Class != pr.class {
				c.fail("T1", key, c.L.Pos(names[s].Pos()), fmt.Sprintf("%q is listed as a %s register but is not one", s, pr.class))
				continue
			}
			seen[up] = true
			c.ok("T1", key, c.L.Pos(names[s].Pos()), "")
		}
		// completeness: all eight registers of the class must be members (a missing one is
		// silently treated as a different size)
		var missing []string
		for name, r := range o.Registers {
			if r.Class == pr.class && !seen[name] {
				missing = append(missing, name)
			}
		}
		sort.Strings(missing)
		c.check(len(missing) == 0, "T1", fmt.Sprintf("%s.%s:complete", pr.pkg, pr.fn), c.L.Pos(fd.Pos()),
			fmt.Sprintf("%s registers missing from the predicate: %v", pr.class, missing))
	}
	c.floor("T1", 44+24+60+40)
}

func keysStr(info *types.Info, ks []ast.Expr) string {
	var p []string
	for _, k := range ks {
		if s, ok := constStr(info, k); ok {
			p = append(p, s)
		} else if n := constName(info, k); n != "" {
			p = append(p, n)
		} else {
			p = append(p, "?")
		}
	}
	return strings.Join(p, ",")
}

// ---------------------------------------------------------------------------------------
// T3: condition-code table of the jump emitter
// ---------------------------------------------------------------------------------------

// jccTable extracts kind-constant-name -> assigned opcode byte from the switch over
// ocode.OcodeKind in the jump emitter.
func jccTable(c *Ctx) (map[string]int64, map[string]ast.Node, *ast.FuncDecl) {
	fd, p := c.L.FuncDecl("internal/codegen", "handleJcc")
	if fd == nil {
		return nil, nil, nil
	}
	info := p.TypesInfo
	tab := map[string]int64{}
	where := map[string]ast.Node{}
	for _, sw := range switchesIn(fd.Body) {
		if !namedTypeIs(tagType(info, sw), "pkg/ocode", "OcodeKind") {
			continue
		}
		for _, row := range rowsOf(sw) {
			if row.Def || len(row.Body) != 1 {
				continue
			}
			as, ok := row.Body[0].(*ast.AssignStmt)
			if !ok || len(as.Lhs) != 1 || len(as.Rhs) != 1 {
				continue
			}
			v, ok := constInt(info, as.Rhs[0])
			if !ok {
				continue
			}
			for _, k := range row.Keys {
				if n := constName(info, k); n != "" {
					tab[n] = v
					where[n] = k
				}
			}
		}
	}
	// the same rows kept in a package-level map[OcodeKind]byte the handler indexes
	if len(tab) == 0 {
		maps := kindByteMaps(c)
		ast.Inspect(fd.Body, func(n ast.Node) bool {
			ix, ok := n.(*ast.IndexExpr)
			if !ok {
				return true
			}
			id, ok := ast.Unparen(ix.X).(*ast.Ident)
			if !ok {
				return true
			}
			if v, ok := info.Uses[id].(*types.Var); ok && v.Pkg() != nil && v.Parent() == v.Pkg().Scope() {
				for name, val := range maps[v.Name()] {
					tab[name] = val
					where[name] = ix
				}
			}
			return true
		})
	}
	return tab, where, fd
}

func ruleT3(c *Ctx) {
	c.doc("T3", "every conditional-jump kind maps to 0x70+tttn of its condition (all synonyms); near form is 0F, rel8 opcode+0x10; JMP EB/E9, CALL E8, far EA")
	o := loadX86(c)
	if o == nil {
		return
	}
	tab, where, fd := jccTable(c)
	if fd == nil || len(tab) == 0 {
		c.anchorMissing("T3", "internal/codegen.handleJcc: switch over OcodeKind assigning the opcode")
		return
	}
	for _, k := range sortedKeys(tab) {
		mn := strings.TrimPrefix(k, "Op")
		key := "internal/codegen.handleJcc[" + k + "]"
		exp, ok := o.Jcc[mn]
		switch {
		case !ok:
			c.fail("T3", key, c.L.Pos(where[k].Pos()), "kind is not a conditional jump known to the oracle")
		case int64(exp) != tab[k]:
			c.fail("T3", key, c.L.Pos(where[k].Pos()), fmt.Sprintf("%s encoded with opcode %s, ISA opcode is %s", mn, hexb(tab[k]), hexb(int64(exp))))
		default:
			c.ok("T3", key, c.L.Pos(where[k].Pos()), mn+"="+hexb(tab[k]))
		}
	}
	c.floor("T3", 30)
}

// ---------------------------------------------------------------------------------------
// T2: no-operand opcode table
// ---------------------------------------------------------------------------------------

// kindByteMaps returns every package-level map[ocode.OcodeKind]byte composite literal of
// package codegen as var name -> (kind constant name -> byte).
func kindByteMaps(c *Ctx) map[string]map[string]int64 {
	p := c.L.Pkg("internal/codegen")
	out := map[string]map[string]int64{}
	if p == nil {
		return out
	}
	info := p.TypesInfo
	for _, f := range p.Syntax {
		for _, d := range f.Decls {
			gd, ok := d.(*ast.GenDecl)
			if !ok {
				continue
			}
			for _, sp := range gd.Specs {
				vs, ok := sp.(*ast.ValueSpec)
				if !ok || len(vs.Values) != 1 || len(vs.Names) != 1 {
					continue
				}
				cl, ok := vs.Values[0].(*ast.CompositeLit)
				if !ok {
					continue
				}
				m, ok := info.TypeOf(cl).Underlying().(*types.Map)
				if !ok || !namedTypeIs(m.Key(), "pkg/ocode", "OcodeKind") {
					continue
				}
				if b, ok := m.Elem().Underlying().(*types.Basic); !ok || b.Kind() != types.Uint8 {
					continue
				}
				tab := map[string]int64{}
				for _, e := range cl.Elts {
					kv := e.(*ast.KeyValueExpr)
					name := constName(info, kv.Key)
					v, ok := constInt(info, kv.Value)
					if name == "" || !ok {
						tab["?undecided"] = -1
						continue
					}
					tab[name] = v
				}
				out[vs.Names[0].Name] = tab
			}
		}
	}
	return out
}

func mainGrammar(c *Ctx) *pegGrammar {
	p := c.L.Pkg("internal/gen")
	if p == nil {
		return &pegGrammar{Errs: []string{"package internal/gen not found"}, Rules: map[string]*pegNode{}}
	}
	return extractGrammar(p)
}

func ruleT2(c *Ctx) {
	c.doc("T2", "each reachable row of the no-operand opcode table is the complete encoding of its mnemonic in both BITS modes (oracle/x86.json noparam)")
	o := loadX86(c)
	if o == nil {
		return
	}
	maps := kindByteMaps(c)
	if len(maps) == 0 {
		c.anchorMissing("T2", "internal/codegen: package-level map[ocode.OcodeKind]byte literal")
		return
	}
	g := mainGrammar(c)
	ops, ok := g.literalAlternatives("Opcode")
	if !ok || len(g.Errs) > 0 {
		c.anchorMissing("T2", fmt.Sprintf("grammar rule Opcode as a choice of literals (%v)", g.Errs))
		return
	}
	inGrammar := map[string]bool{}
	for _, s := range ops {
		inGrammar[s] = true
	}
	p1 := c.L.Pkg("internal/pass1")
	if p1 == nil {
		c.anchorMissing("T2", "internal/pass1")
		return
	}
	hm := interpretHandlers(p1)
	if len(hm.Errs) > 0 {
		c.fail("T2", "handler-map-undecided", "", strings.Join(hm.Errs, "; "))
		return
	}
	// a byte table belongs to this rule when the statement driver consults it (opcodeMap in
	// processOcode); a table only an operand-taking handler reads (condition codes, …) is that
	// handler's business
	driverUses := map[string]bool{}
	driverFound := false
	for _, dn := range []string{"processOcode", "GenerateX86"} {
		if fd, dp := c.L.FuncDecl("internal/codegen", dn); fd != nil && fd.Body != nil {
			driverFound = true
			ast.Inspect(fd.Body, func(n ast.Node) bool {
				if id, ok := n.(*ast.Ident); ok {
					if v, ok := dp.TypesInfo.Uses[id].(*types.Var); ok && v.Pkg() != nil && v.Parent() == v.Pkg().Scope() {
						driverUses[v.Name()] = true
					}
				}
				return true
			})
		}
	}
	unreachable := 0
	for _, mv := range sortedKeys(maps) {
		if driverFound && !driverUses[mv] {
			c.ok("T2", "internal/codegen."+mv+"|not consulted by the statement driver", "", "left to the rules of the handler that reads it")
			continue
		}
		tab := maps[mv]
		for _, k := range sortedKeys(tab) {
			key := fmt.Sprintf("internal/codegen.%s[%s]", mv, k)
			if k == "?undecided" {
				c.fail("T2", key, "", "undecided: non-constant key or value in the table literal")
				continue
			}
			mn := strings.TrimPrefix(k, "Op")
			if !inGrammar[mn] || hm.Entries[mn] == nil {
				unreachable++
				continue
			}
			e, known := o.Noparam[mn]
			got := hexb(tab[k])
			switch {
			case !known:
				c.fail("T2", key, "", fmt.Sprintf("mnemonic %s is not in the oracle", mn))
			case e.Operand:
				c.fail("T2", key, "", fmt.Sprintf("%s takes operands (ModR/M or immediate follow the opcode) but is served by a one-byte no-operand table: emits only %s", mn, got))
			case e.Mode64 || e.Other:
				c.fail("T2", key, "", fmt.Sprintf("%s is not encodable in 16/32-bit mode but assembles to %s without a diagnostic", mn, got))
			case e.B16 == got && e.B32 == got:
				c.ok("T2", key, "", mn+"="+got)
			case e.B16 == e.B32:
				c.fail("T2", key, "", fmt.Sprintf("%s emits %s, complete encoding is %s", mn, got, e.B16))
			default:
				c.fail("T2", key, "", fmt.Sprintf("%s emits %s in both modes, complete encoding is %s in BITS 16 and %s in BITS 32", mn, got, e.B16, e.B32))
			}
		}
	}
	c.analysed["T2_rows_unreachable_from_source_text"] = unreachable
	c.floor("T2", 100)
}

// readOnlyStringTable: fd indexes a package-level map[string]T variable that is initialised by
// a composite literal and never written anywhere in its package; its key/value pairs.
func readOnlyStringTable(c *Ctx, p *packages.Package, fd *ast.FuncDecl) []*ast.KeyValueExpr {
	for _, t := range readOnlyMapTables(c, p, fd) {
		if m, ok := p.TypesInfo.TypeOf(t.Index.X).Underlying().(*types.Map); ok && isStringType(m.Key()) {
			return t.Rows
		}
	}
	return nil
}

type mapTable struct {
	Index *ast.IndexExpr // the lookup in the function body
	Var   *types.Var
	Rows  []*ast.KeyValueExpr
}

// readOnlyMapTables: every lookup fd makes in a package-level map variable that is initialised
// by a composite literal and never written, handed out or re-assigned anywhere in its package.
func readOnlyMapTables(c *Ctx, p *packages.Package, fd *ast.FuncDecl) []mapTable {
	info := p.TypesInfo
	var out []mapTable
	ast.Inspect(fd.Body, func(n ast.Node) bool {
		ix, ok := n.(*ast.IndexExpr)
		if !ok {
			return true
		}
		id, ok := ix.X.(*ast.Ident)
		if !ok {
			return true
		}
		v, ok := info.Uses[id].(*types.Var)
		if !ok || v.Parent() != p.Types.Scope() {
			return true
		}
		if _, ok := v.Type().Underlying().(*types.Map); !ok {
			return true
		}
		if rows := readOnlyRowsOf(p, v); rows != nil {
			out = append(out, mapTable{ix, v, rows})
		}
		return true
	})
	return out
}

func readOnlyRowsOf(p *packages.Package, tbl *types.Var) []*ast.KeyValueExpr {
	info := p.TypesInfo
	var lit *ast.CompositeLit
	written := false
	refersTo := func(e ast.Expr) bool {
		for {
			switch x := e.(type) {
			case *ast.IndexExpr:
				e = x.X
				continue
			case *ast.ParenExpr:
				e = x.X
				continue
			case *ast.Ident:
				return info.Uses[x] == tbl || info.Defs[x] == tbl
			}
			return false
		}
	}
	for _, f := range p.Syntax {
		ast.Inspect(f, func(n ast.Node) bool {
			switch x := n.(type) {
			case *ast.ValueSpec:
				for i, nm := range x.Names {
					if info.Defs[nm] == tbl && i < len(x.Values) {
						if cl, ok := x.Values[i].(*ast.CompositeLit); ok {
							lit = cl
						}
					}
				}
			case *ast.AssignStmt:
				for _, l := range x.Lhs {
					if refersTo(l) {
						written = true
					}
				}
			case *ast.IncDecStmt:
				if refersTo(x.X) {
					written = true
				}
			case *ast.UnaryExpr:
				if x.Op == token.AND && refersTo(x.X) {
					written = true
				}
			case *ast.CallExpr:
				// delete / clear / handing the map to another function
				for _, a := range x.Args {
					if id, ok := a.(*ast.Ident); ok && info.Uses[id] == tbl {
						if fid, ok := x.Fun.(*ast.Ident); !ok || fid.Name != "len" {
							written = true
						}
					}
				}
			}
			return true
		})
	}
	if lit == nil || written {
		return nil
	}
	var out []*ast.KeyValueExpr
	for _, e := range lit.Elts {
		if kv, ok := e.(*ast.KeyValueExpr); ok {
			out = append(out, kv)
		}
	}
	return out
}

// isMemberValue: the value of a set literal's entry — `true`, or the empty struct `struct{}{}` / `{}`.
func isMemberValue(e ast.Expr) bool {
	switch x := e.(type) {
	case *ast.Ident:
		return x.Name == "true"
	case *ast.CompositeLit:
		return len(x.Elts) == 0
	}
	return false
}

type namesRow struct {
	num   int64
	names []ast.Expr
	pos   token.Pos
}

// namesByNumberTable: fd ranges `for K, V := range T` over a package-level array/slice of
// []string initialised by a composite literal, compares an element of V with a parameter and
// returns K; the rows of T with their indexes.
func namesByNumberTable(p *packagesPackage, fd *ast.FuncDecl) []namesRow {
	info := p.TypesInfo
	var out []namesRow
	ast.Inspect(fd.Body, func(n ast.Node) bool {
		rs, ok := n.(*ast.RangeStmt)
		if !ok || out != nil {
			return true
		}
		tid, ok := ast.Unparen(rs.X).(*ast.Ident)
		kid, ok2 := rs.Key.(*ast.Ident)
		if !ok || !ok2 || kid.Name == "_" {
			return true
		}
		tv, ok := info.Uses[tid].(*types.Var)
		if !ok || tv.Pkg() == nil || tv.Parent() != tv.Pkg().Scope() {
			return true
		}
		// returns K somewhere inside
		returnsKey := false
		ast.Inspect(rs.Body, func(m ast.Node) bool {
			if r, ok := m.(*ast.ReturnStmt); ok && len(r.Results) >= 1 {
				e := ast.Unparen(r.Results[0])
				if conv, ok := e.(*ast.CallExpr); ok && len(conv.Args) == 1 {
					e = ast.Unparen(conv.Args[0])
				}
				if id, ok := e.(*ast.Ident); ok && info.Uses[id] == info.Defs[kid] {
					returnsKey = true
				}
			}
			return true
		})
		if !returnsKey {
			return true
		}
		// the initialiser
		var lit *ast.CompositeLit
		for _, file := range p.Syntax {
			for _, d := range file.Decls {
				gd, ok := d.(*ast.GenDecl)
				if !ok {
					continue
				}
				for _, sp := range gd.Specs {
					vs, ok := sp.(*ast.ValueSpec)
					if !ok {
						continue
					}
					for i, nm := range vs.Names {
						if info.Defs[nm] == tv && i < len(vs.Values) {
							lit, _ = ast.Unparen(vs.Values[i]).(*ast.CompositeLit)
						}
					}
				}
			}
		}
		if lit == nil {
			return true
		}
		next := int64(0)
		for _, el := range lit.Elts {
			idx := next
			val := el
			if kv, ok := el.(*ast.KeyValueExpr); ok {
				k, isK := constInt(info, kv.Key)
				if !isK {
					out = nil
					return true
				}
				idx, val = k, kv.Value
			}
			next = idx + 1
			row, ok := ast.Unparen(val).(*ast.CompositeLit)
			if !ok {
				out = nil
				return true
			}
			out = append(out, namesRow{idx, row.Elts, row.Pos()})
		}
		return true
	})
	return out
}
