package main

// Rules added after the first round of independently seeded changes (see DESIGN.md §8b):
// E3 (no mutation of shared parsed objects), E1b (references loaded from package-level
// state are read-only), T7b (one accumulator update per operator), M2 (only the parser
// builds address descriptions), S3e (jump size estimate table), P7e (operand splitter),
// S9c (defined-symbol condition), U7 (undefined-symbol discipline), E4 (symbol table
// writers).

import (
	"fmt"
	"go/ast"
	"go/constant"
	"go/token"
	"go/types"
	"strings"

	"golang.org/x/tools/go/ssa"
)

// ---------------------------------------------------------------------------------------
// E3: shared objects are not mutated after construction
// ---------------------------------------------------------------------------------------

var sharedTypePkgs = []string{"internal/ast", "pkg/asmdb", "pkg/ng_operand"}

func declaredInSharedPkg(t types.Type) (string, bool) {
	if p, ok := t.(*types.Pointer); ok {
		t = p.Elem()
	}
	n, ok := t.(*types.Named)
	if !ok || n.Obj().Pkg() == nil {
		return "", false
	}
	for _, sp := range sharedTypePkgs {
		if strings.HasSuffix(n.Obj().Pkg().Path(), sp) {
			if _, isStruct := n.Underlying().(*types.Struct); isStruct {
				return n.Obj().Name(), true
			}
		}
	}
	return "", false
}

func ruleE3(c *Ctx) {
	c.doc("E3", "objects of the syntax tree, the instruction table and parsed operands are written only while they are being built (stores go to objects allocated in the same function, or happen during package initialisation / in the generated parser): evaluation never changes a node another statement or a later assembly can see")
	chain := initChain(c)
	n := 0
	for _, f := range c.L.RepoFuncs() {
		if c.isGeneratedFn(f) || chain[f] {
			continue
		}
		pk := pkgRel(f)
		if pk == "test" || strings.HasPrefix(pk, "cmd/") {
			continue
		}
		per := 0
		for _, b := range f.Blocks {
			for _, in := range b.Instrs {
				if mu, isMU := in.(*ssa.MapUpdate); isMU {
					// writing into a map held by a shared object
					if u, ok := mu.Map.(*ssa.UnOp); ok && u.Op == token.MUL {
						if mfa, ok := u.X.(*ssa.FieldAddr); ok {
							if tn, shared := declaredInSharedPkg(mfa.X.Type()); shared {
								if _, fresh := rootOf(mfa.X).(*ssa.Alloc); !fresh {
									n++
									per++
									c.fail("E3", fmt.Sprintf("%s|map update %s.%s#%d", shortName(f), tn, fieldName(mfa), per), c.L.Pos(instrPos(in)),
										fmt.Sprintf("%s writes into map %s.%s of an object it did not allocate: a result memoised for one statement is replayed for another (e.g. under a different BITS mode)", shortName(f), tn, fieldName(mfa)))
								}
							}
						}
					}
					continue
				}
				st, ok := in.(*ssa.Store)
				if !ok {
					continue
				}
				fa, ok := st.Addr.(*ssa.FieldAddr)
				if !ok {
					continue
				}
				tn, shared := declaredInSharedPkg(fa.X.Type())
				if !shared {
					continue
				}
				n++
				fld := fieldName(fa)
				// base must be a fresh allocation of this function (possibly through embedded fields)
				base := fa.X
				for {
					if inner, ok := base.(*ssa.FieldAddr); ok {
						base = inner.X
						continue
					}
					break
				}
				if _, fresh := base.(*ssa.Alloc); fresh {
					continue
				}
				per++
				key := fmt.Sprintf("%s|store %s.%s#%d", shortName(f), tn, fld, per)
				pos := c.L.Pos(instrPos(in))
				switch {
				case isConfigSetter(f, base):
					c.ok("E3", key, pos, "configuration setter on its own receiver (operand objects are fresh per statement; P3 checks they are configured before use)")
				case nilGuardedFill(st, fa):
					c.ok("E3", key, pos, "exception: fills a nil field from the node's own value (idempotent)")
				default:
					c.fail("E3", key, pos, fmt.Sprintf("%s writes field %s of a %s it did not allocate: the change is visible to every other holder of that object (a later statement, a stored EQU value, the next assembly)", shortName(f), fld, tn))
				}
			}
		}
	}
	c.analysed["E3_field_stores_on_shared_types"] = n
	c.check(n >= 20, "E3", "stores scanned", "", fmt.Sprintf("%d field stores on syntax-tree / table / operand types examined", n))
}

// isConfigSetter: method With* storing into its own receiver.
func isConfigSetter(f *ssa.Function, base ssa.Value) bool {
	if f.Signature.Recv() == nil || !strings.HasPrefix(f.Name(), "With") || len(f.Params) == 0 {
		return false
	}
	return base == f.Params[0]
}

// nilGuardedFill: the store is control-dependent on `<same field> == nil`.
func nilGuardedFill(st *ssa.Store, fa *ssa.FieldAddr) bool {
	b := st.Block()
	for d := b; d != nil; d = d.Idom() {
		if len(d.Preds) != 1 {
			continue
		}
		iff, ok := d.Preds[0].Instrs[len(d.Preds[0].Instrs)-1].(*ssa.If)
		if !ok || d.Preds[0].Succs[0] != d {
			continue
		}
		bo, ok := iff.Cond.(*ssa.BinOp)
		if !ok || bo.Op != token.EQL {
			continue
		}
		if k, ok := bo.Y.(*ssa.Const); ok && k.IsNil() {
			if u, ok := bo.X.(*ssa.UnOp); ok && u.Op == token.MUL {
				if fa2, ok := u.X.(*ssa.FieldAddr); ok && fa2.Field == fa.Field && fieldName(fa2) == fieldName(fa) {
					return true
				}
			}
		}
	}
	return false
}

// ---------------------------------------------------------------------------------------
// E1b: references obtained from package-level state are read-only after init
// ---------------------------------------------------------------------------------------

func ruleE1b(c *Ctx) {
	c.doc("E1b", "a slice, map or pointer loaded from a package-level variable (directly or through a struct copied out of it) is never written through, copied into or appended to outside package initialisation")
	chain := initChain(c)
	sites := 0
	for _, f := range c.L.RepoFuncs() {
		if chain[f] || c.isGeneratedFn(f) {
			continue
		}
		tainted := map[ssa.Value]*ssa.Global{}
		allocTaint := map[*ssa.Alloc]*ssa.Global{}
		for changed := true; changed; {
			changed = false
			for _, b := range f.Blocks {
				for _, in := range b.Instrs {
					switch x := in.(type) {
					case *ssa.Store:
						// storing a tainted value (struct holding references) into a local
						if g := tainted[x.Val]; g != nil {
							if al, ok := rootOf(x.Addr).(*ssa.Alloc); ok && allocTaint[al] == nil {
								allocTaint[al] = g
								changed = true
							}
						}
					case ssa.Value:
						if tainted[x] != nil {
							continue
						}
						var g *ssa.Global
						switch y := x.(type) {
						case *ssa.UnOp:
							if y.Op == token.MUL {
								r := rootOf(y.X)
								if gg, ok := r.(*ssa.Global); ok && gg.Pkg != nil && strings.HasPrefix(gg.Pkg.Pkg.Path(), modPath) {
									g = gg
								}
								if al, ok := r.(*ssa.Alloc); ok && allocTaint[al] != nil {
									g = allocTaint[al]
								}
								if g == nil {
									g = tainted[y.X]
								}
							}
						case *ssa.Field:
							g = tainted[y.X]
						case *ssa.FieldAddr:
							g = tainted[y.X]
						case *ssa.IndexAddr:
							g = tainted[y.X]
						case *ssa.Index:
							g = tainted[y.X]
						case *ssa.Lookup:
							g = tainted[y.X]
						case *ssa.Slice:
							g = tainted[y.X]
						case *ssa.Extract:
							g = tainted[y.Tuple]
						case *ssa.Phi:
							for _, e := range y.Edges {
								if tainted[e] != nil {
									g = tainted[e]
								}
							}
						case *ssa.ChangeType:
							g = tainted[y.X]
						}
						if g != nil && holdsReference(x.Type()) {
							tainted[x] = g
							changed = true
						}
					}
				}
			}
		}
		if len(tainted) == 0 {
			continue
		}
		per := 0
		report := func(in ssa.Instruction, g *ssa.Global, how string) {
			per++
			sites++
			c.fail("E1b", fmt.Sprintf("%s|%s via %s#%d", shortName(f), how, g.Name(), per), c.L.Pos(instrPos(in)),
				fmt.Sprintf("%s %s storage reachable from package-level variable %s after initialisation: what one assembly writes, the next one reads", shortName(f), how, g.Name()))
		}
		for _, b := range f.Blocks {
			for _, in := range b.Instrs {
				switch x := in.(type) {
				case *ssa.Store:
					// element / pointee stores through a tainted reference
					switch a := x.Addr.(type) {
					case *ssa.IndexAddr:
						if g := tainted[a.X]; g != nil {
							if _, isSlice := a.X.Type().Underlying().(*types.Slice); isSlice {
								report(in, g, "writes an element of")
							}
							if _, isPtr := a.X.Type().Underlying().(*types.Pointer); isPtr {
								report(in, g, "writes an element of")
							}
						}
					case *ssa.FieldAddr:
						if g := tainted[a.X]; g != nil {
							if _, isPtr := a.X.Type().Underlying().(*types.Pointer); isPtr {
								if _, local := rootOf(a.X).(*ssa.Alloc); !local {
									report(in, g, "writes a field of")
								}
							}
						}
					}
				case *ssa.MapUpdate:
					if g := tainted[x.Map]; g != nil {
						report(in, g, "updates a map in")
					}
				case *ssa.Call:
					if bi, ok := x.Call.Value.(*ssa.Builtin); ok {
						switch bi.Name() {
						case "copy":
							if g := tainted[x.Call.Args[0]]; g != nil {
								report(in, g, "copies into")
							}
						case "append":
							if g := tainted[x.Call.Args[0]]; g != nil {
								report(in, g, "appends to")
							}
						case "delete", "clear":
							if g := tainted[x.Call.Args[0]]; g != nil {
								report(in, g, bi.Name()+"s")
							}
						}
					}
				}
			}
		}
	}
	c.ok("E1b", "functions scanned", "", fmt.Sprintf("%d write sites through package-level references", sites))
}

func holdsReference(t types.Type) bool {
	switch u := t.Underlying().(type) {
	case *types.Slice, *types.Map, *types.Pointer, *types.Chan:
		return true
	case *types.Struct:
		for i := 0; i < u.NumFields(); i++ {
			if holdsReference(u.Field(i).Type()) {
				return true
			}
		}
	case *types.Array:
		return holdsReference(u.Elem())
	case *types.Tuple:
		for i := 0; i < u.Len(); i++ {
			if holdsReference(u.At(i).Type()) {
				return true
			}
		}
	}
	return false
}

// ---------------------------------------------------------------------------------------
// T7b: one accumulator update per operator
// ---------------------------------------------------------------------------------------

func ruleT7b(c *Ctx) {
	c.doc("T7b", "in the evaluator each operator clause updates the accumulator exactly once (no post-adjustment of the result)")
	for _, fn := range []string{"(*AddExp).Eval", "(*MultExp).Eval"} {
		fd, p := c.L.FuncDecl("internal/ast", fn)
		if fd == nil {
			c.anchorMissing("T7b", "internal/ast."+fn)
			continue
		}
		info := p.TypesInfo
		check := func(op string, body []ast.Stmt, pos token.Pos) {
			// accumulator = LHS of the first arithmetic assignment
			var acc string
			count := 0
			for _, st := range body {
				ast.Inspect(st, func(n ast.Node) bool {
					as, ok := n.(*ast.AssignStmt)
					if !ok || len(as.Lhs) != 1 {
						return true
					}
					// any operator-assignment counts (+= … but also >>=, &=, …: a shift standing in
					// for a division is a second, different update)
					compound := as.Tok != token.ASSIGN && as.Tok != token.DEFINE
					isArith := compound
					if as.Tok == token.ASSIGN {
						if _, ok := ast.Unparen(as.Rhs[0]).(*ast.BinaryExpr); ok {
							isArith = true
						}
						if _, ok := ast.Unparen(as.Rhs[0]).(*ast.UnaryExpr); ok {
							isArith = true
						}
					}
					if !isArith {
						return true
					}
					l := types.ExprString(as.Lhs[0])
					if acc == "" {
						acc = l
					}
					if l == acc {
						count++
					}
					return true
				})
			}
			if acc == "" {
				return
			}
			c.check(count == 1, "T7b", fmt.Sprintf("internal/ast.%s[%q]", fn, op), c.L.Pos(pos), fmt.Sprintf("operator %q updates %s %d times; the value of `a %s b` is a single Go operation on the accumulator", op, acc, count, op))
		}
		ast.Inspect(fd.Body, func(n ast.Node) bool {
			switch x := n.(type) {
			case *ast.IfStmt:
				if be, ok := ast.Unparen(x.Cond).(*ast.BinaryExpr); ok && be.Op == token.EQL {
					for _, e := range []ast.Expr{be.X, be.Y} {
						if s, ok := constStr(info, e); ok {
							if _, isOp := opTok[s]; isOp {
								check(s, x.Body.List, x.Pos())
							}
						}
					}
				}
			case *ast.SwitchStmt:
				if x.Tag != nil && isStringType(info.TypeOf(x.Tag)) {
					for _, row := range rowsOf(x) {
						for _, k := range row.Keys {
							if s, ok := constStr(info, k); ok {
								if _, isOp := opTok[s]; isOp {
									check(s, row.Body, row.Pos)
								}
							}
						}
					}
				}
			}
			return true
		})
	}
	c.floor("T7b", 5)
}

// ---------------------------------------------------------------------------------------
// M2: only the operand parser builds address descriptions
// ---------------------------------------------------------------------------------------

func ruleM2(c *Ctx) {
	c.doc("M2", "a MemoryInfo (parsed effective address) is created only by the operand parser; the encoder and the sizing code receive the parser's own object, never a re-derived copy")
	n := 0
	for _, f := range c.L.RepoFuncs() {
		if c.isGeneratedFn(f) {
			continue
		}
		pk := pkgRel(f)
		if pk == "test" {
			continue
		}
		per := 0
		for _, b := range f.Blocks {
			for _, in := range b.Instrs {
				al, ok := in.(*ssa.Alloc)
				if !ok {
					continue
				}
				pt, ok := al.Type().Underlying().(*types.Pointer)
				if !ok || !namedTypeIs(pt.Elem(), "pkg/ng_operand", "MemoryInfo") {
					continue
				}
				per++
				n++
				c.fail("M2", fmt.Sprintf("%s|MemoryInfo built outside the parser#%d", shortName(f), per), c.L.Pos(instrPos(in)),
					shortName(f)+" constructs or copies a MemoryInfo: the address that gets encoded is no longer the one that was parsed")
			}
		}
	}
	// GetMemoryInfo hands out the parsed object itself
	g := c.L.SSAFunc("pkg/ng_operand", "(*OperandPegImpl).GetMemoryInfo")
	if g == nil {
		c.anchorMissing("M2", "ng_operand.(*OperandPegImpl).GetMemoryInfo")
	} else {
		ok := true
		for _, b := range g.Blocks {
			ret, isRet := b.Instrs[len(b.Instrs)-1].(*ssa.Return)
			if !isRet {
				continue
			}
			v := ret.Results[0]
			if k, isK := v.(*ssa.Const); isK && k.IsNil() {
				continue
			}
			if !isFieldLoad(v, "Memory") {
				ok = false
			}
		}
		c.check(ok, "M2", "GetMemoryInfo|returns the parsed object", c.L.Pos(g.Pos()), "GetMemoryInfo must return parsedOperand.Memory itself (or nil)")
	}
	c.ok("M2", "allocations scanned", "", fmt.Sprintf("%d MemoryInfo allocations outside the parser", n))
	c.floor("M2", 2)
}

// ---------------------------------------------------------------------------------------
// S3e: jump size estimate table
// ---------------------------------------------------------------------------------------

func ruleS3e(c *Ctx) {
	c.doc("S3e", "the pass-1 jump size estimate maps (mode, mnemonic class) to the size of the form it stands for: 16-bit short jump 2 / near call 3; 32-bit near JMP and CALL 5 (E9/E8 rel32), near Jcc 6 (0F 8x rel32)")
	f := c.L.SSAFunc("internal/pass1", "estimateJumpSize")
	if f == nil {
		c.anchorMissing("S3e", "pass1.estimateJumpSize")
		return
	}
	// the mnemonic is the string parameter; the mode is the BitMode parameter, or — when the
	// estimate is a method of the pass — the BitMode field of its receiver
	var name, mode *ssa.Parameter
	for _, prm := range f.Params {
		if isStringType(prm.Type()) && name == nil {
			name = prm
		}
		if namedTypeIs(prm.Type(), "pkg/cpu", "BitMode") {
			mode = prm
		}
	}
	if name == nil {
		c.fail("S3e", "estimateJumpSize|signature", c.L.Pos(f.Pos()), "undecided: expected a mnemonic parameter")
		return
	}
	paths, ok := enumPaths(f, 512)
	if !ok {
		c.fail("S3e", "estimateJumpSize|paths", c.L.Pos(f.Pos()), "undecided: too many paths")
		return
	}
	want := map[string]int64{"16/JMP": 2, "16/Jcc": 2, "16/CALL": 3, "32/JMP": 5, "32/Jcc": 6, "32/CALL": 5}
	for _, key := range sortedKeys(want) {
		parts := strings.Split(key, "/")
		m, cls := parts[0], parts[1]
		var got []int64
		undecided := ""
		for i := range paths {
			p := &paths[i]
			feasible := true
			for _, g := range p.Guards {
				val, decided := evalJumpGuard(p, g.Cond, name, mode, m, cls)
				if !decided {
					undecided = "a condition on the path is not a comparison of the mnemonic with a constant or of the mode with 16/32"
					feasible = false
					break
				}
				if val != g.Taken {
					feasible = false
					break
				}
			}
			if !feasible {
				continue
			}
			v := p.resolve(p.Ret.Results[0])
			if k, ok := v.(*ssa.Const); ok && isIntConst(k) {
				got = append(got, k.Int64())
			} else {
				undecided = "returned size is not a constant on this path"
			}
		}
		k := "estimateJumpSize|" + key
		switch {
		case undecided != "" && len(got) == 0:
			c.fail("S3e", k, c.L.Pos(f.Pos()), "undecided: "+undecided)
		case len(got) != 1:
			c.fail("S3e", k, c.L.Pos(f.Pos()), fmt.Sprintf("undecided: %d feasible paths (%v)", len(got), got))
		default:
			c.check(got[0] == want[key], "S3e", k, c.L.Pos(f.Pos()), fmt.Sprintf("estimate for %s in %s-bit mode is %d bytes, the form it stands for has %d", cls, m, got[0], want[key]))
		}
	}
	c.floor("S3e", 6)
}

// evalJumpGuard evaluates a guard of estimateJumpSize for a concrete (mode, class).
func evalJumpGuard(p *pathInfo, cond ssa.Value, name, mode *ssa.Parameter, m, cls string) (val, decided bool) {
	cond = p.resolve(cond)
	bo, ok := cond.(*ssa.BinOp)
	if !ok || (bo.Op != token.EQL && bo.Op != token.NEQ) {
		// phi of booleans from && lowering resolved by the path
		if k, ok := cond.(*ssa.Const); ok && k.Value != nil && k.Value.Kind() == constant.Bool {
			return constant.BoolVal(k.Value), true
		}
		return false, false
	}
	x, y := bo.X, bo.Y
	k, isK := y.(*ssa.Const)
	if !isK {
		k, isK = x.(*ssa.Const)
		x = y
	}
	if !isK || k.Value == nil {
		return false, false
	}
	var eq bool
	switch {
	case x == name && k.Value.Kind() == constant.String:
		s := constant.StringVal(k.Value)
		// class representative: Jcc stands for any conditional mnemonic (not JMP, not CALL)
		eq = (cls == "JMP" && s == "JMP") || (cls == "CALL" && s == "CALL")
		if cls == "Jcc" && s != "JMP" && s != "CALL" {
			// comparison with one specific conditional mnemonic: cannot be decided for the class
			return false, false
		}
	case ((mode != nil && x == ssa.Value(mode)) || (mode == nil && isFieldLoad(x, "BitMode"))) && k.Value.Kind() == constant.Int:
		v, _ := constant.Int64Val(k.Value)
		eq = (m == "16" && v == 16) || (m == "32" && v == 32)
	default:
		return false, false
	}
	if bo.Op == token.NEQ {
		return !eq, true
	}
	return eq, true
}

// ---------------------------------------------------------------------------------------
// P7e: the ocode line splitter
// ---------------------------------------------------------------------------------------

func ruleP7e(c *Ctx) {
	c.doc("P7e", "an ocode line without operand text yields zero operands: the operand text is split on ',' only under a test that it is non-empty (otherwise an empty list becomes one empty operand, which the data emitters turn into a zero byte)")
	f := c.L.SSAFunc("internal/ocode_client", "parseLineToOcode")
	if f == nil {
		c.anchorMissing("P7e", "ocode_client.parseLineToOcode")
		return
	}
	n := 0
	callsIn(f, func(ci ssa.CallInstruction) {
		if calleeName(ci.Common()) != "strings.Split" {
			return
		}
		n++
		arg := ci.Common().Args[0]
		guarded := false
		for _, b := range f.Blocks {
			iff, ok := b.Instrs[len(b.Instrs)-1].(*ssa.If)
			if !ok {
				continue
			}
			// the true branch must dominate the split
			if !(b.Succs[0].Dominates(ci.Block()) && len(b.Succs[0].Preds) == 1) {
				continue
			}
			bo, ok := iff.Cond.(*ssa.BinOp)
			if !ok {
				continue
			}
			// len(fields) > 1   (fields = strings.Fields(line); the argument is Join(fields[1:]))
			if call, ok := bo.X.(*ssa.Call); ok && bo.Op == token.GTR {
				if bi, ok := call.Call.Value.(*ssa.Builtin); ok && bi.Name() == "len" {
					if k, ok := bo.Y.(*ssa.Const); ok && isIntConst(k) && k.Int64() >= 1 {
						if fc, ok := call.Call.Args[0].(*ssa.Call); ok && calleeName(&fc.Call) == "strings.Fields" {
							guarded = true
						}
					}
				}
			}
			// the argument is Join(S, …) with S = F[k:] (or F itself), F = strings.Fields(line): blank-free
			// words, so the joined text is non-empty exactly when S has an element:
			// len(S) > 0, len(S) >= 1, len(S) != 0, len(F) > c with c >= k
			if jc, ok := arg.(*ssa.Call); ok && calleeName(&jc.Call) == "strings.Join" {
				S := jc.Call.Args[0]
				base, low := S, int64(0)
				if sl, ok := S.(*ssa.Slice); ok && sl.High == nil && sl.Max == nil {
					base = sl.X
					if sl.Low != nil {
						if k, ok := sl.Low.(*ssa.Const); ok && isIntConst(k) {
							low = k.Int64()
						} else {
							base = nil
						}
					}
				}
				if fc, ok := base.(*ssa.Call); ok && calleeName(&fc.Call) == "strings.Fields" {
					if call, ok := bo.X.(*ssa.Call); ok {
						if bi, ok := call.Call.Value.(*ssa.Builtin); ok && bi.Name() == "len" {
							if k, ok := bo.Y.(*ssa.Const); ok && isIntConst(k) {
								need := int64(-1) // the least length the true branch guarantees
								switch bo.Op {
								case token.GTR:
									need = k.Int64() + 1
								case token.GEQ:
									need = k.Int64()
								case token.NEQ:
									if k.Int64() == 0 {
										need = 1
									}
								}
								if call.Call.Args[0] == S && need >= 1 {
									guarded = true
								}
								if call.Call.Args[0] == base && need >= low+1 {
									guarded = true
								}
							}
						}
					}
				}
			}
			// arg != ""  /  len(arg) > 0
			if bo.Op == token.NEQ && (bo.X == arg || bo.Y == arg) {
				if k, ok := bo.Y.(*ssa.Const); ok && k.Value != nil && k.Value.Kind() == constant.String && constant.StringVal(k.Value) == "" {
					guarded = true
				}
			}
			if call, ok := bo.X.(*ssa.Call); ok && bo.Op == token.GTR {
				if bi, ok := call.Call.Value.(*ssa.Builtin); ok && bi.Name() == "len" && call.Call.Args[0] == arg {
					guarded = true
				}
			}
		}
		c.check(guarded, "P7e", "parseLineToOcode|split only non-empty operand text", c.L.Pos(instrPos(ci)), "strings.Split is applied to operand text that may be empty: Split(\"\", \",\") is one empty operand")
	})
	c.check(n == 1, "P7e", "parseLineToOcode|one split", c.L.Pos(f.Pos()), fmt.Sprintf("%d strings.Split calls", n))
	c.floor("P7e", 2)
}

// ---------------------------------------------------------------------------------------
// S9c: what makes a GLOBAL symbol "defined"
// ---------------------------------------------------------------------------------------

func ruleS9c(c *Ctx) {
	c.doc("S9c", "a GLOBAL name is emitted as a defined section-1 symbol exactly when it is present in the symbol table: every branch on the lookup uses the lookup's presence flag itself, no further condition on the name or address")
	f := c.L.SSAFunc("internal/filefmt", "(*CoffFormat).generateSymbolEntries")
	if f == nil {
		c.anchorMissing("S9c", "filefmt.generateSymbolEntries")
		return
	}
	n := 0
	for _, b := range f.Blocks {
		for _, in := range b.Instrs {
			lk, ok := in.(*ssa.Lookup)
			if !ok || !lk.CommaOk || !isFieldLoad(lk.X, "SymTable") {
				continue
			}
			n++
			var okv ssa.Value
			derived := map[ssa.Value]bool{lk: true}
			for changed := true; changed; {
				changed = false
				for _, bb := range f.Blocks {
					for _, i2 := range bb.Instrs {
						v, isV := i2.(ssa.Value)
						if !isV || derived[v] {
							continue
						}
						if ex, isEx := v.(*ssa.Extract); isEx && ex.Tuple == lk && ex.Index == 1 {
							okv = ex
						}
						switch v.(type) {
						case *ssa.Call:
							continue // values computed by callees are not conditions on the lookup
						}
						for _, op := range i2.Operands(nil) {
							if op != nil && *op != nil && derived[*op] {
								derived[v] = true
								changed = true
								break
							}
						}
					}
				}
			}
			pure := true
			var where ssa.Instruction
			for _, bb := range f.Blocks {
				if iff, ok := bb.Instrs[len(bb.Instrs)-1].(*ssa.If); ok && derived[iff.Cond] && iff.Cond != okv {
					pure = false
					where = iff
				}
			}
			pos := c.L.Pos(instrPos(in))
			if where != nil {
				pos = c.L.Pos(instrPos(where))
			}
			c.check(pure && okv != nil, "S9c", fmt.Sprintf("generateSymbolEntries|SymTable lookup#%d", n), pos, "a branch depends on the looked-up address (or a re-computed presence flag): some defined labels are written as undefined symbols")
		}
	}
	c.floor("S9c", 1)
}

// ---------------------------------------------------------------------------------------
// U7 / E4: undefined-symbol discipline
// ---------------------------------------------------------------------------------------

func ruleU7(c *Ctx) {
	c.doc("U7", "label references travel as {{.name}} placeholders, which pass 2 resolves with missingkey=error: an undefined label stops the run; no other template form (index, call) is produced, and nothing but a label definition writes the symbol table")
	// (a) pass 2 option
	f := c.L.SSAFunc("internal/pass2", "(*Pass2).Eval")
	if f == nil {
		c.anchorMissing("U7", "pass2.(*Pass2).Eval")
	} else {
		opt := false
		unit := unitOf(f, 3)
		forUnit := func(fn func(ci ssa.CallInstruction)) {
			for _, g := range unit {
				callsIn(g, fn)
			}
		}
		forUnit(func(ci ssa.CallInstruction) {
			if calleeName(ci.Common()) == "(*text/template.Template).Option" {
				if sl, ok := ci.Common().Args[1].(*ssa.Slice); ok {
					if al, ok := sl.X.(*ssa.Alloc); ok && al.Referrers() != nil {
						for _, r := range *al.Referrers() {
							if ia, ok := r.(*ssa.IndexAddr); ok && ia.Referrers() != nil {
								for _, r2 := range *ia.Referrers() {
									if st, ok := r2.(*ssa.Store); ok {
										if k, ok := st.Val.(*ssa.Const); ok && k.Value != nil && k.Value.Kind() == constant.String && constant.StringVal(k.Value) == "missingkey=error" {
											opt = true
										}
									}
								}
							}
						}
					}
				}
			}
		})
		c.check(opt, "U7", "Pass2.Eval|missingkey=error", c.L.Pos(f.Pos()), "placeholders must be resolved with Option(\"missingkey=error\"), otherwise an undefined label prints as 0 / <no value>")
		// the error of Execute is returned
		ret := false
		forUnit(func(ci ssa.CallInstruction) {
			if calleeName(ci.Common()) == "(*text/template.Template).Execute" {
				for eb := range errBranchBlocks(ci) {
					if _, ok := eb.Instrs[len(eb.Instrs)-1].(*ssa.Return); ok {
						ret = true
					}
				}
				// inside a helper: its callers in the unit must abort on its error as well
				if g := ci.Parent(); g != f {
					forUnit(func(cj ssa.CallInstruction) {
						if cj.Common().StaticCallee() == g {
							aborts := false
							for eb := range errBranchBlocks(cj) {
								if _, ok := eb.Instrs[len(eb.Instrs)-1].(*ssa.Return); ok {
									aborts = true
								}
							}
							if !aborts {
								ret = false
							}
						}
					})
				}
			}
		})
		c.check(ret, "U7", "Pass2.Eval|template errors abort", c.L.Pos(f.Pos()), "a template execution error (undefined label) must make pass 2 fail")
	}
	// (b) placeholder forms written by pass 1
	p := c.L.Pkg("internal/pass1")
	if p == nil {
		c.anchorMissing("U7", "internal/pass1")
		return
	}
	n := 0
	for _, file := range p.Syntax {
		var stack []ast.Node
		doneRoot := map[ast.Node]bool{}
		ast.Inspect(file, func(x ast.Node) bool {
			if x == nil {
				stack = stack[:len(stack)-1]
				return true
			}
			stack = append(stack, x)
			// a string literal, or the use of a named string constant, that opens a placeholder
			var bl ast.Expr
			switch y := x.(type) {
			case *ast.BasicLit:
				if y.Kind == token.STRING {
					bl = y
				}
			case *ast.Ident:
				if _, isConst := p.TypesInfo.Uses[y].(*types.Const); isConst {
					bl = y
				}
			}
			if bl == nil {
				return true
			}
			s, ok := constStr(p.TypesInfo, bl)
			if !ok || !strings.Contains(s, "{{") {
				return true
			}
			// the declaration of such a constant is judged where the constant is used
			inConstDecl := false
			for _, anc := range stack {
				if gd, ok := anc.(*ast.GenDecl); ok && gd.Tok == token.CONST {
					inConstDecl = true
				}
			}
			if inConstDecl {
				return true
			}
			// the literal may be one piece of a concatenation: "… {{." + label + "}}" is the same
			// format as "… {{.%s}}" — judge the whole concatenation, variable parts written %s
			var root ast.Expr = bl
			for i := len(stack) - 2; i >= 0; i-- {
				switch par := stack[i].(type) {
				case *ast.BinaryExpr:
					if par.Op == token.ADD {
						root = par
						continue
					}
				case *ast.ParenExpr:
					root = par
					continue
				}
				break
			}
			if doneRoot[root] {
				return true
			}
			doneRoot[root] = true
			var flat func(e ast.Expr) string
			flat = func(e ast.Expr) string {
				if v, ok := constStr(p.TypesInfo, e); ok {
					return v
				}
				switch y := e.(type) {
				case *ast.ParenExpr:
					return flat(y.X)
				case *ast.BinaryExpr:
					if y.Op == token.ADD {
						return flat(y.X) + flat(y.Y)
					}
				}
				return "%s"
			}
			s = flat(root)
			n++
			good := true
			rest := s
			for {
				i := strings.Index(rest, "{{")
				if i < 0 {
					break
				}
				rest = rest[i+2:]
				if !(strings.HasPrefix(rest, ".%s}}") || strings.HasPrefix(rest, "expr:")) {
					good = false
				}
			}
			name := ""
			if fd := enclosingFunc(file, bl.Pos()); fd != nil {
				name = fdName(fd)
			}
			c.check(good, "U7", fmt.Sprintf("pass1.%s|placeholder form#%d", name, n), c.L.Pos(bl.Pos()), fmt.Sprintf("placeholder %q is not of the {{.name}} form: missingkey=error does not apply to function forms such as index, so an undefined symbol resolves silently", s))
			return true
		})
	}
	c.check(n >= 1, "U7", "pass1|placeholders found", "", fmt.Sprintf("%d placeholder formats", n))
	// (c) E4: writers of the pass-1 symbol table
	for _, fn := range c.L.RepoFuncs() {
		if c.isGeneratedFn(fn) {
			continue
		}
		per := 0
		for _, b := range fn.Blocks {
			for _, in := range b.Instrs {
				mu, ok := in.(*ssa.MapUpdate)
				if !ok || !isFieldLoad(mu.Map, "SymTable") {
					continue
				}
				per++
				top := shortName(outermost(fn))
				key := fmt.Sprintf("%s|writes SymTable#%d", shortName(fn), per)
				if top == "internal/pass1.TraverseAST" {
					// value must be the location counter
					c.check(isFieldLoad(mu.Value, "LOC"), "U7", key, c.L.Pos(instrPos(in)), "a label definition stores the current location counter")
				} else {
					c.fail("U7", key, c.L.Pos(instrPos(in)), "the symbol table is written outside the label definition: a placeholder entry makes an undefined or forward symbol look defined")
				}
			}
		}
	}
	c.floor("U7", 5)
}
