package main

// C02: memory operands. T6 (ModR/M / SIB tables vs SDM 2-1..2-3), Q2 (SIB presence not
// inferred from its value), E8 (parsed address parts that nothing consumes), G2 (sign of
// displacements / ignored operators in the operand grammar actions).

import (
	"fmt"
	"go/ast"
	"go/token"
	"go/types"
	"sort"
	"strings"

	"golang.org/x/tools/go/ssa"
)

var rm16 = map[[2]string]int64{
	{"BX", "SI"}: 0, {"BX", "DI"}: 1, {"BP", "SI"}: 2, {"BP", "DI"}: 3,
	{"", "SI"}: 4, {"SI", ""}: 4, {"", "DI"}: 5, {"DI", ""}: 5, {"BP", ""}: 6, {"BX", ""}: 7,
}
var rm32 = map[string]int64{"EAX": 0, "ECX": 1, "EDX": 2, "EBX": 3, "EBP": 5, "ESI": 6, "EDI": 7}

// conjuncts flattens a && b && c.
func conjuncts(e ast.Expr) []ast.Expr {
	e = ast.Unparen(e)
	if be, ok := e.(*ast.BinaryExpr); ok && be.Op == token.LAND {
		return append(conjuncts(be.X), conjuncts(be.Y)...)
	}
	return []ast.Expr{e}
}

func ruleT6(c *Ctx) {
	c.doc("T6", "the ModR/M calculator's register → r/m tables, scale → ss table, mod constants and byte layouts are those of SDM tables 2-1 (16-bit), 2-2 (32-bit) and 2-3 (SIB)")
	fd, p := c.L.FuncDecl("internal/codegen", "calculateModRM")
	if fd == nil {
		c.anchorMissing("T6", "codegen.calculateModRM")
		return
	}
	info := p.TypesInfo
	n16, n32, nsc := 0, 0, 0
	// the calculator and the plain helpers of its package it calls (the SIB part may be a phase of its own)
	t6Bodies := []*ast.BlockStmt{fd.Body}
	ast.Inspect(fd.Body, func(n ast.Node) bool {
		if call, ok := n.(*ast.CallExpr); ok {
			if fn, ok := calleeOf(info, call).(*types.Func); ok && fn.Pkg() == p.Types {
				if hd := funcDeclOf(p, fn); hd != nil && hd.Body != nil && hd.Recv == nil && hd != fd && strings.Contains(strings.ToLower(hd.Name.Name), "sib") {
					t6Bodies = append(t6Bodies, hd.Body)
				}
			}
		}
		return true
	})
	var t6Switches []*ast.SwitchStmt
	for _, body := range t6Bodies {
		t6Switches = append(t6Switches, switchesIn(body)...)
	}
	for _, sw := range t6Switches {
		if sw.Tag != nil {
			// scale switch: tag is an int field
			if sel, ok := ast.Unparen(sw.Tag).(*ast.SelectorExpr); ok && sel.Sel.Name == "Scale" {
				want := map[int64]int64{0: 0x00, 1: 0x00, 2: 0x40, 4: 0x80, 8: 0xC0} // 0: no index register — the ss bits are zero
				for _, row := range rowsOf(sw) {
					if row.Def {
						continue
					}
					for _, k := range row.Keys {
						kv, ok := constInt(info, k)
						rhs := assignTo(row.Body, "scale")
						v, ok2 := int64(0), false
						if rhs != nil {
							v, ok2 = constInt(info, rhs)
						}
						nsc++
						key := fmt.Sprintf("calculateModRM|scale %d", kv)
						if !ok || !ok2 {
							c.fail("T6", key, c.L.Pos(row.Pos), "undecided: non-constant scale row")
							continue
						}
						w, known := want[kv]
						c.check(known && w == v, "T6", key, c.L.Pos(row.Pos), fmt.Sprintf("scale ×%d is encoded ss=%#02x, SDM table 2-3 says %#02x", kv, v, w))
					}
				}
			}
			continue
		}
		for _, row := range rowsOf(sw) {
			if row.Def {
				continue
			}
			rhs := assignTo(row.Body, "rm")
			if rhs == nil || len(row.Keys) != 1 {
				continue
			}
			rmv, ok := constInt(info, rhs)
			if !ok {
				c.fail("T6", "calculateModRM|rm row", c.L.Pos(row.Pos), "undecided: non-constant r/m value")
				continue
			}
			base, index := "?", "?"
			direct, sib := false, false
			for _, cj := range conjuncts(row.Keys[0]) {
				switch x := ast.Unparen(cj).(type) {
				case *ast.Ident:
					if x.Name == "isDirectAddr" {
						direct = true
					}
				case *ast.BinaryExpr:
					if x.Op == token.LOR {
						sib = true // BaseReg == "ESP" || IndexReg != ""
						continue
					}
					if sel, ok := ast.Unparen(x.X).(*ast.SelectorExpr); ok && x.Op == token.EQL {
						if s, ok := constStr(info, x.Y); ok {
							switch sel.Sel.Name {
							case "BaseReg":
								base = s
							case "IndexReg":
								index = s
							}
						}
					}
				}
			}
			is32 := strings.HasPrefix(base, "E") || (direct && rmv == 5) || sib
			switch {
			case sib:
				n32++
				c.check(rmv == 4, "T6", "calculateModRM|32-bit SIB escape", c.L.Pos(row.Pos), fmt.Sprintf("r/m for `SIB follows` is 100b, found %03b", rmv))
				// the condition must name ESP as base and any index
				cs := types.ExprString(row.Keys[0])
				c.check(strings.Contains(cs, `"ESP"`) && strings.Contains(cs, `IndexReg != ""`), "T6", "calculateModRM|SIB condition", c.L.Pos(row.Pos), "a SIB byte is needed when the base is ESP or an index register is present; condition: "+cs)
			case direct:
				if rmv == 6 {
					n16++
					c.ok("T6", "calculateModRM|16-bit [disp16]", c.L.Pos(row.Pos), "mod=00 r/m=110")
				} else if rmv == 5 {
					n32++
					c.ok("T6", "calculateModRM|32-bit [disp32]", c.L.Pos(row.Pos), "mod=00 r/m=101")
				} else {
					c.fail("T6", "calculateModRM|direct address", c.L.Pos(row.Pos), fmt.Sprintf("absolute address is r/m=110 (16-bit) or 101 (32-bit), found %03b", rmv))
				}
				// direct address forces mod=00
				md := assignTo(row.Body, "mod")
				mv, mok := int64(-1), false
				if md != nil {
					mv, mok = constInt(info, md)
				}
				c.check(mok && mv == 0, "T6", fmt.Sprintf("calculateModRM|direct address mod (rm=%03b)", rmv), c.L.Pos(row.Pos), "an absolute address is encoded with mod=00")
			case is32:
				n32++
				key := fmt.Sprintf("calculateModRM|32-bit [%s]", base)
				w, known := rm32[base]
				c.check(known && index == "" && w == rmv, "T6", key, c.L.Pos(row.Pos), fmt.Sprintf("[%s] (index %q) is encoded r/m=%03b, SDM table 2-2 says %03b", base, index, rmv, w))
			default:
				n16++
				if base == "?" {
					base = ""
				}
				if index == "?" {
					index = ""
				}
				key := fmt.Sprintf("calculateModRM|16-bit [%s+%s]", base, index)
				w, known := rm16[[2]string{base, index}]
				c.check(known && w == rmv, "T6", key, c.L.Pos(row.Pos), fmt.Sprintf("[%s+%s] is encoded r/m=%03b, SDM table 2-1 says %03b", base, index, rmv, w))
			}
		}
	}
	// the same rows written as read-only lookup tables: TABLE[mem.BaseReg] → r/m, TABLE[mem.Scale] → ss
	for _, t := range readOnlyMapTables(c, p, fd) {
		sel, ok := ast.Unparen(t.Index.Index).(*ast.SelectorExpr)
		if !ok {
			continue
		}
		switch sel.Sel.Name {
		case "Scale":
			want := map[int64]int64{0: 0x00, 1: 0x00, 2: 0x40, 4: 0x80, 8: 0xC0} // 0: no index register — the ss bits are zero
			for _, kv := range t.Rows {
				k, ok1 := constInt(info, kv.Key)
				v, ok2 := constInt(info, kv.Value)
				nsc++
				key := fmt.Sprintf("calculateModRM|scale %d", k)
				if !ok1 || !ok2 {
					c.fail("T6", key, c.L.Pos(kv.Pos()), "undecided: non-constant scale row")
					continue
				}
				w, known := want[k]
				c.check(known && w == v, "T6", key, c.L.Pos(kv.Pos()), fmt.Sprintf("scale ×%d is encoded ss=%#02x, SDM table 2-3 says %#02x", k, v, w))
			}
		case "BaseReg":
			for _, kv := range t.Rows {
				base, ok1 := constStr(info, kv.Key)
				rmv, ok2 := constInt(info, kv.Value)
				if !ok1 || !ok2 {
					c.fail("T6", "calculateModRM|rm row", c.L.Pos(kv.Pos()), "undecided: non-constant r/m row")
					continue
				}
				if strings.HasPrefix(base, "E") {
					n32++
					w, known := rm32[base]
					c.check(known && w == rmv, "T6", fmt.Sprintf("calculateModRM|32-bit [%s]", base), c.L.Pos(kv.Pos()), fmt.Sprintf("[%s] is encoded r/m=%03b, SDM table 2-2 says %03b", base, rmv, w))
				} else {
					n16++
					w, known := rm16[[2]string{base, ""}]
					c.check(known && w == rmv, "T6", fmt.Sprintf("calculateModRM|16-bit [%s+]", base), c.L.Pos(kv.Pos()), fmt.Sprintf("[%s] is encoded r/m=%03b, SDM table 2-1 says %03b", base, rmv, w))
				}
			}
		}
	}
	c.check(n16 >= 11 && n32 >= 9 && (nsc == 4 || nsc == 5), "T6", "calculateModRM|table sizes", c.L.Pos(fd.Pos()), fmt.Sprintf("%d 16-bit rows, %d 32-bit rows, %d scale rows", n16, n32, nsc))

	// mod constants: every constant assigned to `mod` is 00/01/10 (<<6)
	ast.Inspect(fd.Body, func(n ast.Node) bool {
		as, ok := n.(*ast.AssignStmt)
		if !ok || len(as.Lhs) != 1 || len(as.Rhs) != 1 {
			return true
		}
		if id, ok := as.Lhs[0].(*ast.Ident); ok && id.Name == "mod" {
			if v, ok := constInt(info, as.Rhs[0]); ok {
				if v != 0 && v != 0x40 && v != 0x80 {
					c.fail("T6", fmt.Sprintf("calculateModRM|mod constant %#x", v), c.L.Pos(as.Pos()), "mod must be 00, 01 or 10 in bits 7-6 for memory operands")
				}
			}
		}
		return true
	})
	// [BP] / [EBP] without displacement → mod=01 disp8=0
	for _, base := range []string{"BP", "EBP"} {
		found := false
		ast.Inspect(fd.Body, func(n ast.Node) bool {
			cc, ok := n.(*ast.CaseClause)
			if !ok || len(cc.List) != 1 {
				return true
			}
			cs := types.ExprString(cc.List[0])
			if !strings.Contains(cs, `BaseReg == "`+base+`"`) || !strings.Contains(cs, `IndexReg == ""`) {
				return true
			}
			for _, st := range cc.Body {
				if is, ok := st.(*ast.IfStmt); ok && strings.Contains(types.ExprString(is.Cond), "!hasDisp") {
					m := assignTo(is.Body.List, "mod")
					d := assignTo(is.Body.List, "disp")
					mv, ok1 := int64(0), false
					dv, ok2 := int64(-1), false
					if m != nil {
						mv, ok1 = constInt(info, m)
					}
					if d != nil {
						dv, ok2 = constInt(info, d)
					}
					if ok1 && ok2 && mv == 0x40 && dv == 0 {
						found = true
					}
				}
			}
			return true
		})
		c.check(found, "T6", "calculateModRM|["+base+"] needs disp8=0", c.L.Pos(fd.Pos()), "["+base+"] has no mod=00 encoding (that slot means absolute address): it must be emitted as mod=01 with a zero disp8")
	}
	// SIB base number 5 is EBP only when a base register was written: a local that starts as 5
	// ("no base") must not, by its value alone, select an encoding with a base (mod != 00)
	{
		five := map[types.Object]bool{}
		ast.Inspect(fd.Body, func(n ast.Node) bool {
			switch x := n.(type) {
			case *ast.ValueSpec:
				for i, nm := range x.Names {
					if i < len(x.Values) {
						if v, ok := constInt(info, x.Values[i]); ok && v == 5 {
							five[info.Defs[nm]] = true
						}
					}
				}
			case *ast.AssignStmt:
				if x.Tok == token.DEFINE && len(x.Lhs) == len(x.Rhs) {
					for i, l := range x.Lhs {
						if id, ok := l.(*ast.Ident); ok {
							if v, ok := constInt(info, x.Rhs[i]); ok && v == 5 {
								five[info.Defs[id]] = true
							}
						}
					}
				}
			}
			return true
		})
		nb := 0
		ast.Inspect(fd.Body, func(n ast.Node) bool {
			is, ok := n.(*ast.IfStmt)
			if !ok {
				return true
			}
			tests5, namesBase := false, false
			ast.Inspect(is.Cond, func(m ast.Node) bool {
				switch y := m.(type) {
				case *ast.BinaryExpr:
					if y.Op == token.EQL {
						if id, ok := ast.Unparen(y.X).(*ast.Ident); ok && five[info.Uses[id]] {
							if v, ok := constInt(info, y.Y); ok && v == 5 {
								tests5 = true
							}
						}
					}
				case *ast.SelectorExpr:
					if y.Sel.Name == "BaseReg" {
						namesBase = true
					}
				}
				return true
			})
			if !tests5 {
				return true
			}
			setsMod := false
			for _, st := range is.Body.List {
				if rhs := assignTo([]ast.Stmt{st}, "mod"); rhs != nil {
					if v, ok := constInt(info, rhs); ok && v != 0 {
						setsMod = true
					}
				}
			}
			nb++
			c.check(!setsMod || namesBase, "T6", fmt.Sprintf("calculateModRM|base number 5 branch#%d", nb), c.L.Pos(is.Pos()), "SIB base=101b with mod=00 means `no base, disp32`; a branch taken for base number 5 alone must not switch to mod=01/10 (that would put EBP into an address that has no base) unless it also tests that the base register is EBP")
			return true
		})
	}
	// layouts on SSA
	f := c.L.SSAFunc("internal/codegen", "calculateModRM")
	if f != nil {
		c.check(orLayout(f, "modrm"), "T6", "calculateModRM|modrm = mod | reg | rm", c.L.Pos(f.Pos()), "ModR/M byte must be mod | regBits | rm")
		// the SIB byte may be put together by a helper of the calculator
		sibOK, noneOK := false, false
		for _, uf := range unitOf(f, 2) {
			if sibLayout(uf) {
				sibOK = true
			}
			if sibNoneDefaults(uf) {
				noneOK = true
			}
		}
		c.check(sibOK, "T6", "calculateModRM|sib = ss | index<<3 | base", c.L.Pos(f.Pos()), "SIB byte must be scale | index<<3 | base")
		// defaults: index none = 100b, base none = 101b
		idx4, base5 := noneOK, noneOK
		ast.Inspect(fd.Body, func(n ast.Node) bool {
			if gd, ok := n.(*ast.DeclStmt); ok {
				if g, ok := gd.Decl.(*ast.GenDecl); ok {
					for _, sp := range g.Specs {
						vs := sp.(*ast.ValueSpec)
						if len(vs.Names) == 1 && len(vs.Values) == 1 {
							v, _ := constInt(info, vs.Values[0])
							if vs.Names[0].Name == "indexNum" && v == 4 {
								idx4 = true
							}
							if vs.Names[0].Name == "baseNum" && v == 5 {
								base5 = true
							}
						}
					}
				}
			}
			return true
		})
		c.check(idx4 && base5, "T6", "calculateModRM|SIB none encodings", c.L.Pos(f.Pos()), "SIB index=100b means no index, base=101b (with mod=00) means no base")
		// displacement bytes: disp8 = byte(disp); disp16/32 little endian via PutUintN
		var le16, le32, d8 bool
		for _, b := range f.Blocks {
			for _, in := range b.Instrs {
				if ci, ok := in.(ssa.CallInstruction); ok {
					n := calleeName(ci.Common())
					if strings.Contains(n, "littleEndian).PutUint16") {
						le16 = true
					}
					if strings.Contains(n, "littleEndian).PutUint32") {
						le32 = true
					}
					if strings.Contains(n, "bigEndian") {
						c.fail("T6", "calculateModRM|big-endian displacement", c.L.Pos(instrPos(in)), "displacements are little endian")
					}
				}
				if st, ok := in.(*ssa.Store); ok {
					if cv, ok := st.Val.(*ssa.Convert); ok && isByte(cv.Type()) {
						d8 = true
					}
				}
			}
		}
		c.check(le16 && le32 && d8, "T6", "calculateModRM|displacement bytes", c.L.Pos(f.Pos()), "disp8 is one byte, disp16/disp32 are written with binary.LittleEndian")
	}
	// reg field: regBits = reg << 3 in both ModRMBy* and /6, /0 for PUSH/POP m
	for _, fn := range []string{"ModRMByOperand", "ModRMByValue"} {
		g := c.L.SSAFunc("internal/codegen", fn)
		if g == nil {
			c.anchorMissing("T6", "codegen."+fn)
			continue
		}
		shl3 := false
		regmod := false
		for _, b := range g.Blocks {
			for _, in := range b.Instrs {
				if bo, ok := in.(*ssa.BinOp); ok {
					if bo.Op == token.SHL {
						if k, ok := bo.Y.(*ssa.Const); ok && k.Int64() == 3 {
							shl3 = true
						}
					}
					if bo.Op == token.OR {
						if k, ok := bo.X.(*ssa.Const); ok && isIntConst(k) && k.Int64() == 0xC0 {
							regmod = true
						}
					}
				}
			}
		}
		c.check(shl3, "T6", fn+"|reg field << 3", c.L.Pos(g.Pos()), "the reg field occupies bits 5-3")
		c.check(regmod, "T6", fn+"|register operand mod=11", c.L.Pos(g.Pos()), "a register r/m operand uses mod=11")
	}
	for _, t := range []struct {
		fn  string
		ext int64
		opc byte
	}{{"handlePUSH", 6, 0xFF}, {"handlePOP", 0, 0x8F}} {
		g := c.L.SSAFunc("internal/codegen", t.fn)
		if g == nil {
			c.anchorMissing("T6", "codegen."+t.fn)
			continue
		}
		ok := false
		// the reg-field argument of calculateModRM: its byte-typed parameter, wherever it stands
		regIdx := 2
		if cm := c.L.SSAFunc("internal/codegen", "calculateModRM"); cm != nil {
			for i, prm := range cm.Params {
				if bt, isB := prm.Type().Underlying().(*types.Basic); isB && bt.Kind() == types.Uint8 {
					regIdx = i
				}
			}
		}
		callsIn(g, func(ci ssa.CallInstruction) {
			if strings.HasSuffix(calleeName(ci.Common()), ".calculateModRM") {
				if regIdx < len(ci.Common().Args) {
					if k, isK := ci.Common().Args[regIdx].(*ssa.Const); isK && k.Int64() == t.ext<<3 {
						ok = true
					}
				}
				return
			}
			// through a shared helper: the /digit is one of its arguments
			h := ci.Common().StaticCallee()
			if h == nil || h.Pkg != g.Pkg || len(h.Blocks) == 0 {
				return
			}
			bind := map[ssa.Value]ssa.Value{}
			for i, prm := range h.Params {
				if i < len(ci.Common().Args) {
					bind[prm] = ci.Common().Args[i]
				}
			}
			callsIn(h, func(cj ssa.CallInstruction) {
				if strings.HasSuffix(calleeName(cj.Common()), ".calculateModRM") {
					if regIdx >= len(cj.Common().Args) {
						return
					}
					if v, isK := evalConstBound(cj.Common().Args[regIdx], bind, 0); isK && v == t.ext<<3 {
						ok = true
					}
				}
			})
		})
		c.check(ok, "T6", fmt.Sprintf("%s|/%d extension", t.fn, t.ext), c.L.Pos(g.Pos()), fmt.Sprintf("%s m uses opcode extension /%d in the reg field", strings.TrimPrefix(t.fn, "handle"), t.ext))
	}
	c.floor("T6", 40)
}

// orLayout: some value named like the ModR/M result is OR(OR(mod, regBits), rm) of three distinct non-constant values.
func orLayout(f *ssa.Function, _ string) bool {
	for _, b := range f.Blocks {
		for _, in := range b.Instrs {
			bo, ok := in.(*ssa.BinOp)
			if !ok || bo.Op != token.OR {
				continue
			}
			inner, ok := bo.X.(*ssa.BinOp)
			if !ok || inner.Op != token.OR {
				continue
			}
			// inner = mod | regBits(param), outer | rm
			if _, isParam := inner.Y.(*ssa.Parameter); isParam {
				return true
			}
		}
	}
	return false
}

// sibNoneDefaults: in the SIB byte ss | index<<3 | base the index value can be the constant 4
// (no index) and the base value the constant 5 (no base): both are joins with those constants.
func sibNoneDefaults(f *ssa.Function) bool {
	hasConst := func(v ssa.Value, want int64) bool {
		seen := map[ssa.Value]bool{}
		var walk func(v ssa.Value, d int) bool
		walk = func(v ssa.Value, d int) bool {
			if d > 6 || seen[v] {
				return false
			}
			seen[v] = true
			switch x := v.(type) {
			case *ssa.Const:
				return isIntConst(x) && x.Int64() == want
			case *ssa.Convert:
				return walk(x.X, d+1)
			case *ssa.Phi:
				for _, e := range x.Edges {
					if walk(e, d+1) {
						return true
					}
				}
			}
			return false
		}
		return walk(v, 0)
	}
	for _, b := range f.Blocks {
		for _, in := range b.Instrs {
			bo, ok := in.(*ssa.BinOp)
			if !ok || bo.Op != token.OR {
				continue
			}
			inner, ok := bo.X.(*ssa.BinOp)
			if !ok || inner.Op != token.OR {
				continue
			}
			sh, ok := inner.Y.(*ssa.BinOp)
			if !ok || sh.Op != token.SHL {
				continue
			}
			if k, ok := sh.Y.(*ssa.Const); !ok || k.Int64() != 3 {
				continue
			}
			if hasConst(sh.X, 4) && hasConst(bo.Y, 5) {
				return true
			}
		}
	}
	return false
}

func sibLayout(f *ssa.Function) bool {
	for _, b := range f.Blocks {
		for _, in := range b.Instrs {
			bo, ok := in.(*ssa.BinOp)
			if !ok || bo.Op != token.OR {
				continue
			}
			inner, ok := bo.X.(*ssa.BinOp)
			if !ok || inner.Op != token.OR {
				continue
			}
			sh, ok := inner.Y.(*ssa.BinOp)
			if ok && sh.Op == token.SHL {
				if k, ok := sh.Y.(*ssa.Const); ok && k.Int64() == 3 {
					return true
				}
			}
		}
	}
	return false
}

// ---------------------------------------------------------------------------------------
// Q2: SIB presence must not be inferred from the byte's value
// ---------------------------------------------------------------------------------------

func ruleQ2(c *Ctx) {
	c.doc("Q2", "whether a SIB byte is emitted is not decided by comparing the SIB byte with zero (scale 1, index EAX, base EAX is the valid SIB byte 0x00)")
	n := 0
	for _, f := range c.L.RepoFuncs() {
		if pkgRel(f) != "internal/codegen" {
			continue
		}
		per := 0
		callsIn(f, func(ci ssa.CallInstruction) {
			if !strings.HasSuffix(calleeName(ci.Common()), ".calculateModRM") {
				return
			}
			call, ok := ci.(*ssa.Call)
			if !ok || call.Referrers() == nil {
				return
			}
			for _, r := range *call.Referrers() {
				ex, ok := r.(*ssa.Extract)
				if !ok || ex.Index != 1 || ex.Referrers() == nil {
					continue
				}
				n++
				per++
				key := fmt.Sprintf("%s|SIB presence#%d", shortName(f), per)
				byValue := false
				for _, r2 := range *ex.Referrers() {
					if bo, ok := r2.(*ssa.BinOp); ok && (bo.Op == token.NEQ || bo.Op == token.EQL) {
						if k, ok := bo.Y.(*ssa.Const); ok && isIntConst(k) && k.Int64() == 0 {
							byValue = true
						}
					}
				}
				c.check(!byValue, "Q2", key, c.L.Pos(instrPos(ci)), "the SIB byte is appended only when it is non-zero: [EAX+EAX] (SIB 0x00) loses its SIB byte and decodes as a different address")
			}
		})
	}
	c.floor("Q2", 4)
}

// ---------------------------------------------------------------------------------------
// E8: parsed address components nobody consumes; G2: operators in grammar actions
// ---------------------------------------------------------------------------------------

func ruleE8(c *Ctx) {
	c.doc("E8", "every component of a parsed effective address that the operand grammar can set (base, index, scale, displacement, displacement label, segment override) is read by the encoder; otherwise accepted syntax is silently discarded")
	p := c.L.Pkg("pkg/ng_operand")
	if p == nil {
		c.anchorMissing("E8", "pkg/ng_operand")
		return
	}
	obj := p.Types.Scope().Lookup("MemoryInfo")
	if obj == nil {
		c.anchorMissing("E8", "ng_operand.MemoryInfo")
		return
	}
	st := obj.Type().Underlying().(*types.Struct)
	reads := map[string]int{}
	sets := map[string]int{}
	for _, pk := range c.L.Pkgs {
		for _, f := range pk.Syntax {
			gen := c.L.isGeneratedFile(f)
			ast.Inspect(f, func(n ast.Node) bool {
				switch x := n.(type) {
				case *ast.SelectorExpr:
					sel, ok := pk.TypesInfo.Selections[x]
					if !ok || sel.Kind() != types.FieldVal {
						return true
					}
					if fv, ok := sel.Obj().(*types.Var); ok && isFieldOf(fv, st) && !gen {
						reads[fv.Name()]++
					}
				case *ast.CompositeLit:
					if gen && isNamedLit(pk.TypesInfo, x, "MemoryInfo") {
						for _, e := range x.Elts {
							if kv, ok := e.(*ast.KeyValueExpr); ok {
								if id, ok := kv.Key.(*ast.Ident); ok {
									sets[id.Name]++
								}
							}
						}
					}
				case *ast.AssignStmt:
					if gen {
						for _, l := range x.Lhs {
							if se, ok := l.(*ast.SelectorExpr); ok {
								if sel, ok := pk.TypesInfo.Selections[se]; ok {
									if fv, ok := sel.Obj().(*types.Var); ok && isFieldOf(fv, st) {
										sets[fv.Name()]++
									}
								}
							}
						}
					}
				}
				return true
			})
		}
	}
	exempt := map[string]string{
		"IsHexDisp": "notation flag, not part of the address",
		"Segment":   "set only for the operand syntax `seg:[…]`; the statement grammar rejects a segment before '[' and pass 1 regenerates memory operands as `[ left : right ]`, which the operand grammar rejects with a diagnostic — no source text reaches this field",
	}
	for i := 0; i < st.NumFields(); i++ {
		fn := st.Field(i).Name()
		key := "MemoryInfo." + fn
		if why, ok := exempt[fn]; ok {
			c.ok("E8", key, c.L.Pos(st.Field(i).Pos()), "exempt: "+why)
			continue
		}
		if sets[fn] == 0 {
			c.ok("E8", key, c.L.Pos(st.Field(i).Pos()), "never set by the grammar")
			continue
		}
		c.check(reads[fn] > 0, "E8", key, c.L.Pos(st.Field(i).Pos()), fmt.Sprintf("the operand grammar sets MemoryInfo.%s (%d site(s)) but no code outside the parser reads it: that part of the written address never reaches the encoding", fn, sets[fn]))
	}
	c.analysed["E8_reads"] = reads
	c.floor("E8", 6)
}

func isFieldOf(v *types.Var, st *types.Struct) bool {
	for i := 0; i < st.NumFields(); i++ {
		if st.Field(i) == v {
			return true
		}
	}
	return false
}

func operandGrammar(c *Ctx) *pegGrammar {
	p := c.L.Pkg("pkg/ng_operand")
	if p == nil {
		return &pegGrammar{Errs: []string{"pkg/ng_operand not found"}, Rules: map[string]*pegNode{}}
	}
	return extractGrammar(p)
}

func ruleG2(c *Ctx) {
	c.doc("G2", "in the operand grammar every +/- operator that the syntax accepts inside [ ] takes effect: a '-' before a displacement negates it, and an operator before an index register is not silently ignored")
	g := operandGrammar(c)
	if len(g.Errs) > 0 {
		c.fail("G2", "grammar-extraction", "", strings.Join(g.Errs, "; "))
		return
	}
	c.analysed["operand_grammar_rules"] = len(g.Order)
	mb := g.Rules["MemoryBody"]
	if mb == nil {
		c.anchorMissing("G2", "operand grammar rule MemoryBody")
		return
	}
	alts := map[string]bool{}
	refs(mb, false, alts)
	n := 0
	for _, name := range sortedSet(alts) {
		r := g.Rules[name]
		if r == nil || r.Kids[0].Kind != "action" {
			continue
		}
		seq := seqOf(r)
		// labeled elements in order = action parameters
		var labels []string
		var kinds []string
		for _, e := range seq {
			if e.Kind == "labeled" {
				labels = append(labels, e.Name)
				inner := stripLabel(e)
				k := inner.Kind
				if inner.Kind == "ref" {
					k = inner.Name
				}
				if inner.Kind == "opt" && inner.Kids[0].Kind == "ref" {
					k = inner.Kids[0].Name + "?"
				}
				kinds = append(kinds, k)
			}
		}
		on := "on" + strings.TrimPrefix(r.Kids[0].Name, "callon")
		f := c.L.SSAFunc("pkg/ng_operand", "(*current)."+on)
		if f == nil {
			c.anchorMissing("G2", "action "+on)
			continue
		}
		for i, k := range kinds {
			if k != "AddOp" {
				continue
			}
			n++
			what := "an index register"
			if i+1 < len(kinds) && (kinds[i+1] == "ImmediateValue") {
				what = "the displacement"
			}
			key := fmt.Sprintf("%s|operator %s before %s", name, labels[i], what)
			// parameter i+1 (0 is the receiver)
			if i+1 >= len(f.Params) {
				c.fail("G2", key, c.L.Pos(f.Pos()), "undecided: action parameters do not match the grammar labels")
				continue
			}
			eff, neg := paramEffect(f, f.Params[i+1])
			if what == "the displacement" {
				c.check(eff && neg, "G2", key, c.L.Pos(f.Pos()), "a '-' before the displacement must negate it")
			} else {
				c.check(eff, "G2", key, c.L.Pos(f.Pos()), "the grammar accepts '+' or '-' here but the action ignores which one was written: [BX-SI] assembles as [BX+SI]")
			}
		}
	}
	c.floor("G2", 9)
}

// paramEffect: does parameter p influence what f computes? effective: an If whose condition
// derives from p has a successor that does real work only on that branch; neg: that work is
// an arithmetic negation.
func paramEffect(f *ssa.Function, p *ssa.Parameter) (effective, negates bool) {
	derived := map[ssa.Value]bool{p: true}
	for changed := true; changed; {
		changed = false
		for _, b := range f.Blocks {
			for _, in := range b.Instrs {
				v, ok := in.(ssa.Value)
				if !ok || derived[v] {
					continue
				}
				for _, op := range in.Operands(nil) {
					if op != nil && *op != nil && derived[*op] {
						derived[v] = true
						changed = true
						break
					}
				}
			}
		}
	}
	for _, b := range f.Blocks {
		iff, ok := b.Instrs[len(b.Instrs)-1].(*ssa.If)
		if !ok || !derived[iff.Cond] {
			continue
		}
		s0, s1 := b.Succs[0], b.Succs[1]
		if s0 == s1 {
			continue
		}
		for _, s := range []*ssa.BasicBlock{s0, s1} {
			if len(s.Preds) != 1 {
				continue
			}
			for _, in := range s.Instrs {
				switch x := in.(type) {
				case *ssa.Jump:
				case *ssa.DebugRef:
				case *ssa.UnOp:
					effective = true
					if x.Op == token.SUB {
						negates = true
					}
				case *ssa.BinOp:
					effective = true
					if x.Op == token.SUB {
						if k, ok := x.X.(*ssa.Const); ok && isIntConst(k) && k.Int64() == 0 {
							negates = true
						}
					}
				default:
					effective = true
				}
			}
		}
	}
	// direct data use (stored / returned) also counts
	for v := range derived {
		if v.Referrers() == nil {
			continue
		}
		for _, r := range *v.Referrers() {
			switch r.(type) {
			case *ssa.Store, *ssa.Return, *ssa.MakeInterface:
				if v != p {
					// values derived purely for the comparison (string conversion) are not stores
				}
			}
			if st, ok := r.(*ssa.Store); ok && st.Val == v {
				effective = true
			}
		}
	}
	return
}

// ---------------------------------------------------------------------------------------
// P3: configured before queried
// ---------------------------------------------------------------------------------------

var modeDependentQueries = map[string]bool{
	"OperandTypes": true, "Require66h": true, "Require67h": true, "CalcOffsetByteSize": true, "CalcSibByteSize": true,
	"DisplacementBytes": true, "IsType": true, "GetBitMode": true,
}

func ruleP3(c *Ctx) {
	c.doc("P3", "every operand object built by ng_operand.FromString is given the BITS mode in force (env.BitMode in pass 1, ctx.BitMode / the bitMode parameter in the emitters) before any mode-dependent query or table search uses it")
	n := 0
	for _, f := range c.L.RepoFuncs() {
		pk := pkgRel(f)
		if pk != "internal/pass1" && pk != "internal/codegen" {
			continue
		}
		per := 0
		callsIn(f, func(ci ssa.CallInstruction) {
			if !strings.HasSuffix(calleeName(ci.Common()), "pkg/ng_operand.FromString") {
				return
			}
			call, ok := ci.(*ssa.Call)
			if !ok || call.Referrers() == nil {
				return
			}
			var v ssa.Value
			for _, r := range *call.Referrers() {
				if ex, ok := r.(*ssa.Extract); ok && ex.Index == 0 {
					v = ex
				}
			}
			if v == nil {
				return
			}
			n++
			per++
			key := fmt.Sprintf("%s|FromString#%d", shortName(f), per)
			pos := c.L.Pos(instrPos(ci))
			// all values that alias the raw object before WithBitMode: v and phis/stores of it
			raw := map[ssa.Value]bool{v: true}
			var probs []string
			configured := false
			var visit func(x ssa.Value)
			seen := map[ssa.Value]bool{}
			visit = func(x ssa.Value) {
				if seen[x] || x.Referrers() == nil {
					return
				}
				seen[x] = true
				for _, r := range *x.Referrers() {
					switch y := r.(type) {
					case *ssa.Call:
						cc := &y.Call
						if cc.IsInvoke() && cc.Value == x {
							m := cc.Method.Name()
							switch {
							case m == "WithBitMode":
								configured = true
								if !modeArgOK(cc.Args[0], pk) {
									probs = append(probs, "WithBitMode is given "+valName(cc.Args[0])+", not the mode in force")
								}
							case m == "WithForceRelAsImm":
								visit(y) // still unconfigured
							case modeDependentQueries[m]:
								probs = append(probs, m+"() is called before WithBitMode")
							}
							continue
						}
						// passed as an argument
						for _, a := range cc.Args {
							if a == x {
								name := calleeName(cc)
								if cc.IsInvoke() {
									name = cc.Method.Name()
								}
								if strings.Contains(name, "FindMinOutputSize") || strings.Contains(name, "FindEncoding") || strings.Contains(name, "GetPrefixSize") {
									probs = append(probs, "passed to "+shortCallee(cc)+" before WithBitMode")
								} else if callee := cc.StaticCallee(); callee != nil && callee.Pkg != nil && strings.HasPrefix(callee.Pkg.Pkg.Path(), modPath) {
									// a helper of gosk that asks the object a mode-dependent question
									for ai, aa := range cc.Args {
										if aa != x || ai >= len(callee.Params) {
											continue
										}
										if q := paramModeQuery(callee.Params[ai]); q != "" {
											probs = append(probs, "passed to "+shortName(callee)+", which calls "+q+"() on it, before WithBitMode")
										}
									}
								}
							}
						}
					case *ssa.Phi:
						raw[y] = true
						visit(y)
					case *ssa.MakeInterface, *ssa.ChangeInterface:
						visit(y.(ssa.Value))
					}
				}
			}
			visit(v)
			if !configured {
				// objects never configured and never queried (e.g. only serialised) are harmless
				used := false
				for range probs {
					used = true
				}
				if !used {
					// is any mode-dependent query made at all on derived values? if the object is only
					// serialised / inspected for memory info, WithBitMode is still required by the
					// emitters' ModR/M path; accept only when no query exists
					c.ok("P3", key, pos, "object is never asked a mode-dependent question")
					return
				}
			}
			c.check(len(probs) == 0, "P3", key, pos, strings.Join(probs, "; "))
		})
	}
	c.analysed["P3_construction_sites"] = n
	c.floor("P3", 18)
}

func modeArgOK(a ssa.Value, pk string) bool {
	if isFieldLoad(a, "BitMode") {
		return true
	}
	if p, ok := a.(*ssa.Parameter); ok && namedTypeIs(p.Type(), "pkg/cpu", "BitMode") {
		return true
	}
	// bitMode := ctx.BitMode copied through a local
	if ph, ok := a.(*ssa.Phi); ok {
		for _, e := range ph.Edges {
			if !modeArgOK(e, pk) {
				return false
			}
		}
		return true
	}
	return false
}

// ---------------------------------------------------------------------------------------
// F1: immediate width and index come from the selected encoding
// ---------------------------------------------------------------------------------------

func ruleF1(c *Ctx) {
	c.doc("F1", "the immediate is serialised at the width of the selected encoding (Immediate.Size) from the operand the encoding names (Immediate.Value)")
	n := 0
	for _, f := range c.L.RepoFuncs() {
		if pkgRel(f) != "internal/codegen" {
			continue
		}
		per := 0
		callsIn(f, func(ci ssa.CallInstruction) {
			if !strings.HasSuffix(calleeName(ci.Common()), ".getImmediateValue") {
				return
			}
			n++
			per++
			args := ci.Common().Args
			key := fmt.Sprintf("%s|getImmediateValue#%d", shortName(f), per)
			pos := c.L.Pos(instrPos(ci))
			sizeOK := isFieldLoad(args[1], "Size") && dependsOnFieldLoad(args[1], "Immediate")
			if !sizeOK && isFieldLoad(args[1], "Size") {
				// imm.Size where imm is a parameter every caller binds to encoding.Immediate
				if u, ok := args[1].(*ssa.UnOp); ok {
					if fa, ok := u.X.(*ssa.FieldAddr); ok {
						sizeOK = c.holdsThroughParams(fa.X, func(v ssa.Value) bool { return isFieldLoad(v, "Immediate") }, 0)
					}
				}
			}
			c.check(sizeOK, "F1", key+"|width", pos, "the width must be encoding.Immediate.Size of the encoding that was selected; found "+valName(args[1]))
			idxOK := false
			if u, ok := args[0].(*ssa.UnOp); ok && u.Op == token.MUL {
				if ia, ok := u.X.(*ssa.IndexAddr); ok {
					idxOK = dependsOnCallResult(ia.Index, modPath+"/internal/codegen.parseIndex") && dependsOnFieldLoadDeep(ia.Index, "Value")
				}
			}
			c.check(idxOK, "F1", key+"|operand", pos, "the operand must be operands[parseIndex(encoding.Immediate.Value)]")
		})
	}
	// getImmediateValue itself: size 1/2/4 → 1/2/4 little-endian bytes
	g := c.L.SSAFunc("internal/codegen", "getImmediateValue")
	if g == nil {
		c.anchorMissing("F1", "codegen.getImmediateValue")
	} else {
		var le16, le32 bool
		callsIn(g, func(ci ssa.CallInstruction) {
			nm := calleeName(ci.Common())
			if strings.Contains(nm, "littleEndian).PutUint16") {
				le16 = true
			}
			if strings.Contains(nm, "littleEndian).PutUint32") {
				le32 = true
			}
		})
		mk := false
		for _, b := range g.Blocks {
			for _, in := range b.Instrs {
				if ms, ok := in.(*ssa.MakeSlice); ok {
					if _, isParam := ms.Len.(*ssa.Parameter); isParam {
						mk = true
					}
				}
			}
		}
		c.check(le16 && le32 && mk, "F1", "getImmediateValue|little endian at the requested width", c.L.Pos(g.Pos()), "the buffer must be `size` bytes long and filled little endian")
	}
	c.floor("F1", 9)
}

func dependsOnFieldLoadDeep(v ssa.Value, fld string) bool {
	seen := map[ssa.Value]bool{}
	var walk func(ssa.Value) bool
	walk = func(x ssa.Value) bool {
		if seen[x] {
			return false
		}
		seen[x] = true
		if isFieldLoad(x, fld) {
			return true
		}
		if in, ok := x.(ssa.Instruction); ok {
			for _, op := range in.Operands(nil) {
				if op != nil && *op != nil && walk(*op) {
					return true
				}
			}
		}
		return false
	}
	return walk(v)
}

// ---------------------------------------------------------------------------------------
// F7: prefix decisions do not depend on the immediate's magnitude
// ---------------------------------------------------------------------------------------

func ruleF7(c *Ctx) {
	c.doc("F7", "whether an operand-size / address-size prefix is needed does not depend on the magnitude of an immediate operand (operand size is given by registers, memory size keywords and the mode)")
	for _, fn := range []string{"Require66h", "Require67h"} {
		f := c.L.SSAFunc("pkg/ng_operand", "(*OperandPegImpl)."+fn)
		if f == nil {
			c.anchorMissing("F7", "ng_operand.(*OperandPegImpl)."+fn)
			continue
		}
		tainted := map[ssa.Value]bool{}
		var src ssa.Instruction
		for changed := true; changed; {
			changed = false
			for _, b := range f.Blocks {
				for _, in := range b.Instrs {
					v, ok := in.(ssa.Value)
					if !ok || tainted[v] {
						continue
					}
					if isFieldLoad(v, "Immediate") {
						tainted[v] = true
						src = in
						changed = true
						continue
					}
					for _, op := range in.Operands(nil) {
						if op != nil && *op != nil && tainted[*op] {
							tainted[v] = true
							changed = true
							break
						}
					}
				}
			}
		}
		dep := false
		for _, b := range f.Blocks {
			switch t := b.Instrs[len(b.Instrs)-1].(type) {
			case *ssa.If:
				if tainted[t.Cond] {
					dep = true
				}
			case *ssa.Return:
				if tainted[t.Results[0]] {
					dep = true
				}
			}
		}
		pos := c.L.Pos(f.Pos())
		if src != nil {
			pos = c.L.Pos(instrPos(src))
		}
		c.check(!dep, "F7", fn+"|independent of the immediate value", pos, fn+"() branches on a value derived from ParsedOperandPeg.Immediate: the same instruction gets or loses a prefix depending on how large its immediate is")
	}
	c.floor("F7", 2)
}

var _ = sort.Strings

// paramModeQuery: the parameter is the receiver of a mode-dependent query (or of GetBitMode) in
// the function that declares it.
func paramModeQuery(prm *ssa.Parameter) string {
	if prm.Referrers() == nil {
		return ""
	}
	for _, r := range *prm.Referrers() {
		if call, ok := r.(ssa.CallInstruction); ok {
			cc := call.Common()
			if cc.IsInvoke() && cc.Value == ssa.Value(prm) {
				m := cc.Method.Name()
				if modeDependentQueries[m] || m == "GetBitMode" {
					return m
				}
			}
		}
	}
	return ""
}

// evalConstBound evaluates an integer expression whose leaves are constants or parameters bound
// to constants by the given call-site binding.
func evalConstBound(v ssa.Value, bind map[ssa.Value]ssa.Value, depth int) (int64, bool) {
	if depth > 8 {
		return 0, false
	}
	if a, ok := bind[v]; ok {
		return evalConstBound(a, nil, depth+1)
	}
	switch x := v.(type) {
	case *ssa.Const:
		if isIntConst(x) {
			return x.Int64(), true
		}
	case *ssa.Convert:
		return evalConstBound(x.X, bind, depth+1)
	case *ssa.BinOp:
		l, ok1 := evalConstBound(x.X, bind, depth+1)
		r, ok2 := evalConstBound(x.Y, bind, depth+1)
		if !ok1 || !ok2 {
			return 0, false
		}
		switch x.Op {
		case token.SHL:
			return l << uint(r), true
		case token.MUL:
			return l * r, true
		case token.ADD:
			return l + r, true
		case token.OR:
			return l | r, true
		}
	}
	return 0, false
}
