package main

// Family E: effects, ownership, reachability (SSA + call graph).

import (
	"fmt"
	"go/token"
	"go/types"
	"sort"
	"strings"

	"golang.org/x/tools/go/callgraph"
	"golang.org/x/tools/go/ssa"
)

// roots of an assembly run: the CLI entry, the in-process API and the parser entry.
func (c *Ctx) roots() []*ssa.Function {
	var r []*ssa.Function
	for _, x := range []struct{ pkg, fn string }{
		{"internal/frontend", "Exec"}, {"internal/gen", "Parse"}, {"cmd/gosk", "main"},
	} {
		if f := c.L.SSAFunc(x.pkg, x.fn); f != nil {
			r = append(r, f)
		}
	}
	return r
}

func (c *Ctx) reach() map[*ssa.Function]*callgraph.Edge {
	if c.reachSet != nil {
		return c.reachSet
	}
	g := c.L.CallGraph(true)
	r := Reachable(g, c.roots()...)
	c.analysed["callgraph"] = map[string]any{"algorithm": "VTA seeded with CHA", "nodes": len(g.Nodes), "reachable_from_roots": len(r)}
	c.reachSet = r
	return r
}

func (c *Ctx) isGeneratedFn(f *ssa.Function) bool {
	pos := outermost(f).Pos()
	if !pos.IsValid() {
		pos = f.Pos()
	}
	if !pos.IsValid() {
		return false
	}
	file := c.L.Fset.File(pos)
	if file == nil {
		return false
	}
	for _, p := range c.L.Pkgs {
		for _, af := range p.Syntax {
			if c.L.Fset.File(af.Pos()) == file {
				return c.L.isGeneratedFile(af)
			}
		}
	}
	return false
}

// ---------------------------------------------------------------------------------------
// E1: package-level state is written only while packages initialise
// ---------------------------------------------------------------------------------------

// initChain: init functions and functions that are never used as values and all of whose
// (static) callers are in the chain. Computed on static call edges only: CHA's resolution of
// dynamic func() calls would make every niladic function a callee of every such call.
func initChain(c *Ctx) map[*ssa.Function]bool {
	if c.chain != nil {
		return c.chain
	}
	prog := c.L.SSA()
	callers := map[*ssa.Function][]*ssa.Function{}
	addrTaken := map[*ssa.Function]bool{}
	for f := range ssautilAll(prog) {
		for _, b := range f.Blocks {
			for _, in := range b.Instrs {
				var callee ssa.Value
				if ci, ok := in.(ssa.CallInstruction); ok {
					callee = ci.Common().Value
					if sc := ci.Common().StaticCallee(); sc != nil {
						callers[sc] = append(callers[sc], f)
					}
				}
				for _, op := range in.Operands(nil) {
					if op == nil || *op == nil {
						continue
					}
					if fn, ok := (*op).(*ssa.Function); ok {
						if *op == callee {
							if _, isCall := in.(ssa.CallInstruction); isCall && !isArg(in, fn) {
								continue
							}
						}
						addrTaken[fn] = true
					}
				}
			}
		}
	}
	in := map[*ssa.Function]bool{}
	fns := c.L.RepoFuncs()
	for _, f := range fns {
		if isInitFunc(f) {
			in[f] = true
		}
	}
	for changed := true; changed; {
		changed = false
		for _, f := range fns {
			if in[f] || addrTaken[f] || f.Parent() != nil || len(callers[f]) == 0 {
				continue
			}
			all := true
			for _, cf := range callers[f] {
				if !in[cf] {
					all = false
					break
				}
			}
			if all {
				in[f] = true
				changed = true
			}
		}
	}
	c.chain = in
	return in
}

// isArg reports whether fn also appears among the arguments of call instruction in.
func isArg(in ssa.Instruction, fn *ssa.Function) bool {
	ci, ok := in.(ssa.CallInstruction)
	if !ok {
		return false
	}
	for _, a := range ci.Common().Args {
		if a == fn {
			return true
		}
	}
	return false
}

// globalRoot returns the repository-owned package-level variable that v is rooted at, looking
// through one level of accessor functions that return global-rooted values.
func globalRoot(v ssa.Value, depth int) *ssa.Global {
	r := rootOf(v)
	switch x := r.(type) {
	case *ssa.Global:
		if x.Pkg != nil && strings.HasPrefix(x.Pkg.Pkg.Path(), modPath) {
			return x
		}
	case *ssa.Call:
		if depth > 0 {
			if f := x.Call.StaticCallee(); f != nil && inRepo(f) {
				for _, b := range f.Blocks {
					for _, in := range b.Instrs {
						if ret, ok := in.(*ssa.Return); ok {
							for _, res := range ret.Results {
								if g := globalRoot(res, depth-1); g != nil {
									// value types are copied on return; only reference kinds alias
									switch res.Type().Underlying().(type) {
									case *types.Map, *types.Pointer, *types.Slice, *types.Chan:
										return g
									}
								}
							}
						}
					}
				}
			}
		}
	case *ssa.Extract:
		return globalRoot(x.Tuple, depth)
	}
	return nil
}

func ruleE1(c *Ctx) {
	c.doc("E1", "package-level variables of gosk packages are written only from init functions and helpers called solely by them; their addresses do not escape elsewhere")
	chain := initChain(c)
	writers := 0
	type w struct {
		g   *ssa.Global
		f   *ssa.Function
		in  ssa.Instruction
		how string
	}
	var ws []w
	for _, f := range c.L.RepoFuncs() {
		for _, b := range f.Blocks {
			for _, in := range b.Instrs {
				switch x := in.(type) {
				case *ssa.Store:
					if g := globalRoot(x.Addr, 1); g != nil {
						ws = append(ws, w{g, f, in, "store"})
					}
					// storing a global's address somewhere
					if g, ok := x.Val.(*ssa.Global); ok && g.Pkg != nil && strings.HasPrefix(g.Pkg.Pkg.Path(), modPath) {
						ws = append(ws, w{g, f, in, "address stored"})
					}
				case *ssa.MapUpdate:
					if g := globalRoot(x.Map, 1); g != nil {
						ws = append(ws, w{g, f, in, "map update"})
					}
				case ssa.CallInstruction:
					for _, a := range x.Common().Args {
						if g, ok := a.(*ssa.Global); ok && g.Pkg != nil && strings.HasPrefix(g.Pkg.Pkg.Path(), modPath) {
							if isSyncPrimitive(g.Type()) {
								continue // a lock carries no data from one assembly to the next
							}
							ws = append(ws, w{g, f, in, "address passed to " + calleeOrDyn(x.Common())})
						}
					}
					// delete(m, k) / clear(m) on a global-rooted map
					if bi, ok := x.Common().Value.(*ssa.Builtin); ok && (bi.Name() == "delete" || bi.Name() == "clear") && len(x.Common().Args) > 0 {
						if g := globalRoot(x.Common().Args[0], 1); g != nil {
							ws = append(ws, w{g, f, in, bi.Name()})
						}
					}
				}
			}
		}
	}
	seen := map[string]bool{}
	for _, x := range ws {
		if strings.HasSuffix(x.g.Name(), "$guard") {
			continue
		}
		key := fmt.Sprintf("%s|writer=%s", strings.TrimPrefix(x.g.String(), modPath+"/"), shortName(x.f))
		if seen[key] {
			continue
		}
		seen[key] = true
		writers++
		if chain[x.f] || (x.f.Parent() != nil && chain[outermost(x.f)] && chain[x.f]) {
			c.ok("E1", key, c.L.Pos(instrPos(x.in)), x.how+" during package initialisation")
		} else {
			c.fail("E1", key, c.L.Pos(instrPos(x.in)), fmt.Sprintf("%s of package-level variable %s in %s, which runs after initialisation (state would survive from one assembly to the next / leak between statements)", x.how, x.g.Name(), shortName(x.f)))
		}
	}
	c.analysed["E1_global_writer_pairs"] = writers
	c.floor("E1", 5)
}

func calleeOrDyn(cc *ssa.CallCommon) string {
	if n := calleeName(cc); n != "" {
		return n
	}
	if cc.IsInvoke() {
		return "interface method " + cc.Method.Name()
	}
	return "dynamic call"
}

// ---------------------------------------------------------------------------------------
// E2: no source of run-to-run variation is reachable from an assembly
// ---------------------------------------------------------------------------------------

type e2site struct {
	in   ssa.Instruction
	what string
}

var ambientCalls = map[string]string{
	"time.Now": "clock", "time.Since": "clock", "time.Until": "clock",
	"os.Getenv": "environment", "os.LookupEnv": "environment", "os.Environ": "environment", "os.Getpid": "process id", "os.Hostname": "host name",
	"os.Getwd": "working directory", "os.Getuid": "user id",
	"math/rand.Int": "random", "math/rand.Intn": "random", "math/rand.Int63": "random", "math/rand.Float64": "random", "math/rand.Seed": "random", "math/rand.Perm": "random", "math/rand.Shuffle": "random",
	"math/rand/v2.Int": "random", "math/rand/v2.IntN": "random", "math/rand/v2.N": "random",
	"crypto/rand.Read": "random", "crypto/rand.Int": "random",
	"maps.Keys": "map order", "maps.Values": "map order", "maps.All": "map order",
	"golang.org/x/exp/maps.Keys": "map order", "golang.org/x/exp/maps.Values": "map order",
	"github.com/samber/lo.Keys": "map order", "github.com/samber/lo.Values": "map order", "github.com/samber/lo.Entries": "map order",
	"github.com/samber/lo.ToPairs": "map order", "github.com/samber/lo.MapToSlice": "map order", "github.com/samber/lo.MapEntries": "map order",
	"github.com/samber/lo.MapKeys": "map order", "github.com/samber/lo.MapValues": "map order", "github.com/samber/lo.PickBy": "map order",
	"github.com/samber/lo.OmitBy": "map order", "github.com/samber/lo.Invert": "map order", "github.com/samber/lo.UniqKeys": "map order", "github.com/samber/lo.UniqValues": "map order",
	"(reflect.Value).MapRange": "map order", "(reflect.Value).MapKeys": "map order",
	"runtime.NumGoroutine": "scheduler", "runtime.NumCPU": "host",
}

// matchE2 lists, for one function, the constructs that can make two runs differ.
func matchE2(f *ssa.Function) []e2site {
	var out []e2site
	for _, b := range f.Blocks {
		for _, in := range b.Instrs {
			switch x := in.(type) {
			case *ssa.Range:
				if isMapType(x.X.Type()) {
					out = append(out, e2site{in, "range over map (iteration order is randomised)"})
				}
			case *ssa.Go:
				out = append(out, e2site{in, "go statement (scheduling)"})
			case *ssa.Select:
				if !x.Blocking || len(x.States) > 1 {
					out = append(out, e2site{in, "select (scheduling)"})
				}
			case ssa.CallInstruction:
				if n := calleeName(x.Common()); n != "" {
					if w, ok := ambientCalls[n]; ok {
						out = append(out, e2site{in, "call of " + n + " (" + w + ")"})
					}
				}
			}
		}
	}
	return out
}

func ruleE2(c *Ctx) {
	c.doc("E2", "no range over a map, map-order helper, clock/random/environment read or goroutine in gosk's own non-generated code reachable from an assembly")
	reach := c.reach()
	nf, sites := 0, 0
	for _, f := range c.L.RepoFuncs() {
		if _, ok := reach[f]; !ok {
			continue
		}
		if c.isGeneratedFn(f) {
			continue
		}
		nf++
		for _, s := range matchE2(f) {
			sites++
			c.fail("E2", fmt.Sprintf("%s|%s", shortName(f), s.what), c.L.Pos(instrPos(s.in)),
				fmt.Sprintf("%s in %s, reachable from an assembly: %s", s.what, shortName(f), pathTo(reach, f)))
		}
	}
	c.check(nf >= 60, "E2", "functions-scanned", "", fmt.Sprintf("scanned %d reachable non-generated functions", nf))
	c.analysed["E2_functions_scanned"] = nf
	c.analysed["E2_sites"] = sites
}

// ---------------------------------------------------------------------------------------
// E6: explicit crash primitives
// ---------------------------------------------------------------------------------------

type e6site struct {
	in   ssa.Instruction
	what string
}

func matchE6(f *ssa.Function) []e6site {
	var out []e6site
	for _, b := range f.Blocks {
		for _, in := range b.Instrs {
			switch x := in.(type) {
			case *ssa.Panic:
				out = append(out, e6site{in, "panic"})
			case ssa.CallInstruction:
				n := calleeName(x.Common())
				switch {
				case strings.HasPrefix(n, "log.Fatal"), strings.HasPrefix(n, "log.Panic"),
					strings.HasPrefix(n, "(*log.Logger).Fatal"), strings.HasPrefix(n, "(*log.Logger).Panic"):
					out = append(out, e6site{in, n})
				case n == "os.Exit":
					out = append(out, e6site{in, "os.Exit"})
				case n == "runtime.Goexit":
					out = append(out, e6site{in, n})
				}
			}
		}
	}
	return out
}

func ruleE6(c *Ctx) {
	c.doc("E6", "no panic / log.Fatal / log.Panic / os.Exit in gosk's own non-generated code is reachable from an assembly, except process exits in cmd/gosk and frontend.Exec (rule T9) and failures of the embedded instruction table during package init")
	reach := c.reach()
	chain := initChain(c)
	n := 0
	for _, f := range c.L.RepoFuncs() {
		if c.isGeneratedFn(f) {
			continue
		}
		_, isReach := reach[f]
		for _, s := range matchE6(f) {
			n++
			key := fmt.Sprintf("%s|%s", shortName(f), s.what)
			pos := c.L.Pos(instrPos(s.in))
			top := shortName(outermost(f))
			switch {
			case s.what == "os.Exit" && (top == "cmd/gosk.main" || top == "internal/frontend.Exec" || strings.HasPrefix(top, "cmd/")):
				c.ok("E6", key, pos, "process exit in the CLI layer (exit codes are checked by T9)")
			case chain[f] && strings.HasPrefix(pkgRel(f), "pkg/asmdb"):
				c.ok("E6", key, pos, "embedded-data failure during package initialisation (not input-dependent)")
			case !isReach && !chain[f]:
				c.ok("E6", key, pos, "not reachable from frontend.Exec / gen.Parse / main")
			default:
				c.fail("E6", key, pos, fmt.Sprintf("%s in %s is reachable from an assembly: %s", s.what, shortName(f), pathTo(reach, f)))
			}
		}
	}
	// generated parsers must keep panic recovery on
	for _, pk := range []string{"internal/gen", "pkg/ng_operand"} {
		p := c.L.Pkg(pk)
		if p == nil {
			c.anchorMissing("E6", pk)
			continue
		}
		found, okv := false, false
		fd, _ := c.L.FuncDecl(pk, "newParser")
		if fd != nil {
			astInspectKV(fd, "recover", func(v string) { found = true; okv = v == "true" })
		}
		c.check(found && okv, "E6", pk+".newParser|recover default", posOf(c, fd), "generated parser must be constructed with recover: true (panics in actions become parse errors)")
		// and nobody turns it off
		off := false
		for _, f := range c.L.RepoFuncs() {
			callsIn(f, func(ci ssa.CallInstruction) {
				if c.isGeneratedFn(f) {
					return
				}
				if cn := calleeName(ci.Common()); strings.HasSuffix(cn, pk+".Recover") && len(ci.Common().Args) == 1 {
					if k, ok := ci.Common().Args[0].(*ssa.Const); !ok || k.Value == nil || k.Value.String() != "true" {
						off = true
					}
				}
			})
		}
		c.check(!off, "E6", pk+".Recover(false)", "", "a caller switches parser panic recovery off")
	}
	c.floor("E6", 8)
	c.analysed["E6_crash_sites"] = n
}

// ---------------------------------------------------------------------------------------
// E7: the error result of CodegenClient.Emit is never lost
// ---------------------------------------------------------------------------------------

func ruleE7(c *Ctx) {
	c.doc("E7", "at every call of CodegenClient.Emit the error result is used, or every error return of every Emit implementation is preceded by an error-level diagnostic")
	d := loadColog(c)
	if d == nil {
		return
	}
	// implementations
	var impls []*ssa.Function
	for _, f := range c.L.RepoFuncs() {
		if f.Name() == "Emit" && f.Signature.Recv() != nil && f.Signature.Params().Len() == 1 && f.Signature.Results().Len() == 1 && !strings.Contains(f.String(), "$bound") && f.Synthetic == "" {
			impls = append(impls, f)
		}
	}
	if len(impls) == 0 {
		c.anchorMissing("E7", "an implementation of CodegenClient.Emit(string) error")
		return
	}
	implDiag := true
	for _, f := range impls {
		bad := undiagnosedErrorReturns(c, d, f, 0)
		for _, r := range bad {
			implDiag = false
			_ = r
		}
		c.analysed["E7_impl_"+shortName(f)] = fmt.Sprintf("%d error returns without error-level diagnostic", len(bad))
	}
	sites := 0
	for _, f := range c.L.RepoFuncs() {
		if c.isGeneratedFn(f) {
			continue
		}
		perFn := 0
		callsIn(f, func(ci ssa.CallInstruction) {
			cc := ci.Common()
			isEmit := false
			if cc.IsInvoke() && cc.Method.Name() == "Emit" && namedTypeIs(cc.Value.Type(), "internal/client", "CodegenClient") {
				isEmit = true
			}
			if sc := cc.StaticCallee(); sc != nil {
				for _, im := range impls {
					if sc == im {
						isEmit = true
					}
				}
			}
			if !isEmit {
				return
			}
			// EmitAll forwards Emit's error: `if err := c.Emit(...); err != nil { return err }`
			sites++
			perFn++
			used := false
			if v, ok := ci.(ssa.Value); ok && v.Referrers() != nil && len(*v.Referrers()) > 0 {
				used = true
			}
			key := fmt.Sprintf("%s|Emit#%d", shortName(f), perFn)
			switch {
			case used:
				c.ok("E7", key, c.L.Pos(instrPos(ci)), "error result is consumed")
			case implDiag:
				c.ok("E7", key, c.L.Pos(instrPos(ci)), "result dropped, but every failing path of Emit logs at error level")
			default:
				c.fail("E7", key, c.L.Pos(instrPos(ci)), "error result of Emit is discarded and Emit fails without an error-level diagnostic: the statement vanishes from the output silently")
			}
		})
	}
	c.floor("E7", 15)
	c.analysed["E7_call_sites"] = sites
}

// undiagnosedErrorReturns returns the Return instructions of f that may return a non-nil
// error and are not dominated by a diagnostic call.
func undiagnosedErrorReturns(c *Ctx, d *diagInfo, f *ssa.Function, depth int) []*ssa.Return {
	var out []*ssa.Return
	errIdx := -1
	res := f.Signature.Results()
	for i := 0; i < res.Len(); i++ {
		if types.Identical(res.At(i).Type(), types.Universe.Lookup("error").Type()) {
			errIdx = i
		}
	}
	if errIdx < 0 {
		return nil
	}
	diagBlocks := map[*ssa.BasicBlock]bool{}
	for _, b := range f.Blocks {
		for _, in := range b.Instrs {
			if ci, ok := in.(ssa.CallInstruction); ok && d.isDiagnosticCall(ci.Common()) {
				diagBlocks[b] = true
			}
		}
	}
	for _, b := range f.Blocks {
		for _, in := range b.Instrs {
			ret, ok := in.(*ssa.Return)
			if !ok {
				continue
			}
			ev := ret.Results[errIdx]
			if k, ok := ev.(*ssa.Const); ok && k.IsNil() {
				continue
			}
			dominated := false
			for db := range diagBlocks {
				if db.Dominates(b) {
					dominated = true
				}
			}
			if !dominated {
				out = append(out, ret)
			}
		}
	}
	return out
}

// ---------------------------------------------------------------------------------------
// E9: sibling writers of the symbol lists agree on the membership test
// ---------------------------------------------------------------------------------------

func ruleE9(c *Ctx) {
	c.doc("E9", "every site that appends to Pass1.GlobalSymbolList / ExternSymbolList is guarded by a membership test over the same list (a name declared twice yields one symbol)")
	n := 0
	for _, f := range c.L.RepoFuncs() {
		if c.isGeneratedFn(f) {
			continue
		}
		for _, b := range f.Blocks {
			for _, in := range b.Instrs {
				st, ok := in.(*ssa.Store)
				if !ok {
					continue
				}
				fa, ok := st.Addr.(*ssa.FieldAddr)
				if !ok {
					continue
				}
				fld := fieldName(fa)
				if fld != "GlobalSymbolList" && fld != "ExternSymbolList" {
					continue
				}
				if !namedTypeIs(fa.X.Type(), "internal/pass1", "Pass1") {
					continue
				}
				// is the stored value an append to the same field?
				call, ok := st.Val.(*ssa.Call)
				if !ok {
					continue
				}
				if bi, ok := call.Call.Value.(*ssa.Builtin); !ok || bi.Name() != "append" {
					continue
				}
				n++
				key := fmt.Sprintf("%s|append(%s)", shortName(f), fld)
				// membership test: the block is control-dependent on a comparison of a string
				// loaded from the same list with the appended element. Structural necessary
				// condition used here: somewhere in f a BinOp == compares two strings one of
				// which is an element load (Index/IndexAddr) of the same field, and that
				// comparison's block dominates-or-precedes the append block in the loop.
				guard := hasMembershipTest(f, fld)
				if guard {
					c.ok("E9", key, c.L.Pos(instrPos(in)), "append guarded by a membership scan of "+fld)
				} else {
					c.fail("E9", key, c.L.Pos(instrPos(in)), fmt.Sprintf("%s appends to %s without testing whether the name is already present (sibling writers do): a name declared twice yields two symbol records", shortName(f), fld))
				}
			}
		}
	}
	c.floor("E9", 2)
}

func fieldName(fa *ssa.FieldAddr) string {
	t := fa.X.Type()
	if p, ok := t.Underlying().(*types.Pointer); ok {
		t = p.Elem()
	}
	st, ok := t.Underlying().(*types.Struct)
	if !ok || fa.Field >= st.NumFields() {
		return ""
	}
	return st.Field(fa.Field).Name()
}

func hasMembershipTest(f *ssa.Function, fld string) bool {
	// element values of the list: range/index loads rooted at the field
	isElem := func(v ssa.Value) bool {
		for i := 0; i < 8; i++ {
			switch x := v.(type) {
			case *ssa.UnOp:
				if x.Op == token.MUL {
					v = x.X
					continue
				}
				return false
			case *ssa.IndexAddr:
				r := x.X
				if u, ok := r.(*ssa.UnOp); ok && u.Op == token.MUL {
					if fa, ok := u.X.(*ssa.FieldAddr); ok && fieldName(fa) == fld {
						return true
					}
				}
				return false
			case *ssa.Index:
				return false
			case *ssa.Extract: // range over slice is lowered to index loads, not Next; keep for strings
				return false
			default:
				return false
			}
		}
		return false
	}
	for _, b := range f.Blocks {
		for _, in := range b.Instrs {
			bo, ok := in.(*ssa.BinOp)
			if !ok || bo.Op != token.EQL {
				continue
			}
			if isElem(bo.X) || isElem(bo.Y) {
				return true
			}
		}
	}
	// helper-based test: slices.Contains / lo.Contains over the field
	found := false
	callsIn(f, func(ci ssa.CallInstruction) {
		n := calleeName(ci.Common())
		if strings.HasSuffix(n, "slices.Contains") || strings.HasSuffix(n, "lo.Contains") {
			for _, a := range ci.Common().Args {
				if u, ok := a.(*ssa.UnOp); ok && u.Op == token.MUL {
					if fa, ok := u.X.(*ssa.FieldAddr); ok && fieldName(fa) == fld {
						found = true
					}
				}
			}
		}
	})
	return found
}

func sortFuncs(fs []*ssa.Function) {
	sort.Slice(fs, func(i, j int) bool { return fs[i].String() < fs[j].String() })
}

// isSyncPrimitive: *sync.Mutex / *sync.RWMutex (the lock word is not assembler state).
func isSyncPrimitive(t types.Type) bool {
	if pt, ok := t.Underlying().(*types.Pointer); ok {
		t = pt.Elem()
	}
	if n, ok := t.(*types.Named); ok && n.Obj().Pkg() != nil && n.Obj().Pkg().Path() == "sync" {
		return n.Obj().Name() == "Mutex" || n.Obj().Name() == "RWMutex"
	}
	return false
}
