package main

// What counts as a diagnostic: colog (the log backend gosk installs) classifies a line by a
// case-sensitive header prefix; the header table is read from the colog module source that
// gosk is built with (rule T11), not from a frozen copy.

import (
	"go/ast"
	"go/constant"
	"go/token"
	"go/types"
	"strings"

	"golang.org/x/tools/go/ssa"
)

type diagInfo struct {
	Headers   map[string]string // "error: " -> "LError"
	Added     []string          // headers registered by the CLI through colog.AddHeader
	Undecided bool              // an AddHeader call with non-constant arguments
}

const cologPath = "github.com/comail/colog"

func loadColog(c *Ctx) *diagInfo {
	p := c.L.ByPth[cologPath]
	if p == nil {
		c.anchorMissing("T11", "module "+cologPath+" (log backend)")
		return nil
	}
	d := &diagInfo{Headers: map[string]string{}}
	for _, f := range p.Syntax {
		for _, dd := range f.Decls {
			gd, ok := dd.(*ast.GenDecl)
			if !ok {
				continue
			}
			for _, sp := range gd.Specs {
				vs, ok := sp.(*ast.ValueSpec)
				if !ok || len(vs.Names) != 1 || vs.Names[0].Name != "defaultHeaders" || len(vs.Values) != 1 {
					continue
				}
				cl, ok := vs.Values[0].(*ast.CompositeLit)
				if !ok {
					continue
				}
				for _, e := range cl.Elts {
					kv, ok := e.(*ast.KeyValueExpr)
					if !ok {
						continue
					}
					k, ok := constStr(p.TypesInfo, kv.Key)
					lvl := constName(p.TypesInfo, kv.Value)
					if ok && lvl != "" {
						d.Headers[k] = lvl
					}
				}
			}
		}
	}
	if len(d.Headers) == 0 {
		c.anchorMissing("T11", cologPath+".defaultHeaders literal")
		return nil
	}
	// headers the CLI adds at start-up: colog.AddHeader("<header>", colog.L…) in cmd/gosk
	if mp := c.L.Pkg("cmd/gosk"); mp != nil {
		for _, f := range mp.Syntax {
			ast.Inspect(f, func(n ast.Node) bool {
				call, ok := n.(*ast.CallExpr)
				if !ok || len(call.Args) != 2 {
					return true
				}
				fn, ok := calleeOf(mp.TypesInfo, call).(*types.Func)
				if !ok || fn.Pkg() == nil || fn.Pkg().Path() != cologPath || fn.Name() != "AddHeader" {
					return true
				}
				h, ok := constStr(mp.TypesInfo, call.Args[0])
				lvl := constName(mp.TypesInfo, call.Args[1])
				if ok && lvl != "" {
					d.Headers[h] = lvl
					d.Added = append(d.Added, h)
				} else if rows, ok := rangeTableArgs(mp.TypesInfo, f, call); ok {
					// for _, h := range table { colog.AddHeader(h.prefix, h.level) }
					for _, r := range rows {
						h, ok := constStr(mp.TypesInfo, r[0])
						lvl := constName(mp.TypesInfo, r[1])
						if ok && lvl != "" {
							d.Headers[h] = lvl
							d.Added = append(d.Added, h)
						} else {
							d.Undecided = true
						}
					}
				} else {
					d.Undecided = true
				}
				return true
			})
		}
	}
	return d
}

// ruleT11 records the header table that every diagnostic rule relies on.
func ruleT11(c *Ctx) {
	c.doc("T11", "the log backend's header→level table is read from the colog source gosk is built with; it must define warning/error headers")
	d := loadColog(c)
	if d == nil {
		return
	}
	for _, h := range sortedKeys(d.Headers) {
		c.ok("T11", "colog.defaultHeaders["+h+"]", "", d.Headers[h])
	}
	hasErr, hasWarn := false, false
	for _, l := range d.Headers {
		hasErr = hasErr || l == "LError"
		hasWarn = hasWarn || l == "LWarning"
	}
	c.check(hasErr && hasWarn, "T11", "colog.defaultHeaders:levels", "", "no header of level LError / LWarning in the backend")
	c.check(!d.Undecided, "T11", "cmd/gosk|AddHeader arguments constant", "", "undecided: colog.AddHeader is called with non-constant arguments")
	// no call that replaces or weakens the table: SetHeaders / SetMinLevel above info
	if mp := c.L.Pkg("cmd/gosk"); mp != nil {
		for _, f := range mp.Syntax {
			ast.Inspect(f, func(n ast.Node) bool {
				call, ok := n.(*ast.CallExpr)
				if !ok {
					return true
				}
				fn, ok := calleeOf(mp.TypesInfo, call).(*types.Func)
				if !ok || fn.Pkg() == nil || fn.Pkg().Path() != cologPath {
					return true
				}
				switch fn.Name() {
				case "SetHeaders", "ClearHeaders":
					c.fail("T11", "cmd/gosk|"+fn.Name(), c.L.Pos(call.Pos()), "the header table is replaced at run time; diagnostic levels can no longer be decided statically")
				case "SetMinLevel":
					lvl := constName(mp.TypesInfo, call.Args[0])
					if lvl == "" {
						// a local variable that only ever holds permitted constants
						if vals, ok := localConstValues(mp.TypesInfo, f, call.Args[0]); ok {
							lvl = "LInfo"
							for _, v := range vals {
								if !(v == "LDebug" || v == "LInfo" || v == "LTrace" || v == "LWarning") {
									lvl = v
								}
							}
						}
					}
					c.check(lvl == "LDebug" || lvl == "LInfo" || lvl == "LTrace" || lvl == "LWarning", "T11", "cmd/gosk|SetMinLevel("+lvl+")", c.L.Pos(call.Pos()), "warnings and errors must not be filtered out")
				}
				return true
			})
		}
	}
	c.floor("T11", 10)
}

// levelOf returns the colog level name a message with this constant prefix is filed under
// ("" = no header: default level, which gosk sets to info).
func (d *diagInfo) levelOf(msg string) string {
	for h, l := range d.Headers {
		if strings.HasPrefix(msg, h) {
			return l
		}
	}
	return ""
}

func isDiagLevel(l string) bool { return l == "LWarning" || l == "LError" || l == "LAlert" }

// logCallFormat: if call is log.Printf/Print/Println/Fatalf… with a constant first
// argument, returns that constant.
func logCallFormat(call *ssa.CallCommon) (string, bool) {
	f := call.StaticCallee()
	if f == nil || f.Pkg == nil || f.Pkg.Pkg.Path() != "log" {
		return "", false
	}
	switch f.Name() {
	case "Printf", "Fatalf", "Panicf":
		if len(call.Args) >= 1 {
			if k, ok := call.Args[0].(*ssa.Const); ok && k.Value != nil && k.Value.Kind() == constant.String {
				return constant.StringVal(k.Value), true
			}
		}
	}
	return "", false
}

// isDiagnosticCall: a log call whose constant format carries a header of level >= warning,
// or a write of a "GOSK :" message to stdout (fmt.Printf with such a constant format).
func (d *diagInfo) isDiagnosticCall(call *ssa.CallCommon) bool {
	if s, ok := logCallFormat(call); ok {
		f := call.StaticCallee()
		if f.Name() == "Fatalf" || f.Name() == "Panicf" {
			return true
		}
		return isDiagLevel(d.levelOf(s))
	}
	if f := call.StaticCallee(); f != nil && f.Pkg != nil && f.Pkg.Pkg.Path() == "fmt" && (f.Name() == "Printf" || f.Name() == "Fprintf") {
		for _, a := range call.Args {
			if k, ok := a.(*ssa.Const); ok && k.Value != nil && k.Value.Kind() == constant.String &&
				strings.HasPrefix(constant.StringVal(k.Value), "GOSK :") {
				return true
			}
		}
	}
	return false
}

// logFormatsAST lists every log.Printf constant format in the repository's own,
// non-generated code with the level colog gives it.
func logFormatsAST(c *Ctx, d *diagInfo, visit func(pkg, fn, format, level string, pos ast.Node)) {
	for _, p := range c.L.Pkgs {
		for _, f := range p.Syntax {
			if c.L.isGeneratedFile(f) {
				continue
			}
			ast.Inspect(f, func(n ast.Node) bool {
				call, ok := n.(*ast.CallExpr)
				if !ok {
					return true
				}
				fn, ok := calleeOf(p.TypesInfo, call).(*types.Func)
				if !ok || fn.Pkg() == nil || fn.Pkg().Path() != "log" || fn.Name() != "Printf" || len(call.Args) == 0 {
					return true
				}
				s, ok := constStr(p.TypesInfo, call.Args[0])
				if !ok {
					return true
				}
				name := ""
				if fd := enclosingFunc(f, call.Pos()); fd != nil {
					name = fdName(fd)
				}
				visit(relPkg(p), name, s, d.levelOf(s), call)
				return true
			})
		}
	}
}

// rangeTableArgs: the call's arguments are fields of the value variable of a `for _, h := range
// table` whose table is a composite literal (directly, or a variable defined once by one and
// never assigned again); returns, per row, the expressions standing in for the arguments.
func rangeTableArgs(info *types.Info, file *ast.File, call *ast.CallExpr) ([][]ast.Expr, bool) {
	var hv types.Object
	var fields []string
	for _, a := range call.Args {
		se, ok := ast.Unparen(a).(*ast.SelectorExpr)
		if !ok {
			return nil, false
		}
		id, ok := se.X.(*ast.Ident)
		if !ok || info.Uses[id] == nil {
			return nil, false
		}
		if hv == nil {
			hv = info.Uses[id]
		} else if hv != info.Uses[id] {
			return nil, false
		}
		fields = append(fields, se.Sel.Name)
	}
	var rs *ast.RangeStmt
	ast.Inspect(file, func(n ast.Node) bool {
		if r, ok := n.(*ast.RangeStmt); ok {
			if id, ok := r.Value.(*ast.Ident); ok && info.Defs[id] == hv {
				rs = r
			}
		}
		return true
	})
	if rs == nil {
		return nil, false
	}
	var lit *ast.CompositeLit
	switch x := ast.Unparen(rs.X).(type) {
	case *ast.CompositeLit:
		lit = x
	case *ast.Ident:
		tv := info.Uses[x]
		if tv == nil {
			return nil, false
		}
		defs, writes := 0, 0
		ast.Inspect(file, func(n ast.Node) bool {
			switch y := n.(type) {
			case *ast.AssignStmt:
				for i, l := range y.Lhs {
					root := l
					for {
						if ix, ok := root.(*ast.IndexExpr); ok {
							root = ix.X
						} else if se, ok := root.(*ast.SelectorExpr); ok {
							root = se.X
						} else {
							break
						}
					}
					id, ok := root.(*ast.Ident)
					if !ok {
						continue
					}
					if info.Defs[id] == tv && root == l && len(y.Rhs) == len(y.Lhs) {
						defs++
						if cl, ok := ast.Unparen(y.Rhs[i]).(*ast.CompositeLit); ok {
							lit = cl
						}
					} else if info.Uses[id] == tv {
						writes++
					}
				}
			case *ast.ValueSpec:
				for i, id := range y.Names {
					if info.Defs[id] == tv && i < len(y.Values) {
						defs++
						if cl, ok := ast.Unparen(y.Values[i]).(*ast.CompositeLit); ok {
							lit = cl
						}
					}
				}
			case *ast.UnaryExpr:
				if id, ok := ast.Unparen(y.X).(*ast.Ident); ok && y.Op == token.AND && info.Uses[id] == tv {
					writes++
				}
			}
			return true
		})
		if defs != 1 || writes != 0 {
			return nil, false
		}
	}
	if lit == nil {
		return nil, false
	}
	var rows [][]ast.Expr
	for _, e := range lit.Elts {
		row, ok := ast.Unparen(e).(*ast.CompositeLit)
		if !ok {
			return nil, false
		}
		st, ok := info.TypeOf(row).Underlying().(*types.Struct)
		if !ok {
			return nil, false
		}
		var out []ast.Expr
		for _, fn := range fields {
			var val ast.Expr
			for i, el := range row.Elts {
				if kv, ok := el.(*ast.KeyValueExpr); ok {
					if k, ok := kv.Key.(*ast.Ident); ok && k.Name == fn {
						val = kv.Value
					}
				} else if i < st.NumFields() && st.Field(i).Name() == fn {
					val = el
				}
			}
			if val == nil {
				return nil, false
			}
			out = append(out, val)
		}
		rows = append(rows, out)
	}
	return rows, len(rows) > 0
}

// localConstValues: e names a local variable; the names of the declared constants it is
// defined with and assigned (every assignment must be one).
func localConstValues(info *types.Info, file *ast.File, e ast.Expr) ([]string, bool) {
	id, ok := ast.Unparen(e).(*ast.Ident)
	if !ok {
		return nil, false
	}
	v, ok := info.Uses[id].(*types.Var)
	if !ok || v.Parent() == nil || v.Parent() == v.Pkg().Scope() {
		return nil, false
	}
	var vals []string
	good := true
	ast.Inspect(file, func(n ast.Node) bool {
		switch y := n.(type) {
		case *ast.AssignStmt:
			for i, l := range y.Lhs {
				lid, ok := l.(*ast.Ident)
				if !ok || (info.Defs[lid] != v && info.Uses[lid] != v) {
					continue
				}
				if len(y.Rhs) != len(y.Lhs) {
					good = false
					continue
				}
				if nm := constName(info, y.Rhs[i]); nm != "" {
					vals = append(vals, nm)
				} else {
					good = false
				}
			}
		case *ast.ValueSpec:
			for i, nid := range y.Names {
				if info.Defs[nid] == v {
					if i < len(y.Values) {
						if nm := constName(info, y.Values[i]); nm != "" {
							vals = append(vals, nm)
						} else {
							good = false
						}
					} else {
						good = false
					}
				}
			}
		case *ast.UnaryExpr:
			if uid, ok := ast.Unparen(y.X).(*ast.Ident); ok && y.Op == token.AND && info.Uses[uid] == v {
				good = false
			}
		}
		return true
	})
	return vals, good && len(vals) > 0
}
