package main

// What counts as a diagnostic: colog (the log backend gosk installs) classifies a line by a
// case-sensitive header prefix; the header table is read from the colog module source that
// gosk is built with (rule T11), not from a frozen copy.

import (
	"go/ast"
	"go/constant"
	"go/types"
	"strings"

	"golang.org/x/tools/go/ssa"
)

type diagInfo struct {
	Headers   map[string]string // "error: " -> "LError"
	Added     []string          // headers registered by the CLI through colog.AddHeader
	Undecided bool              // an AddHeader call with non-constant arguments
}

const cologPath = "github.com/comail/colog"

func loadColog(c *Ctx) *diagInfo {
	p := c.L.ByPth[cologPath]
	if p == nil {
		c.anchorMissing("T11", "module "+cologPath+" (log backend)")
		return nil
	}
	d := &diagInfo{Headers: map[string]string{}}
	for _, f := range p.Syntax {
		for _, dd := range f.Decls {
			gd, ok := dd.(*ast.GenDecl)
			if !ok {
				continue
			}
			for _, sp := range gd.Specs {
				vs, ok := sp.(*ast.ValueSpec)
				if !ok || len(vs.Names) != 1 || vs.Names[0].Name != "defaultHeaders" || len(vs.Values) != 1 {
					continue
				}
				cl, ok := vs.Values[0].(*ast.CompositeLit)
				if !ok {
					continue
				}
				for _, e := range cl.Elts {
					kv, ok := e.(*ast.KeyValueExpr)
					if !ok {
						continue
					}
					k, ok := constStr(p.TypesInfo, kv.Key)
					lvl := constName(p.TypesInfo, kv.Value)
					if ok && lvl != "" {
						d.Headers[k] = lvl
					}
				}
			}
		}
	}
	if len(d.Headers) == 0 {
		c.anchorMissing("T11", cologPath+".defaultHeaders literal")
		return nil
	}
	// headers the CLI adds at start-up: colog.AddHeader("<header>", colog.L…) in cmd/gosk
	if mp := c.L.Pkg("cmd/gosk"); mp != nil {
		for _, f := range mp.Syntax {
			ast.Inspect(f, func(n ast.Node) bool {
				call, ok := n.(*ast.CallExpr)
				if !ok || len(call.Args) != 2 {
					return true
				}
				fn, ok := calleeOf(mp.TypesInfo, call).(*types.Func)
				if !ok || fn.Pkg() == nil || fn.Pkg().Path() != cologPath || fn.Name() != "AddHeader" {
					return true
				}
				h, ok := constStr(mp.TypesInfo, call.Args[0])
				lvl := constName(mp.TypesInfo, call.Args[1])
				if ok && lvl != "" {
					d.Headers[h] = lvl
					d.Added = append(d.Added, h)
				} else {
					d.Undecided = true
				}
				return true
			})
		}
	}
	return d
}

// ruleT11 records the header table that every diagnostic rule relies on.
func ruleT11(c *Ctx) {
	c.doc("T11", "the log backend's header→level table is read from the colog source gosk is built with; it must define warning/error headers")
	d := loadColog(c)
	if d == nil {
		return
	}
	for _, h := range sortedKeys(d.Headers) {
		c.ok("T11", "colog.defaultHeaders["+h+"]", "", d.Headers[h])
	}
	hasErr, hasWarn := false, false
	for _, l := range d.Headers {
		hasErr = hasErr || l == "LError"
		hasWarn = hasWarn || l == "LWarning"
	}
	c.check(hasErr && hasWarn, "T11", "colog.defaultHeaders:levels", "", "no header of level LError / LWarning in the backend")
	c.check(!d.Undecided, "T11", "cmd/gosk|AddHeader arguments constant", "", "undecided: colog.AddHeader is called with non-constant arguments")
	// no call that replaces or weakens the table: SetHeaders / SetMinLevel above info
	if mp := c.L.Pkg("cmd/gosk"); mp != nil {
		for _, f := range mp.Syntax {
			ast.Inspect(f, func(n ast.Node) bool {
				call, ok := n.(*ast.CallExpr)
				if !ok {
					return true
				}
				fn, ok := calleeOf(mp.TypesInfo, call).(*types.Func)
				if !ok || fn.Pkg() == nil || fn.Pkg().Path() != cologPath {
					return true
				}
				switch fn.Name() {
				case "SetHeaders", "ClearHeaders":
					c.fail("T11", "cmd/gosk|"+fn.Name(), c.L.Pos(call.Pos()), "the header table is replaced at run time; diagnostic levels can no longer be decided statically")
				case "SetMinLevel":
					lvl := constName(mp.TypesInfo, call.Args[0])
					c.check(lvl == "LDebug" || lvl == "LInfo" || lvl == "LTrace" || lvl == "LWarning", "T11", "cmd/gosk|SetMinLevel("+lvl+")", c.L.Pos(call.Pos()), "warnings and errors must not be filtered out")
				}
				return true
			})
		}
	}
	c.floor("T11", 10)
}

// levelOf returns the colog level name a message with this constant prefix is filed under
// ("" = no header: default level, which gosk sets to info).
func (d *diagInfo) levelOf(msg string) string {
	for h, l := range d.Headers {
		if strings.HasPrefix(msg, h) {
			return l
		}
	}
	return ""
}

func isDiagLevel(l string) bool { return l == "LWarning" || l == "LError" || l == "LAlert" }

// logCallFormat: if call is log.Printf/Print/Println/Fatalf… with a constant first
// argument, returns that constant.
func logCallFormat(call *ssa.CallCommon) (string, bool) {
	f := call.StaticCallee()
	if f == nil || f.Pkg == nil || f.Pkg.Pkg.Path() != "log" {
		return "", false
	}
	switch f.Name() {
	case "Printf", "Fatalf", "Panicf":
		if len(call.Args) >= 1 {
			if k, ok := call.Args[0].(*ssa.Const); ok && k.Value != nil && k.Value.Kind() == constant.String {
				return constant.StringVal(k.Value), true
			}
		}
	}
	return "", false
}

// isDiagnosticCall: a log call whose constant format carries a header of level >= warning,
// or a write of a "GOSK :" message to stdout (fmt.Printf with such a constant format).
func (d *diagInfo) isDiagnosticCall(call *ssa.CallCommon) bool {
	if s, ok := logCallFormat(call); ok {
		f := call.StaticCallee()
		if f.Name() == "Fatalf" || f.Name() == "Panicf" {
			return true
		}
		return isDiagLevel(d.levelOf(s))
	}
	if f := call.StaticCallee(); f != nil && f.Pkg != nil && f.Pkg.Pkg.Path() == "fmt" && (f.Name() == "Printf" || f.Name() == "Fprintf") {
		for _, a := range call.Args {
			if k, ok := a.(*ssa.Const); ok && k.Value != nil && k.Value.Kind() == constant.String &&
				strings.HasPrefix(constant.StringVal(k.Value), "GOSK :") {
				return true
			}
		}
	}
	return false
}

// logFormatsAST lists every log.Printf constant format in the repository's own,
// non-generated code with the level colog gives it.
func logFormatsAST(c *Ctx, d *diagInfo, visit func(pkg, fn, format, level string, pos ast.Node)) {
	for _, p := range c.L.Pkgs {
		for _, f := range p.Syntax {
			if c.L.isGeneratedFile(f) {
				continue
			}
			ast.Inspect(f, func(n ast.Node) bool {
				call, ok := n.(*ast.CallExpr)
				if !ok {
					return true
				}
				fn, ok := calleeOf(p.TypesInfo, call).(*types.Func)
				if !ok || fn.Pkg() == nil || fn.Pkg().Path() != "log" || fn.Name() != "Printf" || len(call.Args) == 0 {
					return true
				}
				s, ok := constStr(p.TypesInfo, call.Args[0])
				if !ok {
					return true
				}
				name := ""
				if fd := enclosingFunc(f, call.Pos()); fd != nil {
					name = fdName(fd)
				}
				visit(relPkg(p), name, s, d.levelOf(s), call)
				return true
			})
		}
	}
}
