package main

// C04: relative branches. S1 (little-endian fields), S2 (subtracted constant = emitted
// length), I2 (range test on the narrowed value), T3b (opcode bytes per form), mode guards.

import (
	"fmt"
	"go/token"
	"go/types"
	"sort"
	"strings"

	"golang.org/x/tools/go/ssa"
)

type fieldRun struct {
	V     ssa.Value
	Start int
	Width int
	LE    bool
}

// fieldRuns groups consecutive byte fields of one value.
func fieldRuns(s shape) []fieldRun {
	var out []fieldRun
	for i := 0; i < len(s); {
		if s[i].Kind != bField {
			i++
			continue
		}
		j := i
		le := true
		for j < len(s) && s[j].Kind == bField && sameLinearLeaf(s[j].V, s[i].V) {
			if s[j].Shift != 8*(j-i) || s[j].BE {
				le = false
			}
			j++
		}
		out = append(out, fieldRun{V: s[i].V, Start: i, Width: j - i, LE: le})
		i = j
	}
	return out
}

// two byte fields belong to the same quantity when their sources have the same linear form
// (go/ssa does not share common subexpressions: `offset - 3` is recomputed per byte).
func sameLinearLeaf(a, b ssa.Value) bool {
	if a == b {
		return true
	}
	var p *pathInfo
	la, lb := p.linearOf(a), p.linearOf(b)
	return sameTerms(la, lb) && la.K == lb.K
}

// classifier summarises a function `func(x int64) int` that returns constants selected by
// interval tests on its parameter: result -> [lo, hi].
type classifier map[int64][2]*int64

func summariseClassifier(f *ssa.Function) classifier {
	if f == nil || len(f.Params) != 1 {
		return nil
	}
	paths, ok := enumPaths(f, 64)
	if !ok {
		return nil
	}
	out := classifier{}
	for _, p := range paths {
		k, isK := p.Ret.Results[0].(*ssa.Const)
		if !isK {
			return nil
		}
		var lo, hi *int64
		for _, g := range p.Guards {
			bo, isBo := g.Cond.(*ssa.BinOp)
			if !isBo {
				return nil
			}
			v, l, h, ok := cmpBound(bo, g.Taken)
			if !ok || v != f.Params[0] {
				return nil
			}
			if l != nil && (lo == nil || *l > *lo) {
				lo = l
			}
			if h != nil && (hi == nil || *h < *hi) {
				hi = h
			}
		}
		if prev, dup := out[k.Int64()]; dup {
			// several paths with the same result: keep the hull of their intervals
			if prev[0] == nil || (lo != nil && *lo > *prev[0]) {
				lo = prev[0]
			}
			if prev[1] == nil || (hi != nil && *hi < *prev[1]) {
				hi = prev[1]
			}
		}
		out[k.Int64()] = [2]*int64{lo, hi}
	}
	return out
}

type branchClass struct {
	Fn      string
	Key     string
	Shape   shape
	Path    pathInfo
	Runs    []fieldRun
	Prefix  bool
	Opcodes []bElem
}

func canonicalRange(width int) (int64, int64, bool) {
	switch width {
	case 1:
		return -128, 127, true
	case 2:
		return -32768, 32767, true
	case 4:
		return -2147483648, 2147483647, true
	}
	return 0, 0, false
}

func dependsOnBitMode(v ssa.Value) bool { return dependsOnFieldLoad(v, "BitMode") }

func ruleBranch(c *Ctx) {
	c.doc("S2", "in every relative-branch form the constant subtracted from (target − current address) equals the number of bytes the form emits, prefixes included")
	c.doc("S1", "multi-byte fields are emitted low byte first with shifts 0,8,16,24 in order")
	c.doc("I2", "the range test that selects a displacement width is made on the very value that is narrowed to that width, with the canonical signed bounds")
	c.doc("T3b", "opcode bytes of the branch forms: JMP EB/E9, CALL E8, far JMP EA, Jcc 7x / 0F 8x (= 7x + 0x10)")
	c.doc("M4", "a rel16 form is emitted only in 16-bit mode (or with 66h in 32-bit mode) and a rel32 / ptr16:32 form only in 32-bit mode (or with 66h in 16-bit mode)")
	o := loadX86(c)
	if o == nil {
		return
	}
	branchClassifierFn = c.L.SSAFunc("internal/codegen", "getOffsetSize")
	cls := summariseClassifier(branchClassifierFn)
	jtab, _, _ := jccTable(c)
	jccBytes := map[byte]bool{}
	for _, v := range jtab {
		jccBytes[byte(v)] = true
	}
	total := 0
	for _, fn := range []string{"handleJcc", "handleCALL"} {
		f := c.L.SSAFunc("internal/codegen", fn)
		if f == nil {
			c.anchorMissing("S2", "internal/codegen."+fn)
			continue
		}
		paths, ok := enumPaths(f, 5000)
		if !ok {
			c.fail("S2", fn+"|path enumeration", c.L.Pos(f.Pos()), "undecided: too many paths")
			continue
		}
		classes := map[string]*branchClass{}
		nearBad := map[string]bool{}
		for i := range paths {
			p := paths[i]
			if len(p.Ret.Results) != 2 {
				continue
			}
			if e, ok := p.Ret.Results[1].(*ssa.Const); !ok || !e.IsNil() {
				continue // error return
			}
			if p.contradictsConstGuard() {
				continue // e.g. the value of `a && b` is the constant false on the way through !a, yet the branch on it is taken
			}
			for _, sp := range shapesWithHelpers(p, p.Ret.Results[0], 2) {
				sh, p := sp.Shape, sp.Path
				if len(sh) == 0 {
					continue
				}
				runs := fieldRuns(sh)
				bc := &branchClass{Fn: fn, Shape: sh, Path: p, Runs: runs}
				// leading constant / expr bytes up to the first field
				first := len(sh)
				if len(runs) > 0 {
					first = runs[0].Start
				}
				ops := sh[:first]
				if len(ops) > 1 && ops[0].Kind == bConst && ops[0].C == 0x66 {
					bc.Prefix = true
					ops = ops[1:]
				}
				bc.Opcodes = ops
				var od []string
				for _, e := range ops {
					switch {
					case e.Kind == bConst && jccBytes[e.C] && fn == "handleJcc" && len(ops) == 1 && e.C >= 0x70 && e.C <= 0x7f:
						od = append(od, "Jcc")
					case e.Kind == bConst:
						od = append(od, fmt.Sprintf("%02X", e.C))
					case e.Kind == bExpr:
						od = append(od, "Jcc+10")
					default:
						od = append(od, "?")
					}
				}
				var ws []string
				for _, r := range runs {
					ws = append(ws, fmt.Sprintf("%d", r.Width*8))
				}
				bc.Key = fmt.Sprintf("%s|%s disp%s", fn, strings.Join(od, " "), strings.Join(ws, "+"))
				if bc.Prefix {
					bc.Key += " +66"
				}
				if _, dup := classes[bc.Key]; !dup {
					classes[bc.Key] = bc
				}
				// T3b per path for conditional forms: near form derives from the table byte
				if fn == "handleJcc" && len(ops) == 2 && ops[0].Kind == bConst && ops[0].C == 0x0f && ops[1].Kind == bExpr {
					l, lok := ops[1].L.(*ssa.Const)
					r, rok := ops[1].R.(*ssa.Const)
					good := lok && rok && ops[1].Op == token.ADD && jccBytes[byte(l.Uint64())] && r.Uint64() == 0x10
					if !good && !nearBad[bc.Key] {
						nearBad[bc.Key] = true
						c.fail("T3b", bc.Key+"|near opcode", c.L.Pos(retPos(p.Ret)), "near conditional jump must be 0F followed by (rel8 opcode + 0x10); found "+ops[1].Desc)
					}
				}
			}
		}
		keys := make([]string, 0, len(classes))
		for k := range classes {
			keys = append(keys, k)
		}
		sort.Strings(keys)
		for _, k := range keys {
			bc := classes[k]
			total++
			pos := c.L.Pos(retPos(bc.Path.Ret))
			// ---- T3b opcode bytes
			switch {
			case strings.HasPrefix(k, "handleJcc|EB "):
				c.ok("T3b", k, pos, "JMP rel8 = EB")
			case strings.HasPrefix(k, "handleJcc|E9 "):
				c.ok("T3b", k, pos, "JMP rel16/32 = E9")
			case strings.HasPrefix(k, "handleJcc|EA "):
				c.ok("T3b", k, pos, "JMP ptr16:16/32 = EA")
			case strings.HasPrefix(k, "handleJcc|Jcc "):
				c.ok("T3b", k, pos, "Jcc rel8 = 7x from the condition table (rule T3)")
			case strings.HasPrefix(k, "handleJcc|0F Jcc+10 "):
				c.ok("T3b", k, pos, "Jcc near = 0F 8x")
			case strings.HasPrefix(k, "handleCALL|E8 "):
				c.ok("T3b", k, pos, "CALL = E8")
			default:
				c.fail("T3b", k, pos, "branch form with unexpected opcode bytes: "+bc.Shape.String())
			}
			// ---- S1
			for _, r := range bc.Runs {
				c.check(r.LE, "S1", fmt.Sprintf("%s|field@%d", k, r.Start), pos, "multi-byte field must be little endian (shifts 0,8,16,…): "+bc.Shape.String())
			}
			if strings.Contains(k, "|EA ") {
				// far pointer: offset then selector, both little endian, selector 16 bits
				good := len(bc.Runs) == 2 && bc.Runs[1].Width == 2 && (bc.Runs[0].Width == 4 || bc.Runs[0].Width == 2)
				c.check(good, "S1", k+"|ptr16:32 layout", pos, "far pointer is offset (2 or 4 bytes) followed by a 2-byte selector: "+bc.Shape.String())
				// mode: ptr16:32 needs 66 in 16-bit mode
				hasMode := false
				for _, g := range bc.Path.Guards {
					if pathDependsOnField(&bc.Path, g.Cond, "BitMode") {
						hasMode = true
					}
				}
				c.check(hasMode, "M4", k, pos, "the operand-size prefix of the far form must depend on the BITS mode")
				continue
			}
			if len(bc.Runs) != 1 {
				c.fail("S2", k, pos, "undecided: branch form with "+fmt.Sprint(len(bc.Runs))+" displacement fields: "+bc.Shape.String())
				continue
			}
			run := bc.Runs[0]
			lv := bc.Path.linearOf(run.V)
			n := bc.Shape.length()
			// ---- S2x: the displacement is built only from the parsed target, the origin and the bytes emitted so far
			var odd []string
			for leaf := range lv.Terms {
				if why := oddBranchLeaf(leaf); why != "" {
					odd = append(odd, why)
				}
			}
			c.check(len(odd) == 0, "S2", k+"|operands", pos, fmt.Sprintf("the displacement must be target − (origin + bytes emitted) − length with plain integer arithmetic; found %v (masking or rescaling an address changes the distance for some origins)", odd))
			// ---- S2
			c.check(lv.K == int64(-n), "S2", k, pos, fmt.Sprintf("form emits %d bytes (%s) but its displacement is (target − current) %+d: the branch lands %d byte(s) off", n, bc.Shape.String(), lv.K, int64(n)+lv.K))
			// ---- I2: bounds established on the path for a value with the same terms
			lo, hi, onK, found := pathBounds(&bc.Path, lv, cls)
			wlo, whi, _ := canonicalRange(run.Width)
			switch {
			case run.Width == 4:
				c.ok("I2", k, pos, "32-bit displacement: no narrowing test needed")
			case !found:
				// a separate obligation from "tested on another value": a known finding of that kind
				// must not hide a form whose test has disappeared (or is made after the narrowing)
				c.fail("I2", k+"|range test present", pos, fmt.Sprintf("no range test on (target − current) selects the %d-bit form (a test made on the already narrowed value always succeeds)", run.Width*8))
			case !(lo != nil && hi != nil && *lo == wlo && *hi == whi):
				c.fail("I2", k+"|canonical bounds", pos, fmt.Sprintf("the %d-bit form is selected by a test in [%s,%s]; the canonical signed range is [%d,%d]", run.Width*8, istr(lo), istr(hi), wlo, whi))
			default:
				good := onK == lv.K
				c.check(good, "I2", k, pos, fmt.Sprintf("the %d-bit displacement is (target − current) %+d, but the form is selected by testing (target − current) %+d in [%s,%s]; canonical [%d,%d] on the same value is required (otherwise boundary distances wrap silently)",
					run.Width*8, lv.K, onK, istr(lo), istr(hi), wlo, whi))
			}
			// ---- M4 mode guards
			hasMode := false
			for _, g := range bc.Path.Guards {
				if pathDependsOnField(&bc.Path, g.Cond, "BitMode") {
					hasMode = true
				}
			}
			if run.Width >= 2 {
				c.check(hasMode, "M4", k, pos, fmt.Sprintf("the %d-bit displacement form is emitted regardless of the BITS mode (in the other mode the CPU reads a different displacement width)", run.Width*8))
			}
		}
	}
	c.analysed["branch_form_classes"] = total
	c.floor("S2", 7)
	c.floor("T3b", 9)
}

func istr(p *int64) string {
	if p == nil {
		return "∞"
	}
	return fmt.Sprint(*p)
}

// pathBounds collects the bounds the path's guards put on a value whose linear form has the
// same terms as lv (possibly another constant offset). Returns the bounds, the constant
// offset of the tested value and whether a test was found.
func pathBounds(p *pathInfo, lv linear, cls classifier) (lo, hi *int64, k int64, found bool) {
	upd := func(l, h *int64) {
		if l != nil && (lo == nil || *l > *lo) {
			lo = l
		}
		if h != nil && (hi == nil || *h < *hi) {
			hi = h
		}
	}
	// classifier results excluded so far (switch lowering: t==1 false, t==2 true …)
	for _, g := range p.Guards {
		// the value of a short-circuit expression is, on this path, the operand evaluated last
		bo, ok := p.resolve(g.Cond).(*ssa.BinOp)
		if !ok {
			continue
		}
		// direct comparison
		if v, l, h, ok := cmpBound(bo, g.Taken); ok {
			if p.narrowed(v) {
				continue // tested after a narrowing conversion: vacuous
			}
			lw := p.linearOf(v)
			if sameTerms(lw, lv) && len(lw.Terms) > 0 {
				if found && lw.K != k {
					continue
				}
				k, found = lw.K, true
				upd(l, h)
			}
			continue
		}
		// classifier(W) == n
		if bo.Op == token.EQL && g.Taken && cls != nil {
			call, isCall := bo.X.(*ssa.Call)
			kc, isK := bo.Y.(*ssa.Const)
			if isCall && isK && branchClassifierFn != nil && call.Call.StaticCallee() == branchClassifierFn {
				lw := p.linearOf(call.Call.Args[0])
				if sameTerms(lw, lv) {
					if iv, ok := cls[kc.Int64()]; ok {
						k, found = lw.K, true
						upd(iv[0], iv[1])
					}
				}
			}
		}
	}
	return
}

// oddBranchLeaf: a leaf of the displacement's linear form that is neither the parsed target,
// nor the origin, nor the running length.
func oddBranchLeaf(v ssa.Value) string {
	for i := 0; i < 8; i++ {
		switch x := v.(type) {
		case *ssa.Convert:
			v = x.X
			continue
		case *ssa.ChangeType:
			v = x.X
			continue
		}
		break
	}
	switch x := v.(type) {
	case *ssa.Extract:
		if call, ok := x.Tuple.(*ssa.Call); ok && strings.HasPrefix(calleeName(&call.Call), "strconv.Parse") {
			return ""
		}
		// the result of a parsing helper of this repository: what it returns in that position
		if rs := helperResults(x); len(rs) > 0 {
			for _, r := range rs {
				if why := oddBranchLeaf(r); why != "" {
					return why
				}
			}
			return ""
		}
	case *ssa.Phi:
		for _, e := range x.Edges {
			if k, ok := e.(*ssa.Const); ok && isIntConst(k) {
				continue
			}
			if why := oddBranchLeaf(e); why != "" {
				return why
			}
		}
		return ""
	case *ssa.UnOp:
		if isFieldLoad(x, "DollarPosition") || isFieldLoad(x, "MachineCodeLen") {
			return ""
		}
	case *ssa.Field:
		if st, ok := x.X.Type().Underlying().(*types.Struct); ok && st.Field(x.Field).Name() == "MachineCodeLen" {
			return ""
		}
	case *ssa.BinOp:
		return fmt.Sprintf("%s (%s)", x.Name(), x.Op)
	}
	return fmt.Sprintf("%s (%T)", valName(v), v)
}

// pathDependsOnField: like dependsOnFieldLoad, reading parameters of inlined helpers as the
// arguments the path binds them to.
func pathDependsOnField(p *pathInfo, v ssa.Value, fld string) bool {
	seen := map[ssa.Value]bool{}
	var walk func(ssa.Value) bool
	walk = func(x ssa.Value) bool {
		if x == nil || seen[x] {
			return false
		}
		seen[x] = true
		if p != nil && p.Subst != nil {
			if a, ok := p.Subst[x]; ok {
				return walk(a)
			}
		}
		if isFieldLoad(x, fld) {
			return true
		}
		if in, ok := x.(ssa.Instruction); ok {
			if call, isCall := x.(*ssa.Call); isCall {
				if _, isBuiltin := call.Call.Value.(*ssa.Builtin); !isBuiltin {
					return false
				}
			}
			for _, op := range in.Operands(nil) {
				if op != nil && *op != nil && walk(*op) {
					return true
				}
			}
		}
		return false
	}
	return walk(v)
}

// branchClassifierFn: the displacement-width classifier (getOffsetSize, or whatever it is called today).
var branchClassifierFn *ssa.Function
