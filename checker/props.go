package main

// Property → rules. A rule may serve several properties; its obligations are re-evaluated
// in each property's run (one process per property).

func init() {
	register("C01", "Decided: register / no-operand / condition-code / hand-written-form tables against the SDM, prefix predicates, mode configuration of every operand object, immediate width provenance, prefix independence from immediate magnitude, emission-time mode. Not decided: that form selection picks the right form for a concrete operand combination.",
		ruleT1, ruleT1e, ruleT2, ruleT3, ruleT4d, ruleT5, ruleF8size, ruleP3, ruleF1, ruleF7, ruleE5, ruleI1, ruleI1s, ruleE1, ruleE1b, ruleE3, ruleE3s, ruleT18acc, ruleS66, ruleM7, ruleT5u, ruleU8p, ruleT6, ruleH7k, ruleZ18, ruleS6s)
	register("C02", "Decided: ModR/M and SIB tables, special cases, displacement thresholds, SIB presence, consumption of every parsed address component, operator handling in the operand grammar, 67h predicate, agreement of the pass-1 displacement/SIB sizing. Not decided: the path-sensitive composition of the calculator's branches.",
		ruleT6, ruleQ2, ruleE8, ruleG2, ruleT1, ruleT1e, ruleI1, ruleP3, ruleZ3, ruleZ3b, ruleD2, ruleK18p, ruleF8size, ruleM2, ruleE1, ruleE1b, ruleE3, ruleE3s, ruleS16l, ruleS6s)
	register("C03", "Decided: advance-iff-emit on every handler path, constant size rules vs emitter lengths, size-model terms and prefix predicates, data-directive lockstep, label/$ = LOC, pass-2 hand-over. Not decided: equality of the two size computations on every operand value.",
		ruleP8, ruleW3, ruleS3, ruleS3e, ruleF8size, ruleZ3, ruleP7, ruleP7e, ruleF2, ruleN5, ruleP5, ruleP3, ruleF8a, ruleM2, ruleZ3b, ruleO3, ruleC2P, ruleF8o, ruleS3j, ruleZ3c, ruleF6, ruleE1, ruleE1b, ruleE3, ruleE3s, ruleU8p, ruleS3f, ruleS16l, ruleA18, ruleD2, ruleP6, ruleG16l, ruleS17f)
	register("C04", "Decided: condition codes, opcode bytes, length-adjusted displacement, range test on the narrowed value, little-endian fields, origin in the current address, mode guards. Not decided: that pass 1 leaves the target where the emitter assumes it.",
		ruleT3, ruleT3k, ruleBranch, ruleI1, ruleF6, ruleS3, ruleS3e, ruleS3j, ruleE1, ruleE1b, ruleE3, ruleE3s, ruleU8p, ruleU7, ruleS3f, ruleZ4, ruleF5)
	register("C05", "Decided: per-clause lockstep of size and emitted elements, lane order, decimal hand-off, RESB flow, non-emitting statements, every operand clause contributes or diagnoses, ALIGNB address basis.",
		ruleP7, ruleP7e, ruleF2, ruleN5, ruleP2b, ruleP8, ruleW3, ruleE10, ruleF6, ruleO3, ruleT7, ruleT7h, ruleS5s, ruleE1, ruleE1b, ruleE3, ruleE3s, ruleL14r)
	register("C06", "Decided: precedence layering of the grammar, operator table of the evaluator, literal bases. Not decided: 64-bit overflow semantics.",
		ruleT7, ruleT7b, ruleT10Expr, ruleG2, ruleE3, ruleE3s, ruleR6, ruleI1t, ruleI1, ruleK6, ruleZ3b, ruleD13z, ruleT7h, ruleE10, ruleO6, ruleG6p, ruleD2, ruleD13m)
	register("C07", "Decided: every handler return emits, delegates or diagnoses at >= warning (level decided from colog's own table plus the CLI's AddHeader calls); Emit failures are never lost; data-directive clauses; code-generation handlers.",
		ruleT11, ruleE7, ruleP2, ruleP2g, ruleP2b, ruleP2c, ruleU7, ruleT4d, ruleM7, ruleE7d, ruleP7, ruleD13z, ruleE7e, ruleT6, ruleL19, ruleH7k, ruleF1, ruleD13m)
	register("C08", "Decided: record layouts and constants, capture-then-write ordering, symbol/aux counts, string table. Not decided: acceptance by an independent COFF reader.",
		ruleT8, ruleP4, ruleS15, ruleE1, ruleE1b, ruleN8, ruleBoundedCopy, ruleP6, ruleO19w)
	register("C09", "Decided: same code in both formats, membership-tested symbol lists, stable name-blind ordering, inline-name threshold, bounded name copies.",
		ruleE9, ruleSymSort, ruleS9c, ruleF4, ruleBoundedCopy, ruleT8, ruleS15, ruleW3, ruleN5, ruleE1, ruleE1b, ruleC9cfg, ruleR9, ruleS9p)
	register("C10", "Decided: no post-init writes of package-level state, no map iteration / clock / random / environment / goroutines reachable from an assembly, truncating output, single image write. Third-party packages are trusted.",
		ruleE1, ruleE1b, ruleE1c, ruleE2, ruleE3, ruleE3s, ruleP6, ruleF2, ruleEmitLoop, ruleO19, ruleO19w)
	register("C11", "Decided: the EQU clause stores the evaluated body under the identifier's own text and emits nothing; handlers get evaluated operands; lookups are re-evaluated at the use site. Not decided: equivalence with textual inlining for bodies containing `$`.",
		ruleE10, ruleF3, ruleE3, ruleE3s, ruleO3, ruleR6, ruleT10k, ruleK6, ruleE10m, ruleE1, ruleE1b, ruleE1c, ruleO6, ruleN11s, ruleW11)
	register("C12", "Decided: layout attributes of the extracted grammar. Not decided: language equivalence under re-layout.",
		ruleT10Layout, ruleT10a, ruleL19, ruleT10k, ruleT10c)
	register("C13", "Decided for gosk's own code: explicit crash primitives reachable from the entry points and parser panic recovery; every constant and variable index, slice expression and forced type assertion; integer division; computed and input-sized make lengths; Must helpers; recursion through the EQU table; bracket nesting depth of the grammar. Not decided: nil dereferences, panics inside generated parsers and third-party modules, the complexity clause.",
		ruleE6, ruleD13, ruleX13, ruleM13, ruleR13, ruleI13, ruleA13, ruleV13, ruleE6m, ruleM13b, ruleG13, ruleL13, ruleK13, ruleP13r, ruleN13ok, ruleN13if, ruleN13c)
	register("C14", "Decided: emission-time context vs traversal-time writers, no package-level writes after init, append-only ocode list, unconditional forward emission loop.",
		ruleE5, ruleE1, ruleE1b, ruleE3, ruleE3s, ruleEmitLoop, ruleP7, ruleP8, ruleM17w, ruleE10, ruleL14r, ruleL14a, ruleO3)
	register("C15", "Decided: symbol keys are exact identifier text, tables are never iterated, symbol ordering ignores names.",
		ruleF5, ruleE2, ruleSymSort, ruleU7, ruleS15, ruleY16, ruleB15, ruleE10, ruleT10k, ruleN15, ruleN15b, ruleN15r, ruleN15g, ruleE1, ruleE1b, ruleE1c)
	register("C16", "Decided: the origin chain from ORG to every address computation.",
		ruleF6, ruleP5, ruleY16, ruleBranch, ruleSetters, ruleC2P, ruleP7, ruleW3, ruleN5, ruleO3, ruleW4o, ruleS3j, ruleS16l, ruleG16l)
	register("C17", "Decided: default modes, BITS table, mode configuration of every operand object, emission-time mode vs traversal-time writer (known finding).",
		ruleE5, ruleModeDefaults, ruleM17w, ruleV17, ruleO3, ruleC9cfg, ruleZ3c, ruleF8size, ruleP3, ruleBranch, ruleSetters, ruleE3, ruleA18, ruleT1e, ruleS17f)
	register("C18", "Decided: comparator orientation/order, sign-extendable set, canonical signed-8 tests, shared table query flags, hand-written short forms. Not decided: minimality for every operand combination.",
		ruleF8c, ruleF8irr, ruleF8a, ruleI1, ruleI1s, ruleT5, ruleK18, ruleA18, ruleT18acc, ruleT5u, ruleE1, ruleE1b, ruleE3, ruleE3s, ruleF1, ruleF8size, ruleF8q, ruleD2, ruleK18p, ruleT6, ruleZ18, ruleZ18b, ruleK18m)
	register("C19", "Decided: exit-code table, open flags, no failing exit after a successful write. Not decided: the Shift_JIS / UTF-8 decoding clause.",
		ruleT9, ruleP6, ruleO19, ruleL19, ruleL19s, ruleO19w)
}
