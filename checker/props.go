package main

func init() {
	register("C01", "Decided: register tables, no-operand opcode table, condition codes (T-rules); not decided: form selection on concrete operands.",
		ruleT1, ruleT2, ruleT3)
}
