package main

func init() {
	register("C01", "Decided: register tables, no-operand opcode table, condition codes (T-rules); not decided: form selection on concrete operands.",
		ruleT1, ruleT2, ruleT3, ruleT5, ruleF8size, ruleP3, ruleF1, ruleF7, ruleE5)
	register("C06", "", ruleT7, ruleT10Expr)
	register("C12", "", ruleT10Layout)
	register("C07", "", ruleT11, ruleE7, ruleP2, ruleP2g, ruleP2b, ruleP2c)
	register("C08", "", ruleT8, ruleP4)
	register("C09", "", ruleE9, ruleSymSort, ruleF4, ruleBoundedCopy)
	register("C10", "", ruleE1, ruleE2)
	register("C11", "", ruleE10, ruleF3)
	register("C13", "", ruleE6)
	register("C14", "", ruleE5, ruleE1, ruleEmitLoop)
	register("C15", "", ruleF5, ruleE2)
	register("C16", "", ruleF6, ruleP5)
	register("C17", "", ruleE5, ruleModeDefaults)
	register("C19", "", ruleT9, ruleP6)
}

func init() {
	register("C04", "", ruleT3, ruleBranch)
}

func init() {
	register("C05", "", ruleP7, ruleF2, ruleN5, ruleP2b)
}

func init() {
	register("C03", "", ruleP8, ruleS3, ruleF8size, ruleZ3, ruleP7, ruleF2, ruleN5, ruleP5)
}

func init() {
	register("C18", "", ruleF8c, ruleF8a, ruleI1, ruleT5)
}

func init() {
	register("C02", "", ruleT6, ruleQ2, ruleE8, ruleG2, ruleT1, ruleI1, ruleP3, ruleZ3)
}
