package main

func init() {
	register("C01", "Decided: register tables, no-operand opcode table, condition codes (T-rules); not decided: form selection on concrete operands.",
		ruleT1, ruleT2, ruleT3)
	register("C06", "", ruleT7, ruleT10Expr)
	register("C12", "", ruleT10Layout)
	register("C07", "", ruleT11, ruleE7)
	register("C08", "", ruleT8, ruleP4)
	register("C09", "", ruleE9)
	register("C10", "", ruleE1, ruleE2)
	register("C13", "", ruleE6)
	register("C19", "", ruleT9, ruleP6)
}
