package main

// Eighth strengthening round: rules that replace recognisers which had matched a seeded change
// only by its spelling.

import (
	"fmt"
	"go/constant"
	"go/token"
	"go/types"
	"os"
	"sort"
	"strings"

	"golang.org/x/tools/go/ssa"
)

// ---------------------------------------------------------------------------------------
// F8irr: the candidate comparators never prefer a over b when both have the same criteria
// ---------------------------------------------------------------------------------------

// congruence key of a value with the second comparator parameter renamed to the first: two
// values with the same key are equal whenever a == b. Negations are kept as a leading "!".
type congr struct {
	a, b *ssa.Parameter
	memo map[ssa.Value]string
}

func (g *congr) key(v ssa.Value, depth int) string {
	if k, ok := g.memo[v]; ok {
		return k
	}
	if depth > 12 {
		return fmt.Sprintf("deep:%p", v)
	}
	g.memo[v] = fmt.Sprintf("cyc:%p", v)
	k := g.compute(v, depth)
	g.memo[v] = k
	return k
}

// helperResult: call is g(…, x, …, y, …) of a repository function where the two arguments of the
// candidates' type are congruent; when every return of g that is reachable with those two
// parameters equal yields the same constant for result idx, that constant.
// helperReturns: the returns of a repository helper called with the two candidates, analysed
// with its two candidate parameters identified.
func (g *congr) helperReturns(call *ssa.Call, depth int) ([]retVerdict, bool) {
	callee := call.Call.StaticCallee()
	if callee == nil || call.Call.IsInvoke() || callee.Blocks == nil || !strings.Contains(funcName(callee), modPath) || congrDepth >= 2 {
		return nil, false
	}
	var pa, pb *ssa.Parameter
	for i, a := range call.Call.Args {
		if i < len(callee.Params) && g.key(a, depth+1) == "E" {
			if pa == nil {
				pa = callee.Params[i]
			} else if pb == nil {
				pb = callee.Params[i]
			}
		}
	}
	if pa == nil || pb == nil {
		return nil, false
	}
	congrDepth++
	rvs, _ := congruentReturns(callee, pa, pb)
	congrDepth--
	return rvs, true
}

func (g *congr) helperResult(call *ssa.Call, idx int, depth int) (string, bool) {
	callee := call.Call.StaticCallee()
	if callee == nil || call.Call.IsInvoke() || callee.Blocks == nil || !strings.Contains(funcName(callee), modPath) || congrDepth >= 2 {
		return "", false
	}
	// the two parameters bound to congruent arguments that are themselves the candidates (key "E")
	var pa, pb *ssa.Parameter
	for i, a := range call.Call.Args {
		if i < len(callee.Params) && g.key(a, depth+1) == "E" {
			if pa == nil {
				pa = callee.Params[i]
			} else if pb == nil {
				pb = callee.Params[i]
			}
		}
	}
	if pa == nil || pb == nil {
		return "", false
	}
	congrDepth++
	rvs, _ := congruentReturns(callee, pa, pb)
	congrDepth--
	val := ""
	for _, rv := range rvs {
		if rv.infeasible != "" || idx >= len(rv.keys) {
			continue
		}
		k := rv.keys[idx]
		if k != "const:true" && k != "const:false" {
			// a boolean the path itself has decided
			if why, isFalse := falseUnder(k, rv.facts); isFalse && why != "" {
				k = "const:false"
			} else {
				return "", false
			}
		}
		if val != "" && val != k {
			return "", false
		}
		val = k
	}
	if val == "" {
		return "", false
	}
	return val, true
}

// shortCircuit: the key of a two-edge phi that is the value of `X && Y` or `X || Y`.
func (g *congr) shortCircuit(p *ssa.Phi, depth int) (string, bool) {
	if len(p.Edges) != 2 || !isBoolType(p.Type()) {
		return "", false
	}
	J := p.Block()
	for ci := 0; ci < 2; ci++ {
		kc, ok := p.Edges[ci].(*ssa.Const)
		if !ok || kc.Value == nil || kc.Value.Kind() != constant.Bool {
			continue
		}
		cval := constant.BoolVal(kc.Value)
		d := J.Preds[ci] // the block that tested X and jumped straight to the join
		iff, ok := d.Instrs[len(d.Instrs)-1].(*ssa.If)
		if !ok {
			continue
		}
		si := -1
		for i, sc := range d.Succs {
			if sc == J {
				si = i
			}
		}
		if si < 0 || d.Succs[0] == d.Succs[1] {
			continue
		}
		kx := g.key(iff.Cond, depth+1)
		if si == 0 {
			// reached when X is true … the other operand is evaluated when X is false
			kx = negKey(kx)
		}
		// now: the constant arrives when kx is FALSE; Y is evaluated when kx is true
		ky := g.key(p.Edges[1-ci], depth+1)
		if !cval {
			return andKey(kx, ky), true // kx ? Y : false
		}
		return orKey(negKey(kx), ky), true // kx ? Y : true  ==  !kx || Y
	}
	return "", false
}

func andKey(a, b string) string {
	switch {
	case a == "const:false" || b == "const:false" || a == negKey(b):
		return "const:false"
	case a == "const:true":
		return b
	case b == "const:true" || a == b:
		return a
	}
	if b < a {
		a, b = b, a
	}
	return "and(" + a + "," + b + ")"
}

func orKey(a, b string) string {
	switch {
	case a == "const:true" || b == "const:true" || a == negKey(b):
		return "const:true"
	case a == "const:false":
		return b
	case b == "const:false" || a == b:
		return a
	}
	if b < a {
		a, b = b, a
	}
	return "or(" + a + "," + b + ")"
}

func negKey(k string) string {
	if k == "const:true" {
		return "const:false"
	}
	if k == "const:false" {
		return "const:true"
	}
	if strings.HasPrefix(k, "!") {
		return k[1:]
	}
	return "!" + k
}

func (g *congr) compute(v ssa.Value, depth int) string {
	switch x := v.(type) {
	case *ssa.Parameter:
		if x == g.a || x == g.b {
			return "E"
		}
		return "param:" + x.Name()
	case *ssa.Const:
		if x.Value == nil {
			return "nil"
		}
		return "const:" + x.Value.ExactString()
	case *ssa.FieldAddr:
		return g.key(x.X, depth+1) + ".&" + fieldName(x)
	case *ssa.Field:
		return fmt.Sprintf("%s.#%d", g.key(x.X, depth+1), x.Field)
	case *ssa.UnOp:
		switch x.Op {
		case token.NOT:
			return negKey(g.key(x.X, depth+1))
		case token.MUL:
			return "*" + g.key(x.X, depth+1)
		}
		return x.Op.String() + "(" + g.key(x.X, depth+1) + ")"
	case *ssa.BinOp:
		l, r := g.key(x.X, depth+1), g.key(x.Y, depth+1)
		switch x.Op {
		case token.EQL, token.NEQ:
			if r < l {
				l, r = r, l
			}
			k := "eql(" + l + "," + r + ")"
			if x.Op == token.NEQ {
				return "!" + k
			}
			return k
		case token.GTR: // x > y  ==  y < x
			return "lss(" + r + "," + l + ")"
		case token.LSS:
			return "lss(" + l + "," + r + ")"
		case token.GEQ: // x >= y == !(x < y)
			return "!lss(" + l + "," + r + ")"
		case token.LEQ: // x <= y == !(y < x)
			return "!lss(" + r + "," + l + ")"
		}
		return x.Op.String() + "(" + l + "," + r + ")"
	case *ssa.Convert:
		return g.key(x.X, depth+1)
	case *ssa.ChangeType:
		return g.key(x.X, depth+1)
	case *ssa.Extract:
		if call, ok := x.Tuple.(*ssa.Call); ok {
			if k, ok := g.helperResult(call, x.Index, depth); ok {
				return k
			}
			return fmt.Sprintf("%s#%d", g.key(call, depth+1), x.Index)
		}
	case *ssa.Call:
		if bi, ok := x.Call.Value.(*ssa.Builtin); ok && bi.Name() == "len" && len(x.Call.Args) == 1 {
			return "len(" + g.key(x.Call.Args[0], depth+1) + ")"
		}
		if k, ok := g.helperResult(x, 0, depth); ok && x.Call.Signature().Results().Len() == 1 {
			return k
		}
		if callee := x.Call.StaticCallee(); callee != nil && !x.Call.IsInvoke() {
			parts := []string{}
			for _, a := range x.Call.Args {
				parts = append(parts, g.key(a, depth+1))
			}
			return "call:" + funcName(callee) + "(" + strings.Join(parts, ",") + ")"
		}
		if x.Call.IsInvoke() {
			parts := []string{g.key(x.Call.Value, depth+1)}
			for _, a := range x.Call.Args {
				parts = append(parts, g.key(a, depth+1))
			}
			return "invoke:" + x.Call.Method.Name() + "(" + strings.Join(parts, ",") + ")"
		}
	case *ssa.Phi:
		// X && Y / X || Y: two edges, one a boolean constant arriving straight from the block that
		// tested X — simplified with the usual identities (K && !K is false, K || !K is true)
		if k, ok := g.shortCircuit(x, depth); ok {
			return k
		}
		// value of a short-circuit expression: the operands plus the condition that chose between them
		var parts []string
		for _, e := range x.Edges {
			parts = append(parts, g.key(e, depth+1))
		}
		sort.Strings(parts)
		ctl := ""
		if d := x.Block().Idom(); d != nil {
			if iff, ok := d.Instrs[len(d.Instrs)-1].(*ssa.If); ok {
				ctl = g.key(iff.Cond, depth+1)
			}
		}
		return "phi[" + ctl + "](" + strings.Join(parts, ",") + ")"
	}
	return fmt.Sprintf("opaque:%p", v)
}

// retVerdict: one return of a function analysed with two of its parameters identified.
type retVerdict struct {
	ret        *ssa.Return
	infeasible string   // non-empty: not reachable with the two parameters equal, and why
	keys       []string // congruence key of each result
	facts      map[string]bool
}

var congrDepth = 0

// congruentReturns analyses f with parameters pa and pb identified: for every return, whether
// it can be reached at all (its path conditions are consistent when pa == pb) and the
// congruence keys of its results.
func congruentReturns(f *ssa.Function, pa, pb *ssa.Parameter) ([]retVerdict, *congr) {
	g := &congr{a: pa, b: pb, memo: map[ssa.Value]string{}}
	var out []retVerdict
	for _, rb := range f.Blocks {
		ret, ok := rb.Instrs[len(rb.Instrs)-1].(*ssa.Return)
		if !ok {
			continue
		}
		rv := retVerdict{ret: ret, facts: map[string]bool{}}
		var addFactRec func(k string, truth bool)
		addFact := func(k string, truth bool) {
			if strings.HasPrefix(k, "!") {
				k, truth = k[1:], !truth
			}
			if k == "const:true" || k == "const:false" {
				if (k == "const:true") != truth {
					rv.infeasible = "a test whose outcome is fixed when the candidates are equal"
				}
				return
			}
			// and(a,b) true: both hold; or(a,b) false: neither holds
			if (strings.HasPrefix(k, "and(") && truth) || (strings.HasPrefix(k, "or(") && !truth) {
				inner := k[strings.Index(k, "(")+1 : len(k)-1]
				if l, r, ok := splitTop(inner); ok {
					addFactRec(l, truth)
					addFactRec(r, truth)
					return
				}
			}
			if old, has := rv.facts[k]; has && old != truth {
				rv.infeasible = "contradicting tests of " + k
			}
			rv.facts[k] = truth
			if strings.HasPrefix(k, "eql(") || strings.HasPrefix(k, "lss(") {
				if l, r, ok := splitTop(k[4 : len(k)-1]); ok && l == r {
					if (strings.HasPrefix(k, "eql(") && !truth) || (strings.HasPrefix(k, "lss(") && truth) {
						rv.infeasible = "a test that distinguishes the candidates (" + k + ")"
					}
				}
			}
		}
		addFactRec = addFact
		for _, b := range f.Blocks {
			iff, ok := b.Instrs[len(b.Instrs)-1].(*ssa.If)
			if !ok {
				continue
			}
			for i := 0; i < 2; i++ {
				if edgesDominate(f, []cfgEdge{{b, i}}, rb) && !edgesDominate(f, []cfgEdge{{b, 1 - i}}, rb) {
					addFact(g.key(iff.Cond, 0), i == 0)
				}
			}
		}
		for _, r := range ret.Results {
			rv.keys = append(rv.keys, g.key(r, 0))
		}
		out = append(out, rv)
	}
	return out, g
}

// falseUnder: the (boolean) result with key k is false given the facts of its path.
// evalKey evaluates a congruence key under the facts of a path: 1 true, 0 false, -1 unknown.
func evalKey(k string, facts map[string]bool, depth int) int {
	if depth > 10 {
		return -1
	}
	if strings.HasPrefix(k, "!") {
		switch evalKey(k[1:], facts, depth+1) {
		case 1:
			return 0
		case 0:
			return 1
		}
		return -1
	}
	switch k {
	case "const:true":
		return 1
	case "const:false":
		return 0
	}
	if t, has := facts[k]; has {
		if t {
			return 1
		}
		return 0
	}
	if strings.HasPrefix(k, "and(") || strings.HasPrefix(k, "or(") {
		isAnd := strings.HasPrefix(k, "and(")
		inner := k[strings.Index(k, "(")+1 : len(k)-1]
		if l, r, ok := splitTop(inner); ok {
			a, b := evalKey(l, facts, depth+1), evalKey(r, facts, depth+1)
			if isAnd {
				if a == 0 || b == 0 {
					return 0
				}
				if a == 1 && b == 1 {
					return 1
				}
			} else {
				if a == 1 || b == 1 {
					return 1
				}
				if a == 0 && b == 0 {
					return 0
				}
			}
		}
	}
	return -1
}

func falseUnder(k string, facts map[string]bool) (string, bool) {
	if evalKey(k, facts, 0) == 0 {
		return "returns a value that is false under the tests made on the way", true
	}
	truth := true
	if strings.HasPrefix(k, "!") {
		k, truth = k[1:], false
	}
	switch {
	case k == "const:false" && truth, k == "const:true" && !truth:
		return "returns false", true
	}
	if t, has := facts[k]; has && t != truth {
		return "returns a value the path has tested to be false", true
	}
	if strings.HasPrefix(k, "lss(") || strings.HasPrefix(k, "eql(") {
		if l, r, ok := splitTop(k[4 : len(k)-1]); ok && l == r {
			if (strings.HasPrefix(k, "lss(") && truth) || (strings.HasPrefix(k, "eql(") && !truth) {
				return "returns a strict comparison of the same criterion of both candidates", true
			}
		}
	}
	return "", false
}

func ruleF8irr(c *Ctx) {
	c.doc("F8irr", "the candidate comparators are irreflexive: with the two candidates equal in every criterion (the second parameter renamed to the first, helpers that take both candidates analysed the same way) every return yields false, so a tie keeps the earlier table row and never depends on which candidate happens to be called a. A `return true` guarded by a test of one candidate only is the typical violation")
	for _, fn := range []string{"findBestEncodingForSignExtendable", "findBestEncodingForNonSignExtendable"} {
		f := c.L.SSAFunc("pkg/asmdb", fn)
		if f == nil || len(f.Params) < 2 {
			c.anchorMissing("F8irr", "asmdb."+fn)
			continue
		}
		rvs, gg := congruentReturns(f, f.Params[0], f.Params[1])
		nret := 0
		for _, rv := range rvs {
			if len(rv.ret.Results) != 1 {
				continue
			}
			nret++
			key := fmt.Sprintf("%s|return#%d", fn, nret)
			pos := c.L.Pos(retPos(rv.ret))
			v := rv.ret.Results[0]
			if rv.infeasible != "" {
				c.ok("F8irr", key, pos, "not reachable with equal candidates: "+rv.infeasible)
				continue
			}
			if why, ok := falseUnder(rv.keys[0], rv.facts); ok {
				c.ok("F8irr", key, pos, why)
				continue
			}
			if isLoSwitchResult(v) {
				c.ok("F8irr", key, pos, "decided by a lo.Switch table: rows with equal flags are checked by rule F8c (preference rows)")
				continue
			}
			// `if less, decided := helper(a, b); decided { return less }`: among the helper's returns
			// that are reachable with equal candidates and agree with what the path has tested of
			// its other results, is the returned one always false?
			if ex, ok := v.(*ssa.Extract); ok {
				if call, ok := ex.Tuple.(*ssa.Call); ok {
					if hrs, ok := gg.helperReturns(call, 0); ok {
						callKey := gg.key(call, 0)
						allFalse, any := true, false
						for _, hr := range hrs {
							if hr.infeasible != "" || ex.Index >= len(hr.keys) {
								continue
							}
							consistent := true
							for j, kj := range hr.keys {
								if t, has := rv.facts[fmt.Sprintf("%s#%d", callKey, j)]; has {
									ev := evalKey(kj, hr.facts, 0)
									if (ev == 1 && !t) || (ev == 0 && t) {
										consistent = false
									}
								}
							}
							if !consistent {
								continue
							}
							any = true
							if _, isFalse := falseUnder(hr.keys[ex.Index], hr.facts); !isFalse && !isLoSwitchResult(hr.ret.Results[ex.Index]) {
								allFalse = false
							}
						}
						if any && allFalse {
							c.ok("F8irr", key, pos, "the helper's result is false on every return that is reachable with equal candidates and consistent with the path")
							continue
						}
						if !any {
							c.ok("F8irr", key, pos, "not reachable with equal candidates: no return of the helper agrees with the tests made on its results")
							continue
						}
					}
				}
			}
			c.fail("F8irr", key, pos, fmt.Sprintf("%s can return true for two candidates that agree in every criterion (returned value: %s; tests on the way: %s): the choice then depends on the order of the table rows, not on the ranking", fn, valueText(v), factText(rv.facts)))
		}
		c.check(nret >= 3, "F8irr", fn+"|returns found", c.L.Pos(f.Pos()), fmt.Sprintf("%d", nret))
	}
	c.floor("F8irr", 10)
}

// splitTop splits "l,r" at the comma that is not nested in parentheses or brackets.
func splitTop(s string) (string, string, bool) {
	depth := 0
	for i, r := range s {
		switch r {
		case '(', '[':
			depth++
		case ')', ']':
			depth--
		case ',':
			if depth == 0 {
				return s[:i], s[i+1:], true
			}
		}
	}
	return "", "", false
}

// isLoSwitchResult: v is *p where p is the result of a lo.Switch(...).Case(...)….Default(...) chain.
func isLoSwitchResult(v ssa.Value) bool {
	load, ok := v.(*ssa.UnOp)
	if !ok || load.Op != token.MUL {
		return false
	}
	call, ok := load.X.(*ssa.Call)
	if !ok {
		return false
	}
	callee := call.Call.StaticCallee()
	if callee != nil && strings.Contains(funcName(callee), "samber/lo") && strings.Contains(funcName(callee), "Default") {
		return true
	}
	// a helper of the repository that hands back such a table result
	if rs := helperResults(call); len(rs) > 0 {
		for _, r := range rs {
			rc, ok := r.(*ssa.Call)
			if !ok {
				return false
			}
			rcallee := rc.Call.StaticCallee()
			if rcallee == nil || !strings.Contains(funcName(rcallee), "samber/lo") || !strings.Contains(funcName(rcallee), "Default") {
				return false
			}
		}
		return true
	}
	return false
}

func valueText(v ssa.Value) string {
	if k, ok := v.(*ssa.Const); ok {
		return k.String()
	}
	if in, ok := v.(ssa.Instruction); ok {
		return v.Name() + " = " + in.String()
	}
	return v.Name()
}

func factText(facts map[string]bool) string {
	var ks []string
	for k, t := range facts {
		s := k
		if len(s) > 60 {
			s = s[:60] + "…"
		}
		ks = append(ks, fmt.Sprintf("%s=%v", s, t))
	}
	sort.Strings(ks)
	if len(ks) > 4 {
		ks = ks[:4]
	}
	return strings.Join(ks, "; ")
}

// ---------------------------------------------------------------------------------------
// N15g: only text the grammar matched as a register is classified as one
// ---------------------------------------------------------------------------------------

func ruleN15g(c *Ctx) {
	c.doc("N15g", "getRegisterType classifies a word by spelling (it upper-cases it and falls back on prefixes: K*, MM*, XMM*, BND* …), which is right only for text the operand grammar has already matched as a register: it is called from the generated grammar actions, or on the Register field of a parsed operand, and nowhere else — called on raw operand text it turns labels such as kmsg, mmio_base or a lower-case ax into registers")
	target := c.L.SSAFunc("pkg/ng_operand", "getRegisterType")
	if target == nil {
		c.anchorMissing("N15g", "pkg/ng_operand.getRegisterType")
		return
	}
	n := 0
	for _, g := range c.L.RepoFuncs() {
		if pkgRel(g) == "test" {
			continue
		}
		per := 0
		for _, b := range g.Blocks {
			for _, in := range b.Instrs {
				for _, op := range in.Operands(nil) {
					if op == nil || *op != ssa.Value(target) {
						continue
					}
					n++
					per++
					key := fmt.Sprintf("%s|use of getRegisterType#%d", shortName(g), per)
					pos := c.L.Pos(instrPos(in))
					call, isCall := in.(*ssa.Call)
					switch {
					case !isCall || call.Call.StaticCallee() != target:
						c.fail("N15g", key, pos, "getRegisterType is used as a value: its callers can no longer be enumerated")
					case c.isGeneratedFn(g):
						c.ok("N15g", key, pos, "called from a grammar action on the text the Register rule matched")
					case isFieldLoad(call.Call.Args[0], "Register"):
						c.ok("N15g", key, pos, "called on the Register field of a parsed operand")
					default:
						c.fail("N15g", key, pos, shortName(g)+" classifies text that did not come out of the grammar's Register rule with getRegisterType: its prefix fallbacks (K*, MM*, XMM*, BND*) and its upper-casing turn ordinary label names into registers")
					}
				}
			}
		}
	}
	c.check(n >= 1, "N15g", "uses of getRegisterType found", "", fmt.Sprintf("%d", n))
}

// ---------------------------------------------------------------------------------------
// O6: no operator is dropped by the partial evaluators
// ---------------------------------------------------------------------------------------

func ruleO6(c *Ctx) {
	c.doc("O6", "in AddExp.Eval and MultExp.Eval every round of a loop over the operator list looks at the operator it has fetched on every path to the next round (compares it to choose the arithmetic, or stores it into the rebuilt operator list): a path that keeps the term without looking at its operator has dropped a sign — `10 - A` rebuilt as `A + 10`")
	total := 0
	for _, fn := range []string{"(*AddExp).Eval", "(*MultExp).Eval"} {
		f := c.L.SSAFunc("internal/ast", fn)
		if f == nil {
			c.anchorMissing("O6", "internal/ast."+fn)
			continue
		}
		n := 0
		for _, b := range f.Blocks {
			for idx, in := range b.Instrs {
				ld, ok := in.(*ssa.UnOp)
				if !ok || ld.Op != token.MUL {
					continue
				}
				ia, ok := ld.X.(*ssa.IndexAddr)
				if !ok || !isFieldLoad(ia.X, "Operators") {
					continue
				}
				// the loop: the innermost header that dominates this block and is reached back from it
				header := loopHeaderOf(b)
				if header == nil {
					continue
				}
				n++
				total++
				key := fmt.Sprintf("%s|operator fetched in loop#%d", fn, n)
				uses := map[*ssa.BasicBlock]bool{}
				usedHere := false
				if ld.Referrers() != nil {
					for _, r := range *ld.Referrers() {
						if _, isDbg := r.(*ssa.DebugRef); isDbg {
							continue
						}
						if r.Block() == b {
							for j := idx + 1; j < len(b.Instrs); j++ {
								if b.Instrs[j] == r {
									usedHere = true
								}
							}
							if _, isPhi := r.(*ssa.Phi); isPhi {
								continue
							}
						}
						uses[r.Block()] = true
					}
				}
				if usedHere {
					c.ok("O6", key, c.L.Pos(instrPos(in)), "the operator is looked at right where it is fetched")
					continue
				}
				// can the next round be reached from here without passing a block that uses the operator?
				seen := map[*ssa.BasicBlock]bool{}
				var path []*ssa.BasicBlock
				var found []*ssa.BasicBlock
				type visit struct{ x, from *ssa.BasicBlock }
				seenV := map[visit]bool{}
				var dfs func(x, from *ssa.BasicBlock) bool
				dfs = func(x, from *ssa.BasicBlock) bool {
					if x == header {
						found = append([]*ssa.BasicBlock{}, path...)
						return true
					}
					if seenV[visit{x, from}] || (uses[x] && x != b) || !header.Dominates(x) {
						return false
					}
					seenV[visit{x, from}] = true
					_ = seen
					path = append(path, x)
					// the value of `p && q` reached straight from the test of p is the constant false:
					// only the matching successor can be taken
					only := -1
					if iff, ok := x.Instrs[len(x.Instrs)-1].(*ssa.If); ok && from != nil {
						if ph, ok := iff.Cond.(*ssa.Phi); ok && ph.Block() == x {
							for i, pr := range x.Preds {
								if pr == from && i < len(ph.Edges) {
									if k, ok := ph.Edges[i].(*ssa.Const); ok && k.Value != nil && k.Value.Kind() == constant.Bool {
										if constant.BoolVal(k.Value) {
											only = 0
										} else {
											only = 1
										}
									}
								}
							}
						}
					}
					for i, s := range x.Succs {
						if only >= 0 && i != only {
							continue
						}
						if dfs(s, x) {
							return true
						}
					}
					path = path[:len(path)-1]
					return false
				}
				if dfs(b, nil) {
					where := ""
					if len(found) > 0 {
						last := found[len(found)-1]
						for _, li := range last.Instrs {
							if p := instrPos(li); p.IsValid() {
								where = c.L.Pos(p)
							}
						}
					}
					if os.Getenv("GOSKVET_DEBUG") != "" {
						for _, pb := range found {
							fmt.Fprintf(os.Stderr, "O6 path block %d (%s) uses=%v\n", pb.Index, pb.Comment, uses[pb])
						}
					}
					c.fail("O6", key, c.L.Pos(instrPos(in)), fmt.Sprintf("%s can go on to the next term without having looked at the operator it fetched (path ends near %s): the term is kept and its sign is lost", fn, where))
				} else {
					c.ok("O6", key, c.L.Pos(instrPos(in)), "every path to the next round compares or stores the operator")
				}
			}
		}
		// O6b: a comparison with an operator string that selects the arithmetic looks at the
		// operator as fetched, not at a value some helper made of it
		nc := 0
		for _, b := range f.Blocks {
			for _, in := range b.Instrs {
				bo, ok := in.(*ssa.BinOp)
				if !ok || (bo.Op != token.EQL && bo.Op != token.NEQ) {
					continue
				}
				for _, pair := range [][2]ssa.Value{{bo.X, bo.Y}, {bo.Y, bo.X}} {
					k, ok := pair[1].(*ssa.Const)
					if !ok || k.Value == nil || k.Value.Kind() != constant.String {
						continue
					}
					if s := constant.StringVal(k.Value); s != "+" && s != "-" && s != "*" && s != "/" && s != "%" {
						continue
					}
					nc++
					fetched := false
					if ld, ok := pair[0].(*ssa.UnOp); ok && ld.Op == token.MUL {
						if ia, ok := ld.X.(*ssa.IndexAddr); ok && (isFieldLoad(ia.X, "Operators") || true) {
							_ = ia
							fetched = true
						}
					}
					if _, ok := pair[0].(*ssa.Extract); ok {
						// range over a slice yields the element through next/extract for strings only; for a
						// slice the element is loaded — an extract here is the result of a call
						fetched = false
					}
					c.check(fetched, "O6", fmt.Sprintf("%s|operator test#%d reads the fetched operator", fn, nc), c.L.Pos(instrPos(in)), "the value compared with an operator string is "+valueText(pair[0])+", not the element of the operator list: a helper that rewrites the operator (e.g. from the sign of the operand) changes which arithmetic is applied")
				}
			}
		}
		c.check(n >= 1, "O6", fn+"|operator loops found", c.L.Pos(f.Pos()), fmt.Sprintf("%d", n))
	}
	c.analysed["O6_operator_fetches"] = total
}

// loopHeaderOf: the closest block that dominates b and has a predecessor it dominates which is
// reachable from b (a natural-loop header around b); nil when b is in no loop.
func loopHeaderOf(b *ssa.BasicBlock) *ssa.BasicBlock {
	for h := b; h != nil; h = h.Idom() {
		for _, p := range h.Preds {
			if h.Dominates(p) && reaches(b, p, h) {
				return h
			}
		}
	}
	return nil
}

// reaches: to is reachable from from without passing through stop (from == to counts).
func reaches(from, to, stop *ssa.BasicBlock) bool {
	seen := map[*ssa.BasicBlock]bool{}
	var dfs func(x *ssa.BasicBlock) bool
	dfs = func(x *ssa.BasicBlock) bool {
		if x == to {
			return true
		}
		if seen[x] {
			return false
		}
		seen[x] = true
		for _, s := range x.Succs {
			if s == stop {
				continue
			}
			if dfs(s) {
				return true
			}
		}
		return false
	}
	return dfs(from)
}

// ---------------------------------------------------------------------------------------
// U8p: bit-pattern operands are parsed over their whole unsigned range
// ---------------------------------------------------------------------------------------

func ruleU8p(c *Ctx) {
	c.doc("U8p", "the interrupt vector of INT (CD ib) and the selector and offset of a far jump (EA cd cw) are bit patterns of 8, 16 and 32 bits: the text pass 1 hands over is parsed with a range that includes the whole unsigned range of that width — strconv.ParseUint of at least the width, or ParseInt of a larger width — otherwise INT 0x80 or a selector ≥ 0x8000 is refused and the statement, already counted by pass 1, is not emitted")
	n := 0
	for _, fn := range []string{"handleINT", "handleJcc"} {
		f := c.L.SSAFunc("internal/codegen", fn)
		if f == nil {
			c.anchorMissing("U8p", "internal/codegen."+fn)
			continue
		}
		paths, ok := enumPaths(f, 5000)
		if !ok {
			c.fail("U8p", fn+"|path enumeration", c.L.Pos(f.Pos()), "undecided: too many paths")
			continue
		}
		done := map[string]bool{}
		for i := range paths {
			p := paths[i]
			if len(p.Ret.Results) != 2 || p.contradictsConstGuard() {
				continue
			}
			if e, ok := p.Ret.Results[1].(*ssa.Const); !ok || !e.IsNil() {
				continue
			}
			for _, sp := range shapesWithHelpers(p, p.Ret.Results[0], 2) {
				sh := sp.Shape
				if len(sh) > 0 && sh[0].Kind == bConst && sh[0].C == 0x66 {
					sh = sh[1:]
				}
				if len(sh) < 2 || sh[0].Kind != bConst || (sh[0].C != 0xCD && sh[0].C != 0xEA) {
					continue
				}
				for _, run := range fieldRuns(sh) {
					call := parseCallOf(run.V)
					key := fmt.Sprintf("%s|%02X field@%d (%d bits)", fn, sh[0].C, run.Start, run.Width*8)
					if done[key] {
						continue
					}
					done[key] = true
					n++
					if call == nil {
						c.fail("U8p", key, c.L.Pos(retPos(p.Ret)), "undecided: the field is not the result of a strconv parse")
						continue
					}
					name := calleeName(&call.Call)
					w := int64(-1)
					if k, ok := call.Call.Args[2].(*ssa.Const); ok {
						w = k.Int64()
						if w == 0 {
							w = 64
						}
					}
					need := int64(run.Width * 8)
					good := (name == "strconv.ParseUint" && w >= need) || (name == "strconv.ParseInt" && w > need)
					c.check(good, "U8p", key, c.L.Pos(instrPos(call)), fmt.Sprintf("the %d-bit field is parsed with %s(…, %d): values from %d to %d are refused although they are legal for this operand", need, name, w, int64(1)<<(need-1), (int64(1)<<need)-1))
				}
			}
		}
	}
	c.check(n >= 3, "U8p", "bit-pattern fields found", "", fmt.Sprintf("%d", n))
}

// parseCallOf: v is (a conversion of) the value result of strconv.ParseInt / ParseUint.
func parseCallOf(v ssa.Value) *ssa.Call {
	for i := 0; i < 6; i++ {
		switch x := v.(type) {
		case *ssa.Convert:
			v = x.X
		case *ssa.Extract:
			if call, ok := x.Tuple.(*ssa.Call); ok && x.Index == 0 {
				n := calleeName(&call.Call)
				if n == "strconv.ParseInt" || n == "strconv.ParseUint" {
					return call
				}
			}
			return nil
		default:
			return nil
		}
	}
	return nil
}

// ---------------------------------------------------------------------------------------
// S3f: the pass-1 size of a far jump is one of the lengths the emitter writes
// ---------------------------------------------------------------------------------------

// intSet evaluates an integer SSA value built from constants, phis, +/- and conversions to
// the set of values it can take; nil when something else is involved.
func intSet(v ssa.Value, depth int, seen map[ssa.Value]bool) map[int64]bool {
	if depth > 8 || seen[v] {
		return nil
	}
	switch x := v.(type) {
	case *ssa.Const:
		if isIntConst(x) {
			return map[int64]bool{x.Int64(): true}
		}
	case *ssa.Convert:
		return intSet(x.X, depth+1, seen)
	case *ssa.Phi:
		seen[v] = true
		out := map[int64]bool{}
		for _, e := range x.Edges {
			s := intSet(e, depth+1, seen)
			if s == nil {
				return nil
			}
			for k := range s {
				out[k] = true
			}
		}
		delete(seen, v)
		return out
	case *ssa.BinOp:
		if x.Op == token.ADD || x.Op == token.SUB {
			a, b := intSet(x.X, depth+1, seen), intSet(x.Y, depth+1, seen)
			if a == nil || b == nil {
				return nil
			}
			out := map[int64]bool{}
			for i := range a {
				for j := range b {
					if x.Op == token.ADD {
						out[i+j] = true
					} else {
						out[i-j] = true
					}
				}
			}
			return out
		}
	}
	return nil
}

func ruleS3f(c *Ctx) {
	c.doc("S3f", "every size pass 1 can assign to a far jump (JMP seg:off) is a length the emitter can write for the far form (EA + offset + selector, with or without 66h): a size the emitter never produces moves every later label")
	// emitter side
	emit := map[int64]bool{}
	if f := c.L.SSAFunc("internal/codegen", "handleJcc"); f == nil {
		c.anchorMissing("S3f", "internal/codegen.handleJcc")
		return
	} else if paths, ok := enumPaths(f, 5000); ok {
		for i := range paths {
			p := paths[i]
			if len(p.Ret.Results) != 2 || p.contradictsConstGuard() {
				continue
			}
			if e, ok := p.Ret.Results[1].(*ssa.Const); !ok || !e.IsNil() {
				continue
			}
			for _, sp := range shapesWithHelpers(p, p.Ret.Results[0], 2) {
				sh := sp.Shape
				body := sh
				if len(body) > 0 && body[0].Kind == bConst && body[0].C == 0x66 {
					body = body[1:]
				}
				if len(body) > 0 && body[0].Kind == bConst && body[0].C == 0xEA && sh.length() > 0 {
					emit[int64(sh.length())] = true
				}
			}
		}
	}
	var el []int64
	for k := range emit {
		el = append(el, k)
	}
	sort.Slice(el, func(i, j int) bool { return el[i] < el[j] })
	c.check(len(el) >= 1, "S3f", "handleJcc|far forms found", "", fmt.Sprint(el))
	// pass-1 side: what is added to LOC on the SegmentExp branch
	f := c.L.SSAFunc("internal/pass1", "processCalcJcc")
	if f == nil {
		c.anchorMissing("S3f", "internal/pass1.processCalcJcc")
		return
	}
	// blocks that are only reached when the operand is a *ast.SegmentExp
	var far []*ssa.BasicBlock
	for _, b := range f.Blocks {
		for _, in := range b.Instrs {
			ta, ok := in.(*ssa.TypeAssert)
			if !ok || !ta.CommaOk || !strings.HasSuffix(ta.AssertedType.String(), "ast.SegmentExp") {
				continue
			}
			for _, r := range *ta.Referrers() {
				if ex, ok := r.(*ssa.Extract); ok && ex.Index == 1 && ex.Referrers() != nil {
					for _, r2 := range *ex.Referrers() {
						if iff, ok := r2.(*ssa.If); ok {
							far = append(far, iff.Block().Succs[0])
						}
					}
				}
			}
		}
	}
	if len(far) == 0 {
		c.anchorMissing("S3f", "processCalcJcc: case *ast.SegmentExp")
		return
	}
	inFar := func(b *ssa.BasicBlock) bool {
		for _, fb := range far {
			if fb.Dominates(b) {
				return true
			}
		}
		return false
	}
	sizes := map[int64]bool{}
	undecided := ""
	var collect func(v ssa.Value, depth int)
	collect = func(v ssa.Value, depth int) {
		if depth > 6 {
			return
		}
		if s := intSet(v, 0, map[ssa.Value]bool{}); s != nil {
			for k := range s {
				sizes[k] = true
			}
			return
		}
		// a helper that returns the size: its returns in that position
		if rs := helperResults(v); len(rs) > 0 {
			for _, r := range rs {
				collect(r, depth+1)
			}
			return
		}
		// est := helper(…); est.size — a struct result: the value stored into that field of each
		// struct the helper returns
		fieldOfCall := func(call *ssa.Call, field int) bool {
			rs := helperResults(call)
			if len(rs) == 0 {
				return false
			}
			for _, r := range rs {
				ld, ok := r.(*ssa.UnOp)
				if !ok || ld.Op != token.MUL {
					return false
				}
				al, ok := ld.X.(*ssa.Alloc)
				if !ok || al.Referrers() == nil {
					return false
				}
				found := false
				for _, ref := range *al.Referrers() {
					fa, ok := ref.(*ssa.FieldAddr)
					if !ok || fa.Field != field || fa.Referrers() == nil {
						continue
					}
					for _, r2 := range *fa.Referrers() {
						if st, ok := r2.(*ssa.Store); ok && st.Addr == ssa.Value(fa) {
							collect(st.Val, depth+1)
							found = true
						}
					}
				}
				if !found {
					return false
				}
			}
			return true
		}
		if fl, ok := v.(*ssa.Field); ok {
			if call, ok := fl.X.(*ssa.Call); ok && fieldOfCall(call, fl.Field) {
				return
			}
		}
		if ld, ok := v.(*ssa.UnOp); ok && ld.Op == token.MUL {
			if fa, ok := ld.X.(*ssa.FieldAddr); ok {
				if al, ok := fa.X.(*ssa.Alloc); ok && al.Referrers() != nil {
					for _, ref := range *al.Referrers() {
						if st, ok := ref.(*ssa.Store); ok && st.Addr == ssa.Value(al) {
							if call, ok := st.Val.(*ssa.Call); ok && fieldOfCall(call, fa.Field) {
								return
							}
						}
					}
				}
			}
		}
		undecided = valueText(v)
	}
	type locAdd struct {
		add ssa.Value
		blk *ssa.BasicBlock
	}
	var adds []locAdd
	for _, st := range storesToField(f, "internal/pass1", "Pass1", "LOC") {
		if bo, ok := st.Val.(*ssa.BinOp); ok && bo.Op == token.ADD {
			adds = append(adds, locAdd{bo.Y, st.Block()})
		}
	}
	// LOC advanced by a helper that is given the size: the argument at each call in this function
	if len(adds) == 0 {
		for _, h := range unitOf(f, 2) {
			if h == f {
				continue
			}
			for _, st := range storesToField(h, "internal/pass1", "Pass1", "LOC") {
				bo, ok := st.Val.(*ssa.BinOp)
				if !ok || bo.Op != token.ADD {
					continue
				}
				// the added value is (a join of constants and) a parameter of the helper
				var prm *ssa.Parameter
				var find func(v ssa.Value, d int)
				find = func(v ssa.Value, d int) {
					if d > 4 {
						return
					}
					switch x := v.(type) {
					case *ssa.Parameter:
						prm = x
					case *ssa.Phi:
						for _, e := range x.Edges {
							find(e, d+1)
						}
					}
				}
				find(bo.Y, 0)
				if prm == nil {
					continue
				}
				pi := -1
				for i, pp := range h.Params {
					if pp == prm {
						pi = i
					}
				}
				callsIn(f, func(ci ssa.CallInstruction) {
					if ci.Common().StaticCallee() == h && pi >= 0 && pi < len(ci.Common().Args) {
						adds = append(adds, locAdd{ci.Common().Args[pi], ci.Block()})
					}
				})
			}
		}
	}
	for _, la := range adds {
		add := la.add
		st := struct{ blk *ssa.BasicBlock }{la.blk}
		// the value is a join of the sizes chosen in the clauses; follow the joins and keep the
		// values that arrive from a block of the far clause
		seenPhi := map[*ssa.Phi]bool{}
		var walkPhi func(ph *ssa.Phi)
		walkPhi = func(ph *ssa.Phi) {
			if seenPhi[ph] {
				return
			}
			seenPhi[ph] = true
			for i, e := range ph.Edges {
				if i >= len(ph.Block().Preds) {
					continue
				}
				if inFar(ph.Block().Preds[i]) {
					collect(e, 0)
				} else if inner, ok := e.(*ssa.Phi); ok {
					walkPhi(inner)
				}
			}
		}
		if ph, ok := add.(*ssa.Phi); ok {
			walkPhi(ph)
		} else if inFar(st.blk) {
			collect(add, 0)
		}
	}
	if undecided != "" {
		c.fail("S3f", "processCalcJcc|far size", c.L.Pos(f.Pos()), "undecided: the size added for a far jump is not a constant expression: "+undecided)
		return
	}
	var sl []int64
	for k := range sizes {
		sl = append(sl, k)
	}
	sort.Slice(sl, func(i, j int) bool { return sl[i] < sl[j] })
	c.check(len(sl) >= 1, "S3f", "processCalcJcc|far sizes found", c.L.Pos(f.Pos()), fmt.Sprint(sl))
	for _, k := range sl {
		c.check(emit[k], "S3f", fmt.Sprintf("processCalcJcc|far jump sized %d", k), c.L.Pos(f.Pos()), fmt.Sprintf("pass 1 can count %d bytes for a far jump; the emitter writes %v bytes for the far form and nothing else", k, el))
	}
}

// ---------------------------------------------------------------------------------------
// G6p: parentheses hand back exactly what they enclose; O6b: the operator compared is the one fetched
// ---------------------------------------------------------------------------------------

func ruleG6p(c *Ctx) {
	c.doc("G6p", "the grammar action of a parenthesised sub-expression ('(' … e:AddExp … ')') returns the value of e itself: an action that returns a part of e (its first factor, its head) silently drops the rest of what was written between the parentheses")
	g := mainGrammar(c)
	if len(g.Errs) > 0 {
		c.anchorMissing("G6p", fmt.Sprint(g.Errs))
		return
	}
	n := 0
	for _, name := range g.Order {
		r := g.Rules[name]
		// rule → action → seq starting with "(" and ending with ")"
		var act *pegNode
		var walk func(x *pegNode)
		walk = func(x *pegNode) {
			if x == nil || act != nil {
				return
			}
			if x.Kind == "action" && len(x.Kids) == 1 && x.Kids[0] != nil && x.Kids[0].Kind == "seq" {
				ks := x.Kids[0].Kids
				if len(ks) >= 3 && ks[0].Kind == "lit" && ks[0].Val == "(" && ks[len(ks)-1].Kind == "lit" && ks[len(ks)-1].Val == ")" {
					act = x
					return
				}
			}
			for _, k := range x.Kids {
				walk(k)
			}
		}
		walk(r)
		if act == nil || !strings.HasPrefix(act.Name, "callon") {
			continue
		}
		fn := c.L.SSAFunc("internal/gen", "(*current).on"+strings.TrimPrefix(act.Name, "callon"))
		if fn == nil {
			c.anchorMissing("G6p", "internal/gen.(*current).on"+strings.TrimPrefix(act.Name, "callon"))
			continue
		}
		for _, b := range fn.Blocks {
			ret, ok := b.Instrs[len(b.Instrs)-1].(*ssa.Return)
			if !ok || len(ret.Results) == 0 {
				continue
			}
			n++
			v := ret.Results[0]
			for i := 0; i < 4; i++ {
				switch x := v.(type) {
				case *ssa.MakeInterface:
					v = x.X
					continue
				case *ssa.ChangeInterface:
					v = x.X
					continue
				case *ssa.TypeAssert:
					v = x.X
					continue
				}
				break
			}
			_, isParam := v.(*ssa.Parameter)
			if k, isK := v.(*ssa.Const); isK && k.IsNil() {
				isParam = true // the error return
			}
			c.check(isParam && v != ssa.Value(fn.Params[0]), "G6p", fmt.Sprintf("%s|return#%d", name, n), c.L.Pos(retPos(ret)), "the action of the parenthesis rule "+name+" returns "+valueText(ret.Results[0])+" instead of the enclosed expression itself: what else stood between the parentheses is dropped")
		}
	}
	c.check(n >= 1, "G6p", "parenthesis rules found", "", fmt.Sprintf("%d returns", n))
}

// ---------------------------------------------------------------------------------------
// H7k: handlers are looked up under the mnemonic as written; S9p: symbol entries are not patched
// ---------------------------------------------------------------------------------------

func ruleH7k(c *Ctx) {
	c.doc("H7k", "the pass-1 handler map is consulted with the mnemonic exactly as the parser delivered it: no lookup under a shortened, trimmed or re-cased spelling — a fallback to `the mnemonic without its last letter` turns PUSHD into PUSH and SHLD AX,3 into SHL AX,3 without a diagnostic")
	p1 := c.L.Pkg("internal/pass1")
	if p1 == nil {
		c.anchorMissing("H7k", "internal/pass1")
		return
	}
	hm := interpretHandlers(p1)
	if hm.Var == nil {
		c.anchorMissing("H7k", "pass1 handler map")
		return
	}
	n := 0
	for _, f := range c.L.RepoFuncs() {
		if pkgRel(f) != "internal/pass1" {
			continue
		}
		per := 0
		for _, b := range f.Blocks {
			for _, in := range b.Instrs {
				lk, ok := in.(*ssa.Lookup)
				if !ok {
					continue
				}
				ld, ok := lk.X.(*ssa.UnOp)
				if !ok || ld.Op != token.MUL {
					continue
				}
				gl, ok := ld.X.(*ssa.Global)
				if !ok || gl.Object() != types.Object(hm.Var) {
					continue
				}
				n++
				per++
				bad := keyTransforms(lk.Index)
				// a substring of the mnemonic
				seen := map[ssa.Value]bool{}
				var walk func(v ssa.Value, d int)
				walk = func(v ssa.Value, d int) {
					if d > 6 || seen[v] {
						return
					}
					seen[v] = true
					switch x := v.(type) {
					case *ssa.Slice:
						bad = append(bad, "a substring")
					case *ssa.Phi:
						for _, e := range x.Edges {
							walk(e, d+1)
						}
					case *ssa.BinOp:
						if x.Op == token.ADD {
							bad = append(bad, "a concatenation")
						}
					}
				}
				walk(lk.Index, 0)
				c.check(len(bad) == 0, "H7k", fmt.Sprintf("%s|handler lookup#%d", shortName(f), per), c.L.Pos(instrPos(in)), fmt.Sprintf("the handler map is consulted with %v of the mnemonic: a different instruction's handler assembles this statement", bad))
			}
		}
	}
	c.check(n >= 1, "H7k", "handler lookups found", "", fmt.Sprintf("%d", n))
}

func ruleS9p(c *Ctx) {
	c.doc("S9p", "a COFF symbol entry is complete when it is appended to the entry list: no field of an element of that list is assigned afterwards (by index), so that sorting the list cannot separate a name from its value, section or aux record")
	f := c.L.SSAFunc("internal/filefmt", "(*CoffFormat).generateSymbolEntries")
	if f == nil {
		c.anchorMissing("S9p", "filefmt.(*CoffFormat).generateSymbolEntries")
		return
	}
	n := 0
	for _, g := range unitOf(f, 2) {
		for _, b := range g.Blocks {
			for _, in := range b.Instrs {
				st, ok := in.(*ssa.Store)
				if !ok {
					continue
				}
				// the address is a field (of a field …) of an indexed element of a []SymbolEntry
				a := st.Addr
				depth := 0
				for {
					fa, ok := a.(*ssa.FieldAddr)
					if !ok {
						break
					}
					a = fa.X
					depth++
				}
				ia, ok := a.(*ssa.IndexAddr)
				if !ok {
					continue
				}
				sl, ok := ia.X.Type().Underlying().(*types.Slice)
				if !ok {
					continue
				}
				if nm, _ := namedOf(sl.Elem()); nm != "SymbolEntry" {
					continue
				}
				// element stores of an append are lowered into fresh backing arrays, not into the list
				if _, fresh := ia.X.(*ssa.Slice); fresh {
					if al, ok := ia.X.(*ssa.Slice).X.(*ssa.Alloc); ok && al.Heap {
						continue
					}
				}
				n++
				c.fail("S9p", fmt.Sprintf("%s|entry patched by index#%d", shortName(g), n), c.L.Pos(instrPos(in)), "a field of an element of the symbol entry list is assigned after the entry was built: once the list is sorted the index no longer denotes the entry the value belongs to")
			}
		}
	}
	c.ok("S9p", "generateSymbolEntries|no entry is patched after it was appended", c.L.Pos(f.Pos()), fmt.Sprintf("%d stores into elements", n))
}

// ---------------------------------------------------------------------------------------
// N13ok: a (pointer, ok) result is used only where ok (or pointer != nil) has been established
// ---------------------------------------------------------------------------------------

// impliesPresent: leaving the block through successor idx of a branch on cond implies that okv
// is true or ptr is not nil.
func impliesPresent(cond ssa.Value, idx int, okv, ptr ssa.Value, depth int) bool {
	if depth > 6 || cond == nil {
		return false
	}
	if okv != nil && cond == okv {
		return idx == 0
	}
	switch x := cond.(type) {
	case *ssa.UnOp:
		if x.Op == token.NOT {
			return impliesPresent(x.X, 1-idx, okv, ptr, depth+1)
		}
	case *ssa.BinOp:
		isNil := func(v ssa.Value) bool { k, ok := v.(*ssa.Const); return ok && k.IsNil() }
		if (x.X == ptr && isNil(x.Y)) || (x.Y == ptr && isNil(x.X)) {
			if x.Op == token.NEQ {
				return idx == 0
			}
			if x.Op == token.EQL {
				return idx == 1
			}
		}
	case *ssa.Phi:
		// a && b true ⇒ both true;  a || b false ⇒ both false
		allFalse, allTrue := true, true
		var rest []ssa.Value
		for _, e := range x.Edges {
			if k, ok := e.(*ssa.Const); ok && k.Value != nil && k.Value.Kind() == constant.Bool {
				if constant.BoolVal(k.Value) {
					allFalse = false
				} else {
					allTrue = false
				}
				continue
			}
			rest = append(rest, e)
		}
		var conds []ssa.Value
		conds = append(conds, rest...)
		for i, e := range x.Edges {
			if _, ok := e.(*ssa.Const); ok && i < len(x.Block().Preds) {
				pr := x.Block().Preds[i]
				if iff, ok := pr.Instrs[len(pr.Instrs)-1].(*ssa.If); ok {
					conds = append(conds, iff.Cond)
				}
			}
		}
		if (allFalse && idx == 0) || (allTrue && idx == 1) {
			for _, cd := range conds {
				if impliesPresent(cd, idx, okv, ptr, depth+1) {
					return true
				}
			}
		}
	}
	return false
}

func ruleN13ok(c *Ctx) {
	c.doc("N13ok", "where a function of this repository returns (pointer, ok), every use of the pointer (dereference, field access, passing it on to a callee) lies behind a test that ok is true or the pointer is not nil: `p, _ := f()` followed by a use of p is a nil dereference for the inputs for which f has nothing to return")
	n := 0
	for _, f := range c.L.RepoFuncs() {
		if c.isGeneratedFn(f) || pkgRel(f) == "test" {
			continue
		}
		per := 0
		for _, b := range f.Blocks {
			for _, in := range b.Instrs {
				call, ok := in.(*ssa.Call)
				if !ok {
					continue
				}
				tup, ok := call.Type().(*types.Tuple)
				if !ok || tup.Len() != 2 || !isBoolType(tup.At(1).Type()) {
					continue
				}
				if _, isPtr := tup.At(0).Type().Underlying().(*types.Pointer); !isPtr {
					continue
				}
				// the callee is repository code (static or through one of its interfaces)
				name := calleeOrDyn(call.Common())
				if call.Call.IsInvoke() {
					if m := call.Call.Method; m == nil || m.Pkg() == nil || !strings.HasPrefix(m.Pkg().Path(), modPath) {
						continue
					}
				} else if sc := call.Call.StaticCallee(); sc == nil || !strings.HasPrefix(funcName(sc), modPath) && !strings.Contains(funcName(sc), modPath) {
					continue
				}
				var ptr, okv ssa.Value
				for _, r := range *call.Referrers() {
					if ex, ok := r.(*ssa.Extract); ok {
						if ex.Index == 0 {
							ptr = ex
						} else {
							okv = ex
						}
					}
				}
				if ptr == nil || ptr.Referrers() == nil {
					continue
				}
				// edges that establish presence
				var edges []cfgEdge
				for _, gb := range f.Blocks {
					iff, ok := gb.Instrs[len(gb.Instrs)-1].(*ssa.If)
					if !ok {
						continue
					}
					for i := 0; i < 2; i++ {
						if impliesPresent(iff.Cond, i, okv, ptr, 0) {
							edges = append(edges, cfgEdge{gb, i})
						}
					}
				}
				for _, r := range *ptr.Referrers() {
					switch u := r.(type) {
					case *ssa.DebugRef, *ssa.Return, *ssa.Phi:
						continue
					case *ssa.BinOp:
						if u.Op == token.EQL || u.Op == token.NEQ {
							continue
						}
					case *ssa.MakeInterface:
						continue // logged with %v and the like
					}
					n++
					per++
					key := fmt.Sprintf("%s|use#%d of the pointer returned by %s", shortName(f), per, name)
					guarded := len(edges) > 0 && edgesDominate(f, edges, r.Block())
					c.check(guarded, "N13ok", key, c.L.Pos(instrPos(r)), shortName(f)+" uses the pointer returned by "+name+" without having tested its ok result (or the pointer) on the way: nil for the inputs the callee has nothing for")
				}
			}
		}
	}
	c.analysed["N13ok_pointer_uses"] = n
	c.check(n >= 4, "N13ok", "(pointer, ok) uses found", "", fmt.Sprintf("%d", n))
}

// ---------------------------------------------------------------------------------------
// L14r: whether RESB reserves does not depend on where the program is located
// ---------------------------------------------------------------------------------------

func ruleL14r(c *Ctx) {
	c.doc("L14r", "no branch of processRESB is decided by the location counter: a reservation is accepted or refused by its size alone, so inserting an ORG (or code) in front of it cannot make its zero bytes disappear")
	f := c.L.SSAFunc("internal/pass1", "processRESB")
	if f == nil {
		c.anchorMissing("L14r", "internal/pass1.processRESB")
		return
	}
	n := 0
	for _, g := range unitOf(f, 2) {
		for _, b := range g.Blocks {
			iff, ok := b.Instrs[len(b.Instrs)-1].(*ssa.If)
			if !ok {
				continue
			}
			n++
			c.check(!dependsOnFieldLoad(iff.Cond, "LOC"), "L14r", fmt.Sprintf("%s|branch#%d independent of LOC", shortName(g), n), c.L.Pos(instrPos(iff)), "this branch of the RESB handler tests the location counter: the same RESB is assembled or dropped depending on the address it happens to be at")
		}
	}
	c.check(n >= 1, "L14r", "processRESB|branches found", c.L.Pos(f.Pos()), fmt.Sprintf("%d", n))
}

// ---------------------------------------------------------------------------------------
// S16l: LGDT [label] is encoded with the absolute-address form of the mode
// ---------------------------------------------------------------------------------------

func ruleS16l(c *Ctx) {
	c.doc("S16l", "every byte sequence handleLGDT can return is 0F 01 /2 with the absolute-address ModR/M of the mode and the full-width address: 0F 01 16 lo hi (16-bit) or 0F 01 15 b0 b1 b2 b3 (32-bit). A shorter displacement form (mod=01) means [BP+disp8] / [EBP+disp8], not an absolute address, and makes the instruction's length depend on the label's value")
	f := c.L.SSAFunc("internal/codegen", "handleLGDT")
	if f == nil {
		c.anchorMissing("S16l", "internal/codegen.handleLGDT")
		return
	}
	paths, ok := enumPaths(f, 5000)
	if !ok {
		c.fail("S16l", "handleLGDT|path enumeration", c.L.Pos(f.Pos()), "undecided: too many paths")
		return
	}
	seen := map[string]bool{}
	n := 0
	for i := range paths {
		p := paths[i]
		if len(p.Ret.Results) != 2 || p.contradictsConstGuard() {
			continue
		}
		if e, ok := p.Ret.Results[1].(*ssa.Const); !ok || !e.IsNil() {
			continue
		}
		for _, sp := range shapesWithHelpers(p, p.Ret.Results[0], 2) {
			sh := sp.Shape
			desc := sh.String()
			if seen[desc] || len(sh) == 0 {
				continue
			}
			seen[desc] = true
			n++
			runs := fieldRuns(sh)
			good := len(sh) >= 3 && sh[0].Kind == bConst && sh[0].C == 0x0F && sh[1].Kind == bConst && sh[1].C == 0x01 && sh[2].Kind == bConst &&
				len(runs) == 1 && runs[0].Start == 3 && runs[0].LE && runs[0].Width == len(sh)-3 &&
				((sh[2].C == 0x16 && runs[0].Width == 2) || (sh[2].C == 0x15 && runs[0].Width == 4))
			c.check(good, "S16l", fmt.Sprintf("handleLGDT|form#%d", n), c.L.Pos(retPos(p.Ret)), "handleLGDT can return "+desc+": not 0F 01 16 + 16-bit address or 0F 01 15 + 32-bit address")
		}
	}
	c.check(n >= 2, "S16l", "handleLGDT|forms found", c.L.Pos(f.Pos()), fmt.Sprintf("%d", n))
}

// ---------------------------------------------------------------------------------------
// Z18: no value of an immediate is a marker
// ---------------------------------------------------------------------------------------

func ruleZ18(c *Ctx) {
	c.doc("Z18", "the fits-in-N-bits predicates of ng_operand compare the immediate's value with range bounds only (<, <=, >, >=): an equality test of the value with a constant makes one value of the immediate a marker for `no immediate` — a literal 0 then `does not fit in 8 bits` and CMP BX,0 gets the 16-bit form")
	n := 0
	for _, f := range c.L.RepoFuncs() {
		if pkgRel(f) != "pkg/ng_operand" || !strings.HasPrefix(f.Name(), "ImmediateValueFits") {
			continue
		}
		for _, g := range unitOf(f, 2) {
			for _, b := range g.Blocks {
				for _, in := range b.Instrs {
					bo, ok := in.(*ssa.BinOp)
					if !ok || (bo.Op != token.EQL && bo.Op != token.NEQ) {
						continue
					}
					for _, pair := range [][2]ssa.Value{{bo.X, bo.Y}, {bo.Y, bo.X}} {
						k, isK := pair[1].(*ssa.Const)
						if !isK || !isIntConst(k) {
							continue
						}
						if !dependsOnFieldLoadDeep(pair[0], "Immediate") || !isIntType(pair[0].Type()) {
							continue
						}
						n++
						c.fail("Z18", fmt.Sprintf("%s|immediate compared for equality with %d#%d", shortName(g), k.Int64(), n), c.L.Pos(instrPos(in)), fmt.Sprintf("the immediate's value is tested for (in)equality with %d: that value of the immediate is treated differently from its neighbours (a marker), although every value is a legal immediate", k.Int64()))
					}
				}
			}
		}
	}
	c.ok("Z18", "fits predicates|no marker value", "", fmt.Sprintf("%d equality tests on an immediate", n))
}

// ---------------------------------------------------------------------------------------
// Z4: no address is a marker for "no target"
// ---------------------------------------------------------------------------------------

func ruleZ4(c *Ctx) {
	c.doc("Z4", "the branch emitters (and the helpers that parse their operand) never test the parsed target address for equality with a constant: every address, 0 included, is a legal target, and an unresolved label is reported by pass 2 (rule U7), not recognised by its value")
	n := 0
	seenFn := map[*ssa.Function]bool{}
	for _, fn := range []string{"handleJcc", "handleCALL"} {
		f := c.L.SSAFunc("internal/codegen", fn)
		if f == nil {
			c.anchorMissing("Z4", "internal/codegen."+fn)
			continue
		}
		for _, g := range unitOf(f, 2) {
			if seenFn[g] {
				continue
			}
			seenFn[g] = true
			for _, b := range g.Blocks {
				for _, in := range b.Instrs {
					bo, ok := in.(*ssa.BinOp)
					if !ok || (bo.Op != token.EQL && bo.Op != token.NEQ) {
						continue
					}
					for _, pair := range [][2]ssa.Value{{bo.X, bo.Y}, {bo.Y, bo.X}} {
						k, isK := pair[1].(*ssa.Const)
						if !isK || !isIntConst(k) {
							continue
						}
						call := parseCallOf(pair[0])
						if call == nil {
							continue
						}
						n++
						c.fail("Z4", fmt.Sprintf("%s|parsed target compared with %d#%d", shortName(g), k.Int64(), n), c.L.Pos(instrPos(in)), fmt.Sprintf("the parsed branch target is tested for (in)equality with %d: a branch to that address is treated differently from a branch to any other (refused, or taken for an unresolved label)", k.Int64()))
					}
				}
			}
		}
	}
	c.ok("Z4", "branch emitters|no marker address", "", fmt.Sprintf("%d equality tests on a parsed target", n))
}

// ---------------------------------------------------------------------------------------
// propositional closure of the branch conditions on the way to a block
// ---------------------------------------------------------------------------------------

// pathFacts: keys of the branch conditions that are decided on every way to blk, with their
// truth values, closed under: and true ⇒ both; or false ⇒ neither; and false + one true ⇒ the
// other false; or true + one false ⇒ the other true.
func pathFacts(f *ssa.Function, blk *ssa.BasicBlock) (map[string]bool, *congr) {
	g := &congr{memo: map[ssa.Value]string{}}
	facts := map[string]bool{}
	var pending [][2]string // compound facts kept for propagation: key, "T"/"F"
	var add func(k string, truth bool)
	add = func(k string, truth bool) {
		for strings.HasPrefix(k, "!") {
			k, truth = k[1:], !truth
		}
		if k == "const:true" || k == "const:false" {
			return
		}
		if old, has := facts[k]; has && old == truth {
			return
		}
		facts[k] = truth
		if strings.HasPrefix(k, "and(") || strings.HasPrefix(k, "or(") {
			isAnd := strings.HasPrefix(k, "and(")
			inner := k[strings.Index(k, "(")+1 : len(k)-1]
			if l, r, ok := splitTop(inner); ok {
				if isAnd == truth { // and true / or false: both operands decided
					add(l, truth)
					add(r, truth)
				} else {
					t := "F"
					if truth {
						t = "T"
					}
					pending = append(pending, [2]string{k, t})
				}
			}
		}
	}
	for _, b := range f.Blocks {
		iff, ok := b.Instrs[len(b.Instrs)-1].(*ssa.If)
		if !ok {
			continue
		}
		for i := 0; i < 2; i++ {
			if edgesDominate(f, []cfgEdge{{b, i}}, blk) && !edgesDominate(f, []cfgEdge{{b, 1 - i}}, blk) {
				add(g.key(iff.Cond, 0), i == 0)
			}
		}
	}
	// the condition under which blk is reached at all, as one formula (joins are disjunctions):
	// covers guards such as `if a && (b || c) { return }` whose continuation has two ways in
	// (the condition of every dominator holds as well: a join repeats its dominator's condition
	// inside each disjunct, where and/or decomposition cannot reach it)
	for d := blk; d != nil; d = d.Idom() {
		if pc := pathCondKey(g, f, d); pc != "" && len(pc) < 6000 {
			add(pc, true)
		}
	}
	for round := 0; round < 6; round++ {
		changed := false
		for _, pf := range pending {
			k := pf[0]
			isAnd := strings.HasPrefix(k, "and(")
			inner := k[strings.Index(k, "(")+1 : len(k)-1]
			l, r, ok := splitTop(inner)
			if !ok {
				continue
			}
			el, er := evalKey(l, facts, 0), evalKey(r, facts, 0)
			before := len(facts)
			if isAnd { // and(l,r) is false
				if el == 1 {
					add(r, false)
				}
				if er == 1 {
					add(l, false)
				}
			} else { // or(l,r) is true
				if el == 0 {
					add(r, true)
				}
				if er == 0 {
					add(l, true)
				}
			}
			if len(facts) != before {
				changed = true
			}
		}
		if !changed {
			break
		}
	}
	return facts, g
}

// propLenProof: the facts on the way to blk imply len(x) > k.
func propLenProof(f *ssa.Function, x ssa.Value, k int64, blk *ssa.BasicBlock) (string, bool) {
	facts, g := pathFacts(f, blk)
	lk := "len(" + g.key(x, 0) + ")"
	for key, truth := range facts {
		if !strings.HasPrefix(key, "lss(") {
			continue
		}
		l, r, ok := splitTop(key[4 : len(key)-1])
		if !ok {
			continue
		}
		cval := func(s string) (int64, bool) {
			if !strings.HasPrefix(s, "const:") {
				return 0, false
			}
			var v int64
			if _, err := fmt.Sscanf(s[6:], "%d", &v); err != nil {
				return 0, false
			}
			return v, true
		}
		// lss(c, len) true: len > c;   lss(len, c) false: len >= c
		if r == lk && truth {
			if c, ok := cval(l); ok && c >= k {
				return fmt.Sprintf("the tests on the way imply len > %d (propositional closure of the branch conditions)", c), true
			}
		}
		if l == lk && !truth {
			if c, ok := cval(r); ok && c >= k+1 {
				return fmt.Sprintf("the tests on the way imply len >= %d (propositional closure of the branch conditions)", c), true
			}
		}
	}
	return "", false
}

// pathCondKey: the key of the condition under which control reaches blk from the entry of f,
// ignoring back edges: PC(entry) = true, PC(b) = OR over predecessors p of PC(p) AND cond(p→b).
func pathCondKey(g *congr, f *ssa.Function, blk *ssa.BasicBlock) string {
	memo := map[*ssa.BasicBlock]string{}
	onstack := map[*ssa.BasicBlock]bool{}
	var pc func(b *ssa.BasicBlock) string
	pc = func(b *ssa.BasicBlock) string {
		if k, ok := memo[b]; ok {
			return k
		}
		if b == f.Blocks[0] || len(b.Preds) == 0 {
			memo[b] = "const:true"
			return "const:true"
		}
		if onstack[b] {
			return "const:true"
		}
		onstack[b] = true
		res := "const:false"
		for _, p := range b.Preds {
			if b.Dominates(p) {
				continue // back edge
			}
			pk := pc(p)
			ek := "const:true"
			if iff, ok := p.Instrs[len(p.Instrs)-1].(*ssa.If); ok && p.Succs[0] != p.Succs[1] {
				ck := g.key(iff.Cond, 0)
				if p.Succs[0] == b {
					ek = ck
				} else {
					ek = negKey(ck)
				}
			}
			res = orKey(res, andKey(pk, ek))
			if len(res) > 6000 {
				res = "const:true"
				break
			}
		}
		delete(onstack, b)
		memo[b] = res
		return res
	}
	return pc(blk)
}
