package main

// Eighth strengthening round: rules that replace recognisers which had matched a seeded change
// only by its spelling.

import (
	"fmt"
	"go/token"
	"sort"
	"strings"

	"golang.org/x/tools/go/ssa"
)

// ---------------------------------------------------------------------------------------
// F8irr: the candidate comparators never prefer a over b when both have the same criteria
// ---------------------------------------------------------------------------------------

// congruence key of a value with the second comparator parameter renamed to the first: two
// values with the same key are equal whenever a == b. Negations are kept as a leading "!".
type congr struct {
	a, b *ssa.Parameter
	memo map[ssa.Value]string
}

func (g *congr) key(v ssa.Value, depth int) string {
	if k, ok := g.memo[v]; ok {
		return k
	}
	if depth > 12 {
		return fmt.Sprintf("deep:%p", v)
	}
	g.memo[v] = fmt.Sprintf("cyc:%p", v)
	k := g.compute(v, depth)
	g.memo[v] = k
	return k
}

func negKey(k string) string {
	if strings.HasPrefix(k, "!") {
		return k[1:]
	}
	return "!" + k
}

func (g *congr) compute(v ssa.Value, depth int) string {
	switch x := v.(type) {
	case *ssa.Parameter:
		if x == g.a || x == g.b {
			return "E"
		}
		return "param:" + x.Name()
	case *ssa.Const:
		if x.Value == nil {
			return "nil"
		}
		return "const:" + x.Value.ExactString()
	case *ssa.FieldAddr:
		return g.key(x.X, depth+1) + ".&" + fieldName(x)
	case *ssa.Field:
		return fmt.Sprintf("%s.#%d", g.key(x.X, depth+1), x.Field)
	case *ssa.UnOp:
		switch x.Op {
		case token.NOT:
			return negKey(g.key(x.X, depth+1))
		case token.MUL:
			return "*" + g.key(x.X, depth+1)
		}
		return x.Op.String() + "(" + g.key(x.X, depth+1) + ")"
	case *ssa.BinOp:
		l, r := g.key(x.X, depth+1), g.key(x.Y, depth+1)
		switch x.Op {
		case token.EQL, token.NEQ:
			if r < l {
				l, r = r, l
			}
			k := "eql(" + l + "," + r + ")"
			if x.Op == token.NEQ {
				return "!" + k
			}
			return k
		case token.GTR: // x > y  ==  y < x
			return "lss(" + r + "," + l + ")"
		case token.LSS:
			return "lss(" + l + "," + r + ")"
		case token.GEQ: // x >= y == !(x < y)
			return "!lss(" + l + "," + r + ")"
		case token.LEQ: // x <= y == !(y < x)
			return "!lss(" + r + "," + l + ")"
		}
		return x.Op.String() + "(" + l + "," + r + ")"
	case *ssa.Convert:
		return g.key(x.X, depth+1)
	case *ssa.ChangeType:
		return g.key(x.X, depth+1)
	case *ssa.Call:
		if callee := x.Call.StaticCallee(); callee != nil && !x.Call.IsInvoke() {
			parts := []string{}
			for _, a := range x.Call.Args {
				parts = append(parts, g.key(a, depth+1))
			}
			return "call:" + funcName(callee) + "(" + strings.Join(parts, ",") + ")"
		}
		if x.Call.IsInvoke() {
			parts := []string{g.key(x.Call.Value, depth+1)}
			for _, a := range x.Call.Args {
				parts = append(parts, g.key(a, depth+1))
			}
			return "invoke:" + x.Call.Method.Name() + "(" + strings.Join(parts, ",") + ")"
		}
	case *ssa.Phi:
		// value of a short-circuit expression: the operands plus the condition that chose between them
		var parts []string
		for _, e := range x.Edges {
			parts = append(parts, g.key(e, depth+1))
		}
		sort.Strings(parts)
		ctl := ""
		if d := x.Block().Idom(); d != nil {
			if iff, ok := d.Instrs[len(d.Instrs)-1].(*ssa.If); ok {
				ctl = g.key(iff.Cond, depth+1)
			}
		}
		return "phi[" + ctl + "](" + strings.Join(parts, ",") + ")"
	}
	return fmt.Sprintf("opaque:%p", v)
}

func ruleF8irr(c *Ctx) {
	c.doc("F8irr", "the candidate comparators are irreflexive: with the two candidates equal in every criterion (the second parameter renamed to the first) every return yields false, so a tie keeps the earlier table row and never depends on which candidate happens to be called a. A `return true` guarded by a test of one candidate only is the typical violation")
	for _, fn := range []string{"findBestEncodingForSignExtendable", "findBestEncodingForNonSignExtendable"} {
		f := c.L.SSAFunc("pkg/asmdb", fn)
		if f == nil || len(f.Params) < 2 {
			c.anchorMissing("F8irr", "asmdb."+fn)
			continue
		}
		g := &congr{a: f.Params[0], b: f.Params[1], memo: map[ssa.Value]string{}}
		nret := 0
		for _, rb := range f.Blocks {
			ret, ok := rb.Instrs[len(rb.Instrs)-1].(*ssa.Return)
			if !ok || len(ret.Results) != 1 {
				continue
			}
			nret++
			key := fmt.Sprintf("%s|return#%d", fn, nret)
			pos := c.L.Pos(retPos(ret))
			// facts: conditions of the branches every path to this return takes
			facts := map[string]bool{}
			infeasible := ""
			addFact := func(k string, truth bool) {
				if strings.HasPrefix(k, "!") {
					k, truth = k[1:], !truth
				}
				if old, has := facts[k]; has && old != truth {
					infeasible = "contradicting tests of " + k
				}
				facts[k] = truth
				// a test that compares a value with itself
				if strings.HasPrefix(k, "eql(") || strings.HasPrefix(k, "lss(") {
					inner := k[4 : len(k)-1]
					if l, r, ok := splitTop(inner); ok && l == r {
						if (strings.HasPrefix(k, "eql(") && !truth) || (strings.HasPrefix(k, "lss(") && truth) {
							infeasible = "a test that distinguishes the candidates (" + k + ")"
						}
					}
				}
			}
			for _, b := range f.Blocks {
				iff, ok := b.Instrs[len(b.Instrs)-1].(*ssa.If)
				if !ok {
					continue
				}
				for i := 0; i < 2; i++ {
					if edgesDominate(f, []cfgEdge{{b, i}}, rb) && !edgesDominate(f, []cfgEdge{{b, 1 - i}}, rb) {
						addFact(g.key(iff.Cond, 0), i == 0)
					}
				}
			}
			v := ret.Results[0]
			if infeasible != "" {
				c.ok("F8irr", key, pos, "not reachable with equal candidates: "+infeasible)
				continue
			}
			vk := g.key(v, 0)
			truth := true
			if strings.HasPrefix(vk, "!") {
				vk, truth = vk[1:], false
			}
			switch {
			case vk == "const:false" && truth, vk == "const:true" && !truth:
				c.ok("F8irr", key, pos, "returns false")
			case func() bool { t, has := facts[vk]; return has && t != truth }():
				c.ok("F8irr", key, pos, "returns a value the path has tested to be false")
			case func() bool {
				if strings.HasPrefix(vk, "lss(") || strings.HasPrefix(vk, "eql(") {
					l, r, ok := splitTop(vk[4 : len(vk)-1])
					if ok && l == r {
						return (strings.HasPrefix(vk, "lss(") && truth) || (strings.HasPrefix(vk, "eql(") && !truth)
					}
				}
				return false
			}():
				c.ok("F8irr", key, pos, "returns a strict comparison of the same criterion of both candidates")
			case isLoSwitchResult(v):
				c.ok("F8irr", key, pos, "decided by a lo.Switch table: rows with equal flags are checked by rule F8c (preference rows)")
			default:
				c.fail("F8irr", key, pos, fmt.Sprintf("%s can return true for two candidates that agree in every criterion (returned value: %s; tests on the way: %s): the choice then depends on the order of the table rows, not on the ranking", fn, valueText(v), factText(facts)))
			}
		}
		c.check(nret >= 3, "F8irr", fn+"|returns found", c.L.Pos(f.Pos()), fmt.Sprintf("%d", nret))
	}
	c.floor("F8irr", 10)
}

// splitTop splits "l,r" at the comma that is not nested in parentheses or brackets.
func splitTop(s string) (string, string, bool) {
	depth := 0
	for i, r := range s {
		switch r {
		case '(', '[':
			depth++
		case ')', ']':
			depth--
		case ',':
			if depth == 0 {
				return s[:i], s[i+1:], true
			}
		}
	}
	return "", "", false
}

// isLoSwitchResult: v is *p where p is the result of a lo.Switch(...).Case(...)….Default(...) chain.
func isLoSwitchResult(v ssa.Value) bool {
	load, ok := v.(*ssa.UnOp)
	if !ok || load.Op != token.MUL {
		return false
	}
	call, ok := load.X.(*ssa.Call)
	if !ok {
		return false
	}
	callee := call.Call.StaticCallee()
	return callee != nil && strings.Contains(funcName(callee), "samber/lo") && strings.Contains(funcName(callee), "Default")
}

func valueText(v ssa.Value) string {
	if k, ok := v.(*ssa.Const); ok {
		return k.String()
	}
	if in, ok := v.(ssa.Instruction); ok {
		return v.Name() + " = " + in.String()
	}
	return v.Name()
}

func factText(facts map[string]bool) string {
	var ks []string
	for k, t := range facts {
		s := k
		if len(s) > 60 {
			s = s[:60] + "…"
		}
		ks = append(ks, fmt.Sprintf("%s=%v", s, t))
	}
	sort.Strings(ks)
	if len(ks) > 4 {
		ks = ks[:4]
	}
	return strings.Join(ks, "; ")
}

// ---------------------------------------------------------------------------------------
// N15g: only text the grammar matched as a register is classified as one
// ---------------------------------------------------------------------------------------

func ruleN15g(c *Ctx) {
	c.doc("N15g", "getRegisterType classifies a word by spelling (it upper-cases it and falls back on prefixes: K*, MM*, XMM*, BND* …), which is right only for text the operand grammar has already matched as a register: it is called from the generated grammar actions, or on the Register field of a parsed operand, and nowhere else — called on raw operand text it turns labels such as kmsg, mmio_base or a lower-case ax into registers")
	target := c.L.SSAFunc("pkg/ng_operand", "getRegisterType")
	if target == nil {
		c.anchorMissing("N15g", "pkg/ng_operand.getRegisterType")
		return
	}
	n := 0
	for _, g := range c.L.RepoFuncs() {
		if pkgRel(g) == "test" {
			continue
		}
		per := 0
		for _, b := range g.Blocks {
			for _, in := range b.Instrs {
				for _, op := range in.Operands(nil) {
					if op == nil || *op != ssa.Value(target) {
						continue
					}
					n++
					per++
					key := fmt.Sprintf("%s|use of getRegisterType#%d", shortName(g), per)
					pos := c.L.Pos(instrPos(in))
					call, isCall := in.(*ssa.Call)
					switch {
					case !isCall || call.Call.StaticCallee() != target:
						c.fail("N15g", key, pos, "getRegisterType is used as a value: its callers can no longer be enumerated")
					case c.isGeneratedFn(g):
						c.ok("N15g", key, pos, "called from a grammar action on the text the Register rule matched")
					case isFieldLoad(call.Call.Args[0], "Register"):
						c.ok("N15g", key, pos, "called on the Register field of a parsed operand")
					default:
						c.fail("N15g", key, pos, shortName(g)+" classifies text that did not come out of the grammar's Register rule with getRegisterType: its prefix fallbacks (K*, MM*, XMM*, BND*) and its upper-casing turn ordinary label names into registers")
					}
				}
			}
		}
	}
	c.check(n >= 1, "N15g", "uses of getRegisterType found", "", fmt.Sprintf("%d", n))
}

// ---------------------------------------------------------------------------------------
// O6: no operator is dropped by the partial evaluators
// ---------------------------------------------------------------------------------------

func ruleO6(c *Ctx) {
	c.doc("O6", "in AddExp.Eval and MultExp.Eval every round of a loop over the operator list looks at the operator it has fetched on every path to the next round (compares it to choose the arithmetic, or stores it into the rebuilt operator list): a path that keeps the term without looking at its operator has dropped a sign — `10 - A` rebuilt as `A + 10`")
	total := 0
	for _, fn := range []string{"(*AddExp).Eval", "(*MultExp).Eval"} {
		f := c.L.SSAFunc("internal/ast", fn)
		if f == nil {
			c.anchorMissing("O6", "internal/ast."+fn)
			continue
		}
		n := 0
		for _, b := range f.Blocks {
			for idx, in := range b.Instrs {
				ld, ok := in.(*ssa.UnOp)
				if !ok || ld.Op != token.MUL {
					continue
				}
				ia, ok := ld.X.(*ssa.IndexAddr)
				if !ok || !isFieldLoad(ia.X, "Operators") {
					continue
				}
				// the loop: the innermost header that dominates this block and is reached back from it
				header := loopHeaderOf(b)
				if header == nil {
					continue
				}
				n++
				total++
				key := fmt.Sprintf("%s|operator fetched in loop#%d", fn, n)
				uses := map[*ssa.BasicBlock]bool{}
				usedHere := false
				if ld.Referrers() != nil {
					for _, r := range *ld.Referrers() {
						if _, isDbg := r.(*ssa.DebugRef); isDbg {
							continue
						}
						if r.Block() == b {
							for j := idx + 1; j < len(b.Instrs); j++ {
								if b.Instrs[j] == r {
									usedHere = true
								}
							}
							if _, isPhi := r.(*ssa.Phi); isPhi {
								continue
							}
						}
						uses[r.Block()] = true
					}
				}
				if usedHere {
					c.ok("O6", key, c.L.Pos(instrPos(in)), "the operator is looked at right where it is fetched")
					continue
				}
				// can the next round be reached from here without passing a block that uses the operator?
				seen := map[*ssa.BasicBlock]bool{}
				var path []*ssa.BasicBlock
				var found []*ssa.BasicBlock
				var dfs func(x *ssa.BasicBlock) bool
				dfs = func(x *ssa.BasicBlock) bool {
					if x == header {
						found = append([]*ssa.BasicBlock{}, path...)
						return true
					}
					if seen[x] || (uses[x] && x != b) || !header.Dominates(x) {
						return false
					}
					seen[x] = true
					path = append(path, x)
					for _, s := range x.Succs {
						if dfs(s) {
							return true
						}
					}
					path = path[:len(path)-1]
					return false
				}
				if dfs(b) {
					where := ""
					if len(found) > 0 {
						last := found[len(found)-1]
						for _, li := range last.Instrs {
							if p := instrPos(li); p.IsValid() {
								where = c.L.Pos(p)
							}
						}
					}
					c.fail("O6", key, c.L.Pos(instrPos(in)), fmt.Sprintf("%s can go on to the next term without having looked at the operator it fetched (path ends near %s): the term is kept and its sign is lost", fn, where))
				} else {
					c.ok("O6", key, c.L.Pos(instrPos(in)), "every path to the next round compares or stores the operator")
				}
			}
		}
		c.check(n >= 1, "O6", fn+"|operator loops found", c.L.Pos(f.Pos()), fmt.Sprintf("%d", n))
	}
	c.analysed["O6_operator_fetches"] = total
}

// loopHeaderOf: the closest block that dominates b and has a predecessor it dominates which is
// reachable from b (a natural-loop header around b); nil when b is in no loop.
func loopHeaderOf(b *ssa.BasicBlock) *ssa.BasicBlock {
	for h := b; h != nil; h = h.Idom() {
		for _, p := range h.Preds {
			if h.Dominates(p) && reaches(b, p, h) {
				return h
			}
		}
	}
	return nil
}

// reaches: to is reachable from from without passing through stop (from == to counts).
func reaches(from, to, stop *ssa.BasicBlock) bool {
	seen := map[*ssa.BasicBlock]bool{}
	var dfs func(x *ssa.BasicBlock) bool
	dfs = func(x *ssa.BasicBlock) bool {
		if x == to {
			return true
		}
		if seen[x] {
			return false
		}
		seen[x] = true
		for _, s := range x.Succs {
			if s == stop {
				continue
			}
			if dfs(s) {
				return true
			}
		}
		return false
	}
	return dfs(from)
}
